# -*- coding: utf-8 -*-
"""
C09, gap round: parts of thermosteam.base.sparse that the groups of C09_sparse_dispatch.py / extra_C09.py do not look at.

  mode S  C09/gap_alias            the receiver (or one of its rows) is among the operands (a -= a, sa += sa[0], sa[:] = sa[1], ...)
  mode S  C09/gap_slices           every slice form (empty, stop 0, start > stop, open ends, steps; negative / over-long bounds)
  mode S  C09/gap_views            rows / full slices handed out by __getitem__ / __iter__ are views like NumPy's; copies are copies
  mode S  C09/gap_setitem_values   value kinds of __setitem__ that getset does not use (sparse values, lists, length-1, int, bool)
  mode S  C09/gap_construct        constructors and converters (dict / SparseVector / size / generator / sparse(), copy flags)
  mode S  C09/gap_queries          the observation channels (nonzero_*, positive/negative_*, sum_of, to/from_flat_array, float/int, ...)
  mode S  C09/gap_mixed_dtype      float (symbolic) x boolean operands in every pairing of kinds
  mode S  C09/gap_history          two in-place operations in a row on the same target (incl. exact cancellation a, -a) + frame
  mode S  C09/gap_reflected_dense  a list / tuple / nested list as LEFT operand of + - * / and comparisons
  mode B  C09/gap_logical_getset   SparseLogicalVector / boolean SparseArray get and set, exhaustive over all boolean patterns
  mode B  C09/gap_logical_ops      SparseLogicalVector / boolean SparseArray operators, reductions, independence of results
  mode B  C09/gap_history_enum     exhaustive 2-step (quick) / 3-step (thorough) histories over the 4-value alphabet {0, x, -x, y}

The oracle is always NumPy itself applied to the dense images holding the same leaves.

Obligations that FAIL on the unchanged tree bc9dedb (genuine defects; reproducers and proposed patches /tmp/gap/C09_defect_<n>.{py,diff};
with the six patches applied every obligation of this file is discharged):
  1  C09/gap_alias  '* isub itself', 'SparseArray[2, 2] isub its own row *', '... isub one-row slice of itself'   a -= a raises RuntimeError
  2  C09/gap_alias  'SparseArray[2, 2] iadd|imul|itruediv its own row 0 / one-row slice of itself'                   sa += sa[0] uses the updated row
  3  C09/gap_slices '* with s = [-2:] | [:-1] | [::-1] | [1:10] | [-5:2]: *'                                        default_range takes the bounds literally
  4  C09/gap_logical_getset 'bool SparseArray[2, 3][[0, 1], 1] set', '[[0, 1], 2] set', '[[1, 1], 0] set'            TypeError for a scalar column
  5  C09/gap_setitem_values 'sa[[True, True], 0:2] = <2-d value>', 'sa[[True, True], :] = <2-d value>' and
     C09/gap_logical_getset 'bool SparseArray[2, 3][[True, True], 0:2] set', '[[True, True], :] set'                 mask entries used as row numbers
  6  C09/gap_logical_ops '* any', '* all' clause 'the result accepts in-place operations like the NumPy result'      rows built on {} instead of set()
Deliberately NOT demanded (documented behaviour of thermosteam, see tests/test_sparse.py "Size is not strict"): integer positions that are
negative or outside the size; views vs. copies for fancy ROW selections of a SparseArray (sa[[1, 0]] shares its rows with sa); 2-d fancy
indices on 1-d vectors; 1-tuples as index of a 2-d array; the shape of selections without elements.
"""
import itertools
import operator
import sys
import numpy as np
from engine.api import group
from contracts.C09_sparse_dispatch import (leafarr, mk_operand, image, rep_ok, same, np_cmp, cmp_image, BIN, IBIN, CMP, EXC)

sp = sys.modules['thermosteam.base.sparse']
SparseVector, SparseArray, SparseLogicalVector = sp.SparseVector, sp.SparseArray, sp.SparseLogicalVector
sparse_fn = sp.sparse
SPARSE = (SparseVector, SparseLogicalVector, SparseArray)
ANY_EXC = (ValueError, IndexError, TypeError, RuntimeError, KeyError, ZeroDivisionError, AttributeError)


def dimg(x):
    """Dense image of anything an operation may return."""
    if isinstance(x, SPARSE):
        return image(x)
    return np.asarray(x)


def same_img(w, got, exp):
    """Equality of dense images; two empty selections are equal whatever their nominal shape."""
    got = np.asarray(got); exp = np.asarray(exp)
    if got.size == 0 and exp.size == 0:
        return w.And(True)
    return same(w, got, exp)


def rep_ok_x(w, x):
    """rep_ok for states reached by SEVERAL arithmetic steps: symbolically 'stored value != 0' over the reals; natively the exact
    float test (a cancellation that is exact over the reals may leave a stored 1e-17 in floats, which IS a non-zero element there:
    the tolerance of the native w.ne would call that a stored zero)."""
    if w.symbolic:
        return rep_ok(w, x)
    rows = x.rows if isinstance(x, SparseArray) else [x]
    return all((v != 0 and 0 <= i < r.size) for r in rows if isinstance(r, SparseVector) for i, v in r.dct.items()) and \
        all(0 <= i < r.size for r in rows if isinstance(r, SparseLogicalVector) for i in r.set)


def first_plus_one(w, got, exp):
    got = np.asarray(got, dtype=object); exp = np.asarray(exp, dtype=object)
    if exp.size == 0 or got.size == 0:
        return None
    g, e = got.flat[0], exp.flat[0]
    if isinstance(e, (bool, np.bool_)):
        return None
    return w.eq(g, e + 1)


def outcome(f):
    try:
        return f(), None
    except ANY_EXC as e:
        return None, e


# =========================================================================== C09/gap_alias
# "in-place variants ... with ... other sparse objects", "in-place operations change only the target": the quantifier
# speaks of operations "applied to the same objects", so the operand may be the target itself or a part (row) of it.
# NumPy computes the result from the values the operands had BEFORE the operation (it buffers overlapping operands).

def alias_configs(tier):
    out = []
    for op in list(IBIN) + list(BIN) + ['eq', 'gt']:
        out.append({'name': f'SparseVector[3] {op} itself', 'case': 'sv-self', 'op': op})
        out.append({'name': f'SparseArray[2, 2] {op} itself', 'case': 'sa-self', 'op': op})
        for k in (0, 1):
            out.append({'name': f'SparseArray[2, 2] {op} its own row {k}', 'case': 'sa-row', 'op': op, 'k': k})
        out.append({'name': f'SparseArray[2, 2] {op} one-row slice of itself', 'case': 'sa-rowslice', 'op': op})
    for case in ('sv[:] = sv', 'sa[:] = sa', 'sa[:] = sa[0]', 'sa[:] = sa[1]', 'sa[0] = sa[1]', 'sa[1] = sa[0]', 'sa[:, :] = sa',
                 'sv.copy_like(sv)', 'sa.copy_like(sa)', 'sa[0].copy_like(sa[1])'):
        out.append({'name': case, 'case': case, 'op': 'assign'})
    return out


@group('C09/gap_alias', configs=alias_configs,
       functions=['thermosteam.base.sparse:SparseVector.__iadd__/__isub__/__imul__/__itruediv__ (exec templates)',
                  'thermosteam.base.sparse:SparseArray.__iadd__ ... __itruediv__ (exec templates)',
                  'thermosteam.base.sparse:SparseVector._isub_sparse', 'thermosteam.base.sparse:SparseVector._iadd_sparse',
                  'thermosteam.base.sparse:SparseVector._imul_sparse', 'thermosteam.base.sparse:SparseVector._itruediv_sparse',
                  'thermosteam.base.sparse:SparseVector.__setitem__', 'thermosteam.base.sparse:SparseArray.__setitem__',
                  'thermosteam.base.sparse:SparseVector.copy_like', 'thermosteam.base.sparse:SparseArray.copy_like'])
def gap_alias(w, cfg):
    op, case = cfg['op'], cfg['case']
    div = 'truediv' in op
    if case.startswith('sv'):
        a, A = mk_operand(w, 'a', 'SparseVector', (3,), nonzero=div)
    else:
        a, A = mk_operand(w, 'a', 'SparseArray', (2, 2), nonzero=div)
    A0 = A.copy()
    if op == 'assign':
        E = A0.copy()
        if case == 'sv[:] = sv': f = lambda: a.__setitem__(slice(None), a)
        elif case == 'sa[:] = sa': f = lambda: a.__setitem__(slice(None), a)
        elif case == 'sa[:, :] = sa': f = lambda: a.__setitem__((slice(None), slice(None)), a)
        elif case == 'sa[:] = sa[0]': f = lambda: a.__setitem__(slice(None), a[0]); E[:] = A0[0]
        elif case == 'sa[:] = sa[1]': f = lambda: a.__setitem__(slice(None), a[1]); E[:] = A0[1]
        elif case == 'sa[0] = sa[1]': f = lambda: a.__setitem__(0, a[1]); E[0] = A0[1]
        elif case == 'sa[1] = sa[0]': f = lambda: a.__setitem__(1, a[0]); E[1] = A0[0]
        elif case == 'sv.copy_like(sv)': f = lambda: a.copy_like(a)
        elif case == 'sa.copy_like(sa)': f = lambda: a.copy_like(a)
        elif case == 'sa[0].copy_like(sa[1])': f = lambda: a[0].copy_like(a[1]); E[0] = A0[1]
        _, exc = outcome(f)
        w.ensure('NumPy accepts the assignment => sparse accepts it', exc is None, exc=repr(exc))
        if exc is not None: return
        w.ensure('dense image = NumPy result', same(w, image(a), E))
        w.ensure('rep_ok', rep_ok(w, a))
        if case in ('sa[0] = sa[1]', 'sa[1] = sa[0]', 'sa[0].copy_like(sa[1])'):
            # the assignment copies values: the two rows stay separate storage
            src, dst = (1, 0) if case != 'sa[1] = sa[0]' else (0, 1)
            c = w.real('c', nonzero=True)
            a[src, 0] = c
            E[src, 0] = c
            w.ensure('a later write to the source row does not reach the assigned row', same(w, image(a), E))
        w.canary('canary: first element + 1', w.eq(image(a).flat[0], E.flat[0] + 1))
        return
    if case in ('sv-self', 'sa-self'):
        b, B = a, A0.copy()
    elif case == 'sa-row':
        b, B = a[cfg['k']], A0[cfg['k']].copy()
    else:
        b, B = a[0:1], A0[0:1].copy()
    w.ensure('the operand handed out by the array is (a part of) the array itself',
             b is a or any(r is x for r in a.rows for x in (b.rows if isinstance(b, SparseArray) else [b])))
    if op in CMP: expect = np_cmp(op, A0, B, w)
    elif op in BIN: expect = BIN[op](A0.copy(), B)
    else: expect = IBIN[op](A0.copy(), B)
    if op in IBIN: r, exc = outcome(lambda: IBIN[op](a, b))
    elif op in CMP: r, exc = outcome(lambda: CMP[op](a, b))
    else: r, exc = outcome(lambda: BIN[op](a, b))
    w.ensure('NumPy accepts the shapes => sparse accepts them', exc is None, exc=repr(exc))
    if exc is not None:
        w.canary('canary: accepted', False)
        return
    if op in CMP:
        w.ensure('dense image = NumPy result', same(w, cmp_image(w, r), expect))
    else:
        w.ensure('dense image = NumPy result', same(w, image(r), expect))
        w.ensure('rep_ok(result)', rep_ok(w, r))
    if op in IBIN:
        w.ensure('in-place returns the target', r is a)
    else:
        w.ensure('operands unchanged', same(w, image(a), A0))
        w.ensure('rep_ok(operand)', rep_ok(w, a))
        if op in BIN:
            rows_r = r.rows if isinstance(r, SparseArray) else [r]
            rows_a = a.rows if isinstance(a, SparseArray) else [a]
            w.ensure('result shares no storage with the operand', all(x is not y and x.dct is not y.dct for x in rows_r for y in rows_a))
    c = None if op in CMP else first_plus_one(w, image(r), expect)
    w.canary('canary: result + 1' if c is not None else 'canary: sparse raises', c if c is not None else False)


# =========================================================================== pattern-built operands (presence fixed by the configuration)

def mk_pat(w, name, pattern):
    """pattern: (nested) list of 'z' (concrete 0.), 'n' (non-zero leaf), 'm' (leaf that may be zero), or a number.
    Returns (sparse object built from the list, dense image)."""
    pat = np.array(pattern, dtype=object)
    vals = []
    for i, p in enumerate(pat.flat):
        if p == 'z': vals.append(0.)
        elif p == 'n': vals.append(w.real(f'{name}{i}', nonzero=True))
        elif p == 'm': vals.append(w.real(f'{name}{i}'))
        else: vals.append(float(p))
    dense = np.array(vals, dtype=object if w.symbolic else float).reshape(pat.shape)
    obj = SparseVector(dense.tolist()) if dense.ndim == 1 else SparseArray(dense.tolist())
    return obj, dense


def leaf_values(w, name, shape):
    n = int(np.prod(shape)) if shape != () else 1
    vals = [w.real(f'{name}{i}') for i in range(n)]
    V = np.array(vals, dtype=object if w.symbolic else float).reshape(shape if shape != () else (1,))
    return V[0] if shape == () else V


def numpy_get(A, idx):
    try: return A[idx], None
    except (IndexError, ValueError, TypeError) as e: return None, e


def check_get(w, a, A, idx, A0):
    expect, np_exc = numpy_get(A, idx)
    r, sp_exc = outcome(lambda: a[idx])
    if np_exc is not None:
        w.ensure('NumPy rejects the index => sparse rejects it', sp_exc is not None)
        w.canary('canary: accepted', False)
        return
    w.ensure('NumPy accepts the index => sparse accepts it', sp_exc is None, exc=repr(sp_exc))
    if sp_exc is not None:
        w.canary('canary: accepted', False)
        return
    got = dimg(r)
    w.ensure('value read = NumPy value', same_img(w, got, expect), shapes=f'{np.shape(got)} vs {np.shape(expect)}')
    w.ensure('reading leaves the array unchanged', same(w, image(a), A0))
    c = first_plus_one(w, got, expect)
    w.canary('canary: read differs' if c is not None else 'canary: nothing read', c if c is not None else False)


def check_set(w, a, A, idx, v, V):
    E = A.copy()
    np_exc = None
    try: E[idx] = V
    except (IndexError, ValueError, TypeError) as e: np_exc = e
    _, sp_exc = outcome(lambda: a.__setitem__(idx, v))
    if np_exc is not None:
        w.ensure('NumPy rejects the assignment => sparse rejects it', sp_exc is not None)
        w.ensure('rejected assignment leaves the array unchanged', same(w, image(a), A))
        w.canary('canary: accepted', False)
        return None
    w.ensure('NumPy accepts the assignment => sparse accepts it', sp_exc is None, exc=repr(sp_exc))
    if sp_exc is not None:
        w.canary('canary: accepted', False)
        return None
    ok_rep = rep_ok(w, a)
    w.ensure('rep_ok after write', ok_rep)
    try:
        img = image(a)
    except ANY_EXC as e:          # a stored key outside the size makes the dense image itself unreadable
        w.ensure('dense image after write = NumPy array after the same write (all other entries untouched)', False, exc=repr(e))
        return None
    w.ensure('dense image after write = NumPy array after the same write (all other entries untouched)', same(w, img, E))
    w.canary('canary: write lost', w.eq(img.flat[0], E.flat[0] + 1))
    return E


# =========================================================================== C09/gap_slices
# "element/slice/... get and set": every slice form.  C09/getset uses [0:2], [:], [0:3:2] and [0:1] only.

SLICES = {'[:0]': (None, 0), '[0:0]': (0, 0), '[1:1]': (1, 1), '[2:1]': (2, 1), '[1:]': (1, None), '[:2]': (None, 2), '[0:3]': (0, 3),
          '[0:3:2]': (0, 3, 2), '[1:3:2]': (1, 3, 2), '[::2]': (None, None, 2), '[2:3]': (2, 3), '[:1]': (None, 1),
          # forms whose bounds NumPy normalises (negative = from the end, clipped to the length, negative step)
          '[-2:]': (-2, None), '[:-1]': (None, -1), '[::-1]': (None, None, -1), '[1:10]': (1, 10), '[-5:2]': (-5, 2)}
SLICES_QUICK = ('[:0]', '[2:1]', '[1:]', '[:2]', '[1:3:2]', '[-2:]')
SLICE_FORMS = ['sv[s]', 'sa[:, s]', 'sa[s]', 'sa[s, 1]', 'sa[1, s]', 'sa[s, 0:2]', 'sa[[1, 0], s]', 'sa[[True, False], s]']


def slice_configs(tier):
    out = []
    for sname in SLICES:
        if tier == 'quick' and sname not in SLICES_QUICK: continue
        for form in SLICE_FORMS:
            if tier == 'quick' and form in ('sa[[True, False], s]', 'sa[s, 0:2]'): continue
            for what in ('get', 'set scalar', 'set zero', 'set array'):
                if tier == 'quick' and what == 'set zero' and form not in ('sv[s]', 'sa[:, s]'): continue
                out.append({'name': f'{form} with s = {sname}: {what}', 'slice': sname, 'form': form, 'what': what})
    return out


def _slice_index(form, s):
    return {'sv[s]': s, 'sa[:, s]': (slice(None), s), 'sa[s]': s, 'sa[s, 1]': (s, 1), 'sa[1, s]': (1, s), 'sa[s, 0:2]': (s, slice(0, 2)),
            'sa[[1, 0], s]': ([1, 0], s), 'sa[[True, False], s]': ([True, False], s)}[form]


@group('C09/gap_slices', configs=slice_configs,
       functions=['thermosteam.base.sparse:default_range', 'thermosteam.base.sparse:SparseVector.__getitem__',
                  'thermosteam.base.sparse:SparseVector.__setitem__', 'thermosteam.base.sparse:SparseArray.__getitem__',
                  'thermosteam.base.sparse:SparseArray.__setitem__'])
def gap_slices(w, cfg):
    s = slice(*SLICES[cfg['slice']])
    form = cfg['form']
    if form.startswith('sv'):
        a, A = mk_pat(w, 'a', ['m', 'm', 'm'])
    else:
        a, A = mk_pat(w, 'a', [['n', 'z', 'm'], ['z', 'm', 'n']])
    A0 = A.copy()
    idx = _slice_index(form, s)
    what = cfg['what']
    if what == 'get':
        check_get(w, a, A, idx, A0)
        return
    expect, np_exc = numpy_get(A, idx)
    shape = np.shape(expect) if np_exc is None else ()
    if what == 'set scalar': v = V = w.real('v')
    elif what == 'set zero': v = V = 0.
    else:
        V = leaf_values(w, 'v', shape)
        v = V.copy() if hasattr(V, 'copy') and shape != () else V
    check_set(w, a, A, idx, v, V)


# =========================================================================== C09/gap_views
# Observation channel "through views": NumPy hands out VIEWS for a row A[k], A[k, :], iteration over rows, row slices A[i:j] and
# full slices, and COPIES for fancy / boolean selections.  "in-place operations change only the target": a write through a
# view is a write to the base (and nothing else), a write to a copy changes nothing else; views of read-only arrays are read-only.

VIEW_KINDS = {  # name -> (how to take it from the sparse array, how to take the NumPy view)
    'sa[0]': (lambda a: a[0], lambda A: A[0]),
    'sa[1]': (lambda a: a[1], lambda A: A[1]),
    'sa[1, :]': (lambda a: a[1, :], lambda A: A[1, :]),
    'row 1 from iteration': (lambda a: list(a)[1], lambda A: list(A)[1]),
    'sa[0:1]': (lambda a: a[0:1], lambda A: A[0:1]),
    'sa[1:]': (lambda a: a[1:], lambda A: A[1:]),
    'sa[:]': (lambda a: a[:], lambda A: A[:]),
    'sa[:, :]': (lambda a: a[:, :], lambda A: A[:, :]),
    'sv[:]': (lambda a: a[:], lambda A: A[:]),
}
VIEW_WRITES = ['iadd scalar', 'isub scalar', 'imul scalar', 'imul zero', 'set first', 'set all', 'set all zero', 'iadd array']
COPY_KINDS = {  # results that are not views in thermosteam: a later write must be rejected or (NumPy copies) leave the base alone
    'sv[0:2]': (lambda a: a[0:2], 'view'), 'sa[:, 1]': (lambda a: a[:, 1], 'view'), 'sa[0:1, 1]': (lambda a: a[0:1, 1], 'view'),
    'sa[0, 0:1]': (lambda a: a[0, 0:1], 'view'), 'sv[[0, 2]]': (lambda a: a[[0, 2]], 'copy'), 'sv[[True, False, True]]': (lambda a: a[[True, False, True]], 'copy'),
    'sa[[0, 1], [1, 0]]': (lambda a: a[[0, 1], [1, 0]], 'copy'), 'sa[[0, 1], 1]': (lambda a: a[[0, 1], 1], 'copy'),
    'sa[2-d mask]': (lambda a: a[np.array([[True, False], [True, True]])], 'copy'), 'sv.to_array()': (lambda a: a.to_array(), 'copy'),
    'sa.to_array()': (lambda a: a.to_array(), 'copy'), 'sv.tolist()': (lambda a: a.tolist(), 'copy'), 'sa.tolist()': (lambda a: a.tolist()[0], 'copy'),
    'sa.to_flat_array()': (lambda a: a.to_flat_array(), 'copy'), 'sv.to_flat_array()': (lambda a: a.to_flat_array(), 'copy'), 'sa.value': (lambda a: a.value, 'copy'),
}
FRESH_KINDS = {  # new arrays computed from a (read-only) array: writable, and separate storage
    'copy()': lambda a: a.copy(), '-a': lambda a: -a, 'abs(a)': lambda a: abs(a), 'a + 0': lambda a: a + 0., 'a * 1': lambda a: a * 1.,
    'a - 0': lambda a: a - 0., 'a / 1': lambda a: a / 1., '0 + a': lambda a: 0. + a, 'sparse_array(a, copy=True) / sparse_vector(a, copy=True)':
    lambda a: sp.sparse_array(a, copy=True) if isinstance(a, SparseArray) else sp.sparse_vector(a, copy=True),
    'SparseVector(a) / SparseArray of row copies': lambda a: SparseVector(a) if isinstance(a, SparseVector) else SparseArray([SparseVector(r) for r in a]),
    'a + empty length-1 vector': lambda a: a + SparseVector([0.]), 'a - empty length-1 vector': lambda a: a - SparseVector([0.]),
    'a * length-1 one': lambda a: a * SparseVector([1.]),
}


def view_configs(tier):
    out = []
    for vk in VIEW_KINDS:
        for wr in VIEW_WRITES:
            out.append({'name': f'write through {vk}: {wr}', 'case': 'view', 'view': vk, 'write': wr})
        out.append({'name': f'write to the base is seen through {vk}', 'case': 'base', 'view': vk})
        out.append({'name': f'read-only base: write through {vk} is rejected', 'case': 'ro', 'view': vk})
    for ck in COPY_KINDS:
        out.append({'name': f'write to the result of {ck}', 'case': 'copy', 'view': ck})
    for fk in FRESH_KINDS:
        for base in ('sv', 'sa'):
            out.append({'name': f'{fk} of a read-only {base} is writable and separate', 'case': 'fresh', 'view': fk, 'base': base})
    return out


def _apply_write(w, wr, v, V, c, arr, sparse_side):
    """The same in-place write on the sparse view v / the NumPy view V."""
    t = v if sparse_side else V
    if wr == 'iadd scalar': t += c
    elif wr == 'isub scalar': t -= c
    elif wr == 'imul scalar': t *= c
    elif wr == 'imul zero': t *= 0.
    elif wr == 'set first':
        if np.ndim(V) == 2: t[0, 0] = c
        else: t[0] = c
    elif wr == 'set all': t[:] = c
    elif wr == 'set all zero': t[:] = 0.
    elif wr == 'iadd array': t += arr


@group('C09/gap_views', configs=view_configs,
       functions=['thermosteam.base.sparse:SparseArray.__getitem__', 'thermosteam.base.sparse:SparseArray.__iter__',
                  'thermosteam.base.sparse:SparseVector.__getitem__', 'thermosteam.base.sparse:SparseArray.from_rows',
                  'thermosteam.base.sparse:SparseArray.setflags', 'thermosteam.base.sparse:SparseVector.setflags',
                  'thermosteam.base.sparse:SparseVector.copy', 'thermosteam.base.sparse:SparseArray.copy',
                  'thermosteam.base.sparse:SparseVector.from_dict', 'thermosteam.base.sparse:sparse_array', 'thermosteam.base.sparse:sparse_vector',
                  'thermosteam.base.sparse:SparseVector.to_array', 'thermosteam.base.sparse:SparseArray.to_array',
                  'thermosteam.base.sparse:SparseArray.to_flat_array', 'thermosteam.base.sparse:SparseVector.to_flat_array',
                  'thermosteam.base.sparse:SparseArray.value'])
def gap_views(w, cfg):
    case, vk = cfg['case'], cfg['view']
    is_sv = vk.startswith('sv') or cfg.get('base') == 'sv'
    if is_sv: a, A = mk_pat(w, 'a', ['n', 'm', 'z'])
    else: a, A = mk_pat(w, 'a', [['n', 'm'], ['m', 'z']])
    if not w.symbolic: A = A.astype(float)
    A0 = A.copy()
    c = w.real('c')
    if case in ('view', 'base', 'ro'):
        take, take_np = VIEW_KINDS[vk]
        if case == 'ro':
            a.setflags(0)
            v = take(a)
            exc = None
            try: v += c
            except ValueError as e: exc = e
            w.ensure('a write to a read-only array is rejected (ValueError)', exc is not None)
            exc = None
            try:
                if isinstance(v, SparseArray): v[0, 0] = c
                else: v[0] = c
            except ValueError as e: exc = e
            w.ensure('an item assignment to a read-only array is rejected (ValueError)', exc is not None)
            w.ensure('the read-only array is unchanged', same(w, image(a), A0))
            w.canary('canary: first element changed', w.ne(image(a).flat[0], A0.flat[0]))
            return
        v, V = take(a), take_np(A)
        if case == 'base':
            if is_sv: a[1] = c; A[1] = c
            else: a[1, 0] = c; A[1, 0] = c; a[0] = 0.; A[0] = 0.
            w.ensure('value read through the view = NumPy value read through the view', same(w, image(v), V))
            w.ensure('rep_ok', rep_ok(w, a))
            w.canary('canary: view is stale', w.eq(image(v).flat[-1 if V.size > 1 else 0], np.asarray(V, dtype=object).flat[-1 if V.size > 1 else 0] + 1))
            return
        wr = cfg['write']
        arr = leaf_values(w, 'd', (np.shape(V)[-1],)) if wr == 'iadd array' else None
        _apply_write(w, wr, v, V, c, arr, True)
        _apply_write(w, wr, v, V, c, arr, False)
        w.ensure('the base after a write through the view = the NumPy base after the same write through the NumPy view', same(w, image(a), A))
        w.ensure('the view after the write = the NumPy view', same(w, image(v), V))
        w.ensure('rep_ok(base)', rep_ok(w, a))
        w.canary('canary: base + 1', w.eq(image(a).flat[0], A.flat[0] + 1))
        return
    if case == 'copy':
        take, np_kind = COPY_KINDS[vk]
        r = take(a)
        exc = None
        try:
            if isinstance(r, list): r[0] = c
            else: r.flat[0] = c
        except ValueError as e: exc = e
        if np_kind == 'copy':
            w.ensure('NumPy returns a copy: the write is accepted', exc is None, exc=repr(exc))
        w.ensure('a write to a result that is not a view is rejected or leaves the array unchanged', same(w, image(a), A0))
        w.ensure('rep_ok', rep_ok(w, a))
        w.canary('canary: first element changed', w.ne(image(a).flat[0], A0.flat[0]))
        return
    # fresh
    a.setflags(0)
    r, exc = outcome(lambda: FRESH_KINDS[vk](a))
    w.ensure('NumPy accepts => sparse accepts', exc is None, exc=repr(exc))
    if exc is not None: return
    expect = -A0 if vk == '-a' else np.array([abs(x) for x in A0.flat], dtype=A0.dtype).reshape(A0.shape) if vk == 'abs(a)' else A0
    w.ensure('dense image of the new array = NumPy result', same(w, image(r), expect))
    _, exc = outcome(lambda: r.__iadd__(c))
    w.ensure('an array computed from a read-only array is writable', exc is None, exc=repr(exc))
    _, exc = outcome(lambda: r.__setitem__((0, 0) if isinstance(r, SparseArray) else 0, c))
    w.ensure('an item of an array computed from a read-only array is assignable', exc is None, exc=repr(exc))
    _, exc = outcome(lambda: r.clear())
    w.ensure('an array computed from a read-only array can be cleared', exc is None, exc=repr(exc))
    w.ensure('writes to the new array leave the read-only array unchanged', same(w, image(a), A0))
    w.ensure('rep_ok', w.And(rep_ok(w, a), rep_ok(w, r)))
    w.canary('canary: first element changed', w.ne(image(a).flat[0], A0.flat[0]))


# =========================================================================== C09/gap_setitem_values
# "element/slice/fancy/boolean ... set" with every kind of VALUE (C09/getset assigns a scalar, 0 or an ndarray of the exact shape):
# sparse objects, lists, tuples, length-1 operands (broadcast), int/bool scalars and arrays; the value object is not changed by
# the assignment and stays separate storage (a later change of the value does not reach the target).

SV_SET_IDX = {':': slice(None), '0:2': slice(0, 2), '[2, 0]': [2, 0], 'mask': [True, False, True], '1': 1, '0:3:2': slice(0, 3, 2),
              '[]': [], '0:0': slice(0, 0), 'ndarray[1]': np.array([1])}
SA_SET_IDX = {':': slice(None), '0': 0, '0, :': (0, slice(None)), '[1, 0]': [1, 0], ':, 1': (slice(None), 1), '[0, 1], [1, 0]': ([0, 1], [1, 0]),
              '2-d mask': np.array([[True, False, True], [False, True, True]]), ':, :': (slice(None), slice(None)), ':, 0:2': (slice(None), slice(0, 2)),
              '1, 0:2': (1, slice(0, 2)), '[True, False]': [True, False], '[True, True]': [True, True], ':, [0, 2]': (slice(None), [0, 2]),
              '[0, 1], 1': ([0, 1], 1), '0:1': slice(0, 1), '0:1, 1': (slice(0, 1), 1), '[1, 0], 0:2': ([1, 0], slice(0, 2)),
              '[True, True], 0:2': ([True, True], slice(0, 2)), '[True, True], :': ([True, True], slice(None)), '1, [0, 2]': (1, [0, 2]),
              '1, 1': (1, 1), ':, column mask': (slice(None), [True, False, True])}
SET_QUICK_IDX = {':', '0:2', 'mask', '1', '0', '[1, 0]', ':, 1', '[0, 1], [1, 0]', '[True, True], 0:2', '[True, True], :'}
KINDS_0D = ['int', 'True', 'False', 'zero int', 'np.float64 leaf']
KINDS_1D = ['list', 'tuple', 'SparseVector', 'SparseLogicalVector', 'one-row SparseArray', 'one-row ndarray', 'int', 'True', '[v]', '[[v]]',
            'length-1 SparseVector', 'int ndarray', 'bool ndarray', 'ndarray', 'scalar']
KINDS_2D = ['list of lists', 'SparseArray', 'row SparseVector', 'row list', 'row ndarray', 'list of SparseVectors', 'one-row SparseArray',
            'one-row ndarray', 'int', '[v]', '[[v]]', 'length-1 SparseVector', 'ndarray', 'scalar']
NUMPY_ODD = {'[[v]]', 'one-row SparseArray', 'one-row ndarray'}     # NumPy refuses 2-d values for boolean-mask assignment whatever their shape


def setval_configs(tier):
    out = []
    for base, IDX in (('sv', SV_SET_IDX), ('sa', SA_SET_IDX)):
        A = np.zeros(3) if base == 'sv' else np.zeros((2, 3))
        for iname, idx in IDX.items():
            if tier == 'quick' and iname not in SET_QUICK_IDX: continue
            shape = np.shape(A[idx])
            kinds = KINDS_0D if shape == () else KINDS_1D if len(shape) == 1 else KINDS_2D
            for k in kinds:
                if 'mask' in iname and k in NUMPY_ODD: continue
                if tier == 'quick' and k in ('ndarray', 'scalar', 'tuple', 'int ndarray', 'bool ndarray', '[[v]]', 'one-row ndarray', 'row ndarray', 'row list'): continue
                if 0 in shape and k in ('SparseVector', 'SparseLogicalVector', 'SparseArray', 'one-row SparseArray', 'one-row ndarray', 'row SparseVector',
                                        'row list', 'row ndarray', 'list of SparseVectors'): continue
                out.append({'name': f'{base}[{iname}] = {k}', 'base': base, 'index': iname, 'kind': k, 'shape': list(shape)})
    return out


def _value(w, kind, shape):
    """(value handed to __setitem__, NumPy value, sparse source objects to watch)."""
    n = int(np.prod(shape)) if shape != () else 1
    pat = np.array([['m', 'n', 'z'][j % 3] for j in range(n)], dtype=object).reshape(shape if shape != () else (1,))
    if kind in ('int', 'zero int'): return (3 if kind == 'int' else 0), (3 if kind == 'int' else 0), []
    if kind in ('True', 'False'): return kind == 'True', kind == 'True', []
    if kind == 'scalar': v = w.real('v'); return v, v, []
    if kind == 'np.float64 leaf':
        v = w.real('v'); return (v if w.symbolic else np.float64(v)), v, []
    if kind in ('[v]', '[[v]]', 'length-1 SparseVector'):
        v = w.real('v')
        V = np.array([v], dtype=object if w.symbolic else float)
        if kind == '[v]': return [v], V, []
        if kind == '[[v]]': return [[v]], V.reshape(1, 1), []
        s = SparseVector([v]); return s, V, [s]
    if kind == 'int ndarray':
        V = (np.arange(n) % 3).reshape(shape); return V.copy(), V, []
    if kind == 'bool ndarray':
        V = (np.arange(n) % 2 == 0).reshape(shape); return V.copy(), V, []
    if kind == 'SparseLogicalVector':
        V = (np.arange(n) % 2 == 0).reshape(shape); s = SparseLogicalVector(V.tolist()); return s, V, [s]
    _, V = mk_pat(w, 'v', pat.tolist())
    if kind == 'ndarray': return V.copy(), V, []
    if kind in ('list', 'list of lists'): return V.tolist(), V, []
    if kind == 'tuple': return tuple(V.tolist()), V, []
    if kind == 'SparseVector': s = SparseVector(V.tolist()); return s, V, [s]
    if kind == 'SparseArray': s = SparseArray(V.tolist()); return s, V, [s]
    if kind == 'list of SparseVectors': ss = [SparseVector(r.tolist()) for r in V]; return ss, V, ss
    if kind in ('one-row SparseArray', 'one-row ndarray'):
        R = V[:1] if V.ndim == 2 else V[None, :]
        if kind == 'one-row ndarray': return R.copy(), R, []
        s = SparseArray(R.tolist()); return s, R, [s]
    R = V[0]
    if kind == 'row ndarray': return R.copy(), R, []
    if kind == 'row list': return R.tolist(), R, []
    if kind == 'row SparseVector': s = SparseVector(R.tolist()); return s, R, [s]
    raise ValueError(kind)


@group('C09/gap_setitem_values', configs=setval_configs,
       functions=['thermosteam.base.sparse:SparseVector.__setitem__', 'thermosteam.base.sparse:SparseArray.__setitem__',
                  'thermosteam.base.sparse:reduce_ndim', 'thermosteam.base.sparse:get_array_properties'])
def gap_setitem_values(w, cfg):
    if cfg['base'] == 'sv':
        a, A = mk_pat(w, 'a', ['n', 'm', 'z']); idx = SV_SET_IDX[cfg['index']]
    else:
        a, A = mk_pat(w, 'a', [['n', 'z', 'm'], ['z', 'm', 'n']]); idx = SA_SET_IDX[cfg['index']]
    v, V, watch = _value(w, cfg['kind'], tuple(cfg['shape']))
    before = [dimg(s).copy() for s in watch]
    E = check_set(w, a, A, idx, v, V)
    if E is None or not watch:
        return
    w.ensure('the value object is unchanged by the assignment', w.And(*[same(w, dimg(s), b) for s, b in zip(watch, before)]))
    for s in watch:       # change the value object afterwards: the target keeps what was assigned
        if isinstance(s, SparseLogicalVector): s ^= True
        else: s += 1.; s *= 2.
    w.ensure('a later change of the value object does not reach the target', same(w, image(a), E))
    w.ensure('rep_ok after the later change', rep_ok(w, a))


# =========================================================================== C09/gap_construct
# "construction ... copy and conversion": every constructor / converter form; the dense image of the new object is the NumPy
# array of the same data, stored entries are exactly the non-zero elements, and a constructor that copies gives separate storage.

def _lv(w, n, name='x'):
    """n leaves: first may be zero, second non-zero, third may be zero, ..."""
    vals = [w.real(f'{name}{i}', nonzero=(i % 2 == 1)) for i in range(n)]
    return vals, np.array(vals, dtype=object if w.symbolic else float)


CONSTRUCT = {}


def construct(name, separate=None):
    def deco(f):
        CONSTRUCT[name] = (f, separate)
        return f
    return deco


# each builder returns (new object, expected dense image, source object or None, expected class)
@construct('SparseVector(list)')
def _c(w): v, V = _lv(w, 3); return SparseVector(v), V, None, SparseVector
@construct('SparseVector(tuple)')
def _c(w): v, V = _lv(w, 3); return SparseVector(tuple(v)), V, None, SparseVector
@construct('SparseVector(ndarray)', separate=True)
def _c(w): v, V = _lv(w, 3); src = V.copy(); return SparseVector(src), V, src, SparseVector
@construct('SparseVector(list with an int, a bool and a 0)')
def _c(w): v, V = _lv(w, 1); return SparseVector([v[0], 3, True, 0, False]), np.array([v[0], 3., 1., 0., 0.], dtype=V.dtype), None, SparseVector
@construct('SparseVector(list, size=5)')
def _c(w): v, V = _lv(w, 3); return SparseVector(v, size=5), np.array(v + [0., 0.], dtype=V.dtype), None, SparseVector
@construct('SparseVector(dict, size=4)')
def _c(w): v, V = _lv(w, 2); return SparseVector({2: v[0], 0: v[1], 1: 0, 3: 2}, 4), np.array([v[1], 0., v[0], 2.], dtype=V.dtype), None, SparseVector
@construct('SparseVector(SparseVector)', separate=True)
def _c(w): v, V = _lv(w, 3); src = SparseVector(v); return SparseVector(src), V, src, SparseVector
@construct('SparseVector(SparseVector, size=4)', separate=True)
def _c(w): v, V = _lv(w, 3); src = SparseVector(v); return SparseVector(src, size=4), np.array(v + [0.], dtype=V.dtype), src, SparseVector
@construct('SparseVector(None, size=3)')
def _c(w): w.real('x0'); return SparseVector(None, 3), np.zeros(3, dtype=object if w.symbolic else float), None, SparseVector
@construct('SparseVector(size=2)')
def _c(w): w.real('x0'); return SparseVector(size=2), np.zeros(2, dtype=object if w.symbolic else float), None, SparseVector
@construct('SparseVector.from_size(3)')
def _c(w): w.real('x0'); return SparseVector.from_size(3), np.zeros(3, dtype=object if w.symbolic else float), None, SparseVector
@construct('SparseVector.from_dict(rep_ok dict, 3)')
def _c(w): x = w.real('x0', nonzero=True); return SparseVector.from_dict({1: x}, 3), np.array([0., x, 0.], dtype=object if w.symbolic else float), None, SparseVector
@construct('sparse_vector(list)')
def _c(w): v, V = _lv(w, 3); return sp.sparse_vector(v), V, None, SparseVector
@construct('sparse_vector(list, size=4)')
def _c(w): v, V = _lv(w, 3); return sp.sparse_vector(v, size=4), np.array(v + [0.], dtype=V.dtype), None, SparseVector
@construct('sparse_vector(SparseVector) is the object itself')
def _c(w): v, V = _lv(w, 3); src = SparseVector(v); r = sp.sparse_vector(src); return r, V, None, (SparseVector if r is src else type(None))
@construct('sparse_vector(SparseVector, copy=True)', separate=True)
def _c(w): v, V = _lv(w, 3); src = SparseVector(v); return sp.sparse_vector(src, copy=True), V, src, SparseVector
@construct('sparse(list)')
def _c(w): v, V = _lv(w, 3); return sparse_fn(v), V, None, SparseVector
@construct('sparse(tuple)')
def _c(w): v, V = _lv(w, 2); return sparse_fn(tuple(v)), V, None, SparseVector
@construct('sparse(1-d ndarray)', separate=True)
def _c(w): v, V = _lv(w, 3); src = V.copy(); return sparse_fn(src), V, src, SparseVector
@construct('sparse(list of lists)')
def _c(w): v, V = _lv(w, 4); return sparse_fn([v[:2], v[2:]]), V.reshape(2, 2), None, SparseArray
@construct('sparse(2-d ndarray)', separate=True)
def _c(w): v, V = _lv(w, 4); src = V.reshape(2, 2).copy(); return sparse_fn(src), V.reshape(2, 2), src, SparseArray
@construct('sparse(list of dicts, vector_size=3)')
def _c(w):
    v, V = _lv(w, 3)
    return sparse_fn([{1: v[0], 2: v[1]}, {0: v[2], 1: 0}], vector_size=3), np.array([[0., v[0], v[1]], [v[2], 0., 0.]], dtype=V.dtype), None, SparseArray
@construct('sparse(list of lists, vector_size=3)')
def _c(w): v, V = _lv(w, 4); return sparse_fn([v[:2], v[2:]], vector_size=3), np.array([v[:2] + [0.], v[2:] + [0.]], dtype=V.dtype), None, SparseArray
@construct('sparse(SparseVector) is the object itself')
def _c(w): v, V = _lv(w, 3); src = SparseVector(v); r = sparse_fn(src); return r, V, None, (SparseVector if r is src else type(None))
@construct('sparse(SparseArray) is the object itself')
def _c(w): v, V = _lv(w, 4); src = SparseArray([v[:2], v[2:]]); r = sparse_fn(src); return r, V.reshape(2, 2), None, (SparseArray if r is src else type(None))
@construct('sparse_array(SparseArray) is the object itself')
def _c(w): v, V = _lv(w, 4); src = SparseArray([v[:2], v[2:]]); r = sp.sparse_array(src); return r, V.reshape(2, 2), None, (SparseArray if r is src else type(None))
@construct('sparse_array(SparseArray, copy=True)', separate=True)
def _c(w): v, V = _lv(w, 4); src = SparseArray([v[:2], v[2:]]); return sp.sparse_array(src, copy=True), V.reshape(2, 2), src, SparseArray
@construct('sparse_array(list of lists)')
def _c(w): v, V = _lv(w, 4); return sp.sparse_array([v[:2], v[2:]]), V.reshape(2, 2), None, SparseArray
@construct('sparse_array(list of lists, vector_size=3)')
def _c(w): v, V = _lv(w, 4); return sp.sparse_array([v[:2], v[2:]], vector_size=3), np.array([v[:2] + [0.], v[2:] + [0.]], dtype=V.dtype), None, SparseArray
@construct('SparseArray(list of lists)')
def _c(w): v, V = _lv(w, 4); return SparseArray([v[:2], v[2:]]), V.reshape(2, 2), None, SparseArray
@construct('SparseArray(2-d ndarray)', separate=True)
def _c(w): v, V = _lv(w, 4); src = V.reshape(2, 2).copy(); return SparseArray(src), V.reshape(2, 2), src, SparseArray
@construct('SparseArray(list of a list, a tuple, an ndarray)')
def _c(w): v, V = _lv(w, 6); return SparseArray([v[:2], tuple(v[2:4]), V[4:].copy()]), V.reshape(3, 2), None, SparseArray
@construct('SparseArray.from_shape((2, 3))')
def _c(w): w.real('x0'); return SparseArray.from_shape((2, 3)), np.zeros((2, 3), dtype=object if w.symbolic else float), None, SparseArray
@construct('SparseArray.from_rows(list of SparseVectors)')
def _c(w): v, V = _lv(w, 4); return SparseArray.from_rows([SparseVector(v[:2]), SparseVector(v[2:])]), V.reshape(2, 2), None, SparseArray
@construct('SparseArray.copy()', separate=True)
def _c(w): v, V = _lv(w, 4); src = SparseArray([v[:2], v[2:]]); return src.copy(), V.reshape(2, 2), src, SparseArray
@construct('SparseVector.copy()', separate=True)
def _c(w): v, V = _lv(w, 3); src = SparseVector(v); return src.copy(), V, src, SparseVector
@construct('SparseArray one row .copy()', separate=True)
def _c(w): v, V = _lv(w, 4); src = SparseArray([v[:2], v[2:]]); return src[1].copy(), V[2:], src, SparseVector
del _c


def construct_configs(tier):
    return [{'name': n, 'case': n} for n in CONSTRUCT]


@group('C09/gap_construct', configs=construct_configs,
       functions=['thermosteam.base.sparse:SparseVector.__init__', 'thermosteam.base.sparse:SparseVector.from_dict', 'thermosteam.base.sparse:SparseVector.from_size',
                  'thermosteam.base.sparse:sparse_vector', 'thermosteam.base.sparse:sparse_array', 'thermosteam.base.sparse:sparse',
                  'thermosteam.base.sparse:SparseArray.__init__', 'thermosteam.base.sparse:SparseArray.from_shape', 'thermosteam.base.sparse:SparseArray.from_rows',
                  'thermosteam.base.sparse:SparseArray.copy', 'thermosteam.base.sparse:SparseVector.copy', 'thermosteam.base.sparse:get_ndim'])
def gap_construct(w, cfg):
    f, separate = CONSTRUCT[cfg['case']]
    (r, expect, src, cls), exc = outcome(lambda: f(w))
    w.ensure('construction from valid data is accepted', exc is None, exc=repr(exc))
    if exc is not None: return
    w.ensure('class of the new object', r.__class__ is cls, got=type(r).__name__)
    if r.__class__ is not cls: return
    w.ensure('shape = NumPy shape', tuple(r.shape) == tuple(np.shape(expect)) and r.size == int(np.size(expect)) and len(r) == len(expect), got=str(r.shape))
    w.ensure('dense image = NumPy array of the same data', same(w, image(r), expect))
    w.ensure('rep_ok (stored entries are exactly the non-zero elements, inside the size)', rep_ok(w, r))
    rows = r.rows if isinstance(r, SparseArray) else [r]
    w.ensure('the new object is writable', all(not x.read_only for x in rows))
    if separate:
        S0 = dimg(src).copy()
        c = w.real('c', nonzero=True)
        r += c; r *= 2.
        if isinstance(r, SparseArray): r[0, 0] = c
        else: r[0] = c
        w.ensure('writes to the copy leave the source unchanged', same(w, dimg(src), S0))
        R1 = image(r).copy()
        if isinstance(src, SPARSE): src += 1.; src.clear()
        else: src += 1.; src[...] = 0.
        w.ensure('writes to the source leave the copy unchanged', same(w, image(r), R1))
        w.ensure('rep_ok after the writes', rep_ok_x(w, r))
    w.canary('canary: first element + 1', w.eq(image(r).flat[0], expect.flat[0] + 1))


# =========================================================================== C09/gap_queries
# Observation channels (".dct / .set contents; .size; to_array()") and conversions that no group reads: the nonzero_* / positive_* /
# negative_* families, sum_of, sparse_equal, flat-array conversion, scalar conversion, len/shape/size, clear, copy_like.
# Each is compared with the NumPy expression on the dense image.  The arrays are queried after a write that makes the
# insertion order of the stored entries differ from the index order (history: a[0] is assigned last).

def _q_base(w, kind):
    if kind == 'sv':
        a, A = mk_pat(w, 'a', ['z', 'm', 'n'])
        x = w.real('a_first'); a[0] = x; A[0] = x
    else:
        a, A = mk_pat(w, 'a', [['z', 'n', 'z'], ['m', 'z', 'n']])
        x = w.real('a_first'); a[0, 0] = x; A[0, 0] = x
        y = w.real('a_mid'); a[1, 1] = y; A[1, 1] = y
    return a, A


def _truth(w, A, f):
    """Concrete boolean array f(x) for every element (one decision per element, as NumPy does on object arrays)."""
    return np.array([bool(f(x)) for x in A.flat], dtype=bool).reshape(A.shape)


def _pairs(t):
    return sorted(zip(*[list(map(int, x)) for x in t]))


QUERIES = ['nonzero_index', 'nonzero_keys/values/items', 'positive_index', 'negative_index', 'negative_keys/rows + has_negatives', 'nonzero_rows',
           'remove_negatives', 'sum_of int', 'sum_of list', 'sum_of axis=1', 'sparse_equal', 'shares_data_with', 'to_flat_array', 'to_flat_array(buffer)',
           'from_flat_array', 'value/astype', 'len/shape/size', 'scalar conversion', 'iteration/tolist', 'clear', 'copy_like', 'nonzero_items function', 'empty array']


def query_configs(tier):
    return [{'name': f'{k}: {q}', 'kind': k, 'q': q} for k in ('sv', 'sa') for q in QUERIES if not (k == 'sv' and q in ('nonzero_rows', 'sum_of axis=1'))]


@group('C09/gap_queries', configs=query_configs,
       functions=['thermosteam.base.sparse:SparseVector.nonzero_index', 'thermosteam.base.sparse:SparseArray.nonzero_index',
                  'thermosteam.base.sparse:SparseVector.nonzero_keys/nonzero_values/nonzero_items', 'thermosteam.base.sparse:SparseArray.nonzero_keys/nonzero_values/nonzero_items/nonzero_rows',
                  'thermosteam.base.sparse:SparseVector.positive_index/negative_index/negative_keys/has_negatives',
                  'thermosteam.base.sparse:SparseArray.positive_index/negative_index/negative_keys/negative_rows/has_negatives',
                  'thermosteam.base.sparse:SparseArray.remove_negatives', 'thermosteam.base.sparse:SparseVector.sum_of', 'thermosteam.base.sparse:SparseArray.sum_of',
                  'thermosteam.base.sparse:SparseVector.sparse_equal', 'thermosteam.base.sparse:SparseArray.sparse_equal',
                  'thermosteam.base.sparse:SparseVector.shares_data_with', 'thermosteam.base.sparse:SparseArray.shares_data_with',
                  'thermosteam.base.sparse:SparseVector.to_flat_array/from_flat_array', 'thermosteam.base.sparse:SparseArray.to_flat_array/from_flat_array',
                  'thermosteam.base.sparse:SparseArray.value/astype', 'thermosteam.base.sparse:SparseArray.__len__/shape/size/vector_size',
                  'thermosteam.base.sparse:SparseVector.__len__/shape/vector_size', 'thermosteam.base.sparse:SparseArray.__float__/__int__/__bool__',
                  'thermosteam.base.sparse:SparseArray.__iter__/tolist', 'thermosteam.base.sparse:SparseArray.clear', 'thermosteam.base.sparse:SparseArray.copy_like',
                  'thermosteam.base.sparse:nonzero_items'])
def gap_queries(w, cfg):
    kind, q = cfg['kind'], cfg['q']
    a, A = _q_base(w, kind)
    A0 = A.copy()
    is_sa = kind == 'sa'
    nz = _truth(w, A, lambda x: x != 0)
    canary = None
    if q == 'nonzero_index':
        r = a.nonzero_index(); r2 = a.nonzero()
        if is_sa:
            w.ensure('nonzero positions = np.nonzero of the dense image', _pairs(r) == _pairs(np.nonzero(nz)) and _pairs(r2) == _pairs(r))
        else:
            w.ensure('nonzero positions = np.nonzero of the dense image', [list(x) for x in r] == [list(x) for x in np.nonzero(nz)] and list(r2[0]) == list(r[0]))
    elif q == 'nonzero_keys/values/items':
        cols = sorted(set(int(j) for j in np.nonzero(nz)[-1]))
        w.ensure('nonzero keys = columns holding a non-zero element', sorted(a.nonzero_keys()) == cols)
        items = list(a.nonzero_items())
        w.ensure('nonzero items are the non-zero elements, each once', w.And(len(items) == int(nz.sum()), *[w.eq(v, A[k]) for k, v in items],
                 all(bool(nz[k]) for k, v in items), len({k for k, v in items}) == len(items)))
        vals = list(a.nonzero_values())
        w.ensure('nonzero values are the values of the non-zero elements', w.And(len(vals) == len(items), *[w.eq(x, v) for x, (k, v) in zip(vals, items)]))
        canary = w.eq(vals[0], A[items[0][0]] + 1) if vals else None
    elif q in ('positive_index', 'negative_index'):
        t = _truth(w, A, (lambda x: x > 0) if q == 'positive_index' else (lambda x: x < 0))
        r = getattr(a, q)()
        w.ensure(f'{q} = np.nonzero(image {">" if q[0] == "p" else "<"} 0)', _pairs(r) == _pairs(np.nonzero(t)))
    elif q == 'negative_keys/rows + has_negatives':
        t = _truth(w, A, lambda x: x < 0)
        w.ensure('negative keys = columns with a negative element', sorted(a.negative_keys()) == sorted(set(int(j) for j in np.nonzero(t)[-1])))
        if is_sa: w.ensure('negative rows = rows with a negative element', sorted(a.negative_rows()) == sorted(set(int(i) for i in np.nonzero(t)[0])))
        w.ensure('has_negatives = any(image < 0)', bool(a.has_negatives()) == bool(t.any()))
    elif q == 'nonzero_rows':
        w.ensure('nonzero rows = rows with a non-zero element', sorted(a.nonzero_rows()) == sorted(set(int(i) for i in np.nonzero(nz)[0])))
    elif q == 'remove_negatives':
        t = _truth(w, A, lambda x: x < 0)
        E = A.copy(); E[t] = 0.
        a.remove_negatives()
        w.ensure('after remove_negatives: dense image = image with negative elements set to 0', same(w, image(a), E))
        w.ensure('rep_ok', rep_ok(w, a))
        canary = w.eq(image(a).flat[-1], E.flat[-1] + 1)
    elif q == 'sum_of int':
        r = a.sum_of(2)
        expect = A[:, 2].sum() if is_sa else A[2]
        w.ensure('sum_of(column) = sum of that column of the dense image', w.eq(r, expect)); canary = w.eq(r, expect + 1)
    elif q == 'sum_of list':
        for nm, idx in (('list', [0, 2]), ('tuple', (2, 1)), ('ndarray', np.array([0, 1, 2])), ('empty list', [])):
            if is_sa and nm == 'tuple': continue          # a tuple is a 2-d position for a SparseArray
            r = a.sum_of(idx)
            expect = A[:, list(idx)].sum(axis=0) if is_sa else (A[list(idx)].sum() if len(idx) else 0.)
            w.ensure(f'sum_of({nm}) = sum over the dense image', same_img(w, np.asarray(r, dtype=object), np.asarray(expect, dtype=object)) if is_sa else w.eq(r, expect))
    elif q == 'sum_of axis=1':
        r = a.sum_of([0, 2], axis=1); expect = A[:, [0, 2]].sum(axis=1)
        w.ensure('sum_of(list, axis=1) = row sums over those columns', same(w, r, expect))
        r = a.sum_of(1, axis=1); expect = A[:, 1]
        w.ensure('sum_of(column, axis=1) = that column', same(w, r, expect))
        exc = outcome(lambda: a.sum_of(1, axis=2))[1]
        w.ensure('axis out of range is rejected', exc is not None)
    elif q == 'sparse_equal':
        w.ensure('equal to an equal copy', bool(a.sparse_equal(a.copy())) is True)
        w.ensure('equal to the dense image', bool(a.sparse_equal(A.copy() if not w.symbolic else A.tolist())) is True)
        b = a.copy(); x = w.real('x', nonzero=True)
        pos = (1, 1) if is_sa else 1
        b[pos] = b[pos] + x
        w.ensure('not equal to a copy with one element changed', bool(a.sparse_equal(b)) is False)
        w.ensure('operands unchanged', same(w, image(a), A0))
    elif q == 'shares_data_with':
        b = a.copy()
        w.ensure('an array shares data with itself and not with a copy', bool(a.shares_data_with(a)) and not a.shares_data_with(b) and not b.shares_data_with(a))
        if is_sa:
            w.ensure('an array shares data with its rows and row selections', bool(a.shares_data_with(a[1])) and bool(a[1].shares_data_with(a))
                     and bool(a.shares_data_with(a[[1]])) and not a.shares_data_with(b[1]) and not b[0].shares_data_with(a))
    elif q in ('to_flat_array', 'to_flat_array(buffer)'):
        if q == 'to_flat_array': r = a.to_flat_array()
        else:
            buf = np.array([7.] * A.size, dtype=object if w.symbolic else float)
            r = a.to_flat_array(buf)
            w.ensure('the given buffer is filled and returned', r is buf)
        w.ensure('flat array = flattened dense image', same(w, r, A.flatten())); canary = w.eq(r[0], A.flat[0] + 1)
        w.ensure('the array is unchanged', same(w, image(a), A0))
    elif q == 'from_flat_array':
        V = leaf_values(w, 'v', (A.size,))
        a.from_flat_array(V.copy())
        w.ensure('after from_flat_array: dense image = the flat array reshaped', same(w, image(a), V.reshape(A.shape)))
        w.ensure('rep_ok', rep_ok(w, a)); canary = w.eq(image(a).flat[0], V[0] + 1)
    elif q == 'value/astype':
        w.ensure('.value = dense image', same(w, a.value, A))
        w.ensure('astype(float) = dense image', same(w, a.astype(float), A))
        w.ensure('to_array(dtype=bool) = image != 0', bool(np.array_equal(a.to_array(dtype=bool), nz)))
        w.ensure('the array is unchanged', same(w, image(a), A0)); canary = w.eq(np.asarray(a.value, dtype=object).flat[0], A.flat[0] + 1)
    elif q == 'len/shape/size':
        w.ensure('len, shape, size, ndim, vector_size = NumPy', len(a) == len(A) and tuple(a.shape) == A.shape and a.size == A.size and a.ndim == A.ndim
                 and a.vector_size == A.shape[-1])
    elif q == 'scalar conversion':
        x = w.real('x')
        one = SparseArray([[x]]) if is_sa else SparseVector([x])
        got = one.__float__() if w.symbolic else float(one)
        w.ensure('float(array with one element) = the element', w.eq(got, x)); canary = w.eq(got, x + 1)
        w.ensure('bool(array with one element) = element != 0', bool(one) == bool(x != 0))
        if not w.symbolic: w.ensure('int(array with one element) = int(element)', int(one) == int(x))
        w.ensure('float / bool / int of an array with several elements is rejected',
                 all(outcome(lambda f=f: f(a))[1] is not None for f in (lambda z: z.__float__(), bool, lambda z: z.__int__())))
    elif q == 'iteration/tolist':
        if is_sa:
            rows = list(a)
            w.ensure('iteration yields the rows', w.And(len(rows) == 2, *[same(w, image(r), A[i]) for i, r in enumerate(rows)]))
            w.ensure('tolist = NumPy tolist', w.And(same(w, np.array(a.tolist(), dtype=A.dtype), A), same(w, np.array(a.to_list(), dtype=A.dtype), A)))
        else:
            w.ensure('iteration yields the elements', same(w, np.array(list(a), dtype=A.dtype), A))
            w.ensure('tolist = NumPy tolist', w.And(same(w, np.array(a.tolist(), dtype=A.dtype), A), same(w, np.array(a.to_list(), dtype=A.dtype), A)))
        w.ensure('the array is unchanged', same(w, image(a), A0))
    elif q == 'clear':
        b = a.copy(); a.clear()
        w.ensure('after clear: all elements are 0, shape kept', w.And(same(w, image(a), np.zeros(A.shape, dtype=A.dtype)), tuple(a.shape) == A.shape))
        w.ensure('rep_ok', rep_ok(w, a)); w.ensure('a copy taken before is unchanged', same(w, image(b), A0))
        canary = w.eq(image(b).flat[0], A0.flat[0] + 1)
    elif q == 'copy_like':
        b, B = mk_pat(w, 'b', ['m', 'z', 'n'] if not is_sa else [['m', 'z', 'n'], ['z', 'n', 'z']])
        a.copy_like(b)
        w.ensure('after copy_like: dense image = dense image of the other array', same(w, image(a), B))
        w.ensure('rep_ok', rep_ok(w, a)); w.ensure('the other array is unchanged', same(w, image(b), B))
        b += 1.; b.clear()
        w.ensure('a later change of the other array does not reach the target', same(w, image(a), B)); canary = w.eq(image(a).flat[0], B.flat[0] + 1)
    elif q == 'nonzero_items function':
        items = list(sp.nonzero_items(a))
        w.ensure('nonzero_items(sparse) are the non-zero elements, each once', w.And(len(items) == int(nz.sum()), *[w.eq(v, A[k]) for k, v in items],
                 all(bool(nz[k]) for k, v in items), len({k for k, v in items}) == len(items)))
        ditems = sp.nonzero_items(A.copy())
        w.ensure('nonzero_items(ndarray) are the non-zero elements of the flattened array', w.And([k for k, v in ditems] == [int(k) for k in np.nonzero(nz.flatten())[0]],
                 *[w.eq(v, A.flat[k]) for k, v in ditems]))
    elif q == 'empty array':
        e = SparseVector([]) if not is_sa else SparseArray(np.zeros((2, 0)))
        E = np.zeros(0) if not is_sa else np.zeros((2, 0))
        w.ensure('an array without elements: size, shape, image', w.And(e.size == 0, tuple(e.shape) == E.shape, image(e).size == 0))
        w.ensure('any / all / sum of no elements = NumPy (False, True, 0)', w.And(bool(e.any()) == bool(E.any()), bool(e.all()) == bool(E.all()), w.eq(e.sum(), E.sum())))
        w.ensure('max / min of no elements is rejected like NumPy', w.And(*[outcome(lambda f=f: getattr(e, f)())[1] is not None for f in ('max', 'min')]))
        x = w.real('x')
        r = e + x
        w.ensure('an operation on an array without elements gives an array without elements', w.And(image(r).size == 0, tuple(r.shape) == E.shape))
    else:
        raise ValueError(q)
    if q not in ('remove_negatives', 'from_flat_array', 'clear', 'copy_like'):
        w.ensure('the query leaves the array unchanged', w.And(same(w, image(a), A0), rep_ok(w, a)))
    w.canary('canary', canary if canary is not None else False)


# =========================================================================== C09/gap_mixed_dtype
# "every pairing of operand kinds (scalar, Python list, ndarray 0/1/2-d, SparseVector, SparseLogicalVector, SparseArray)": the
# pairings with one real-valued (symbolic) and one boolean operand.  C09/operators pairs real operands only, C09/logical
# boolean operands only; the conversion branches of the templates (from_dict({i: 1. ...})) are executed by neither.
# NumPy computes with True = 1.0, False = 0.0.

BOOL_OPERANDS = {   # kind -> list of boolean patterns (first one is the quick one)
    'SparseLogicalVector[2]': [[True, False], [False, False], [True, True], [False, True]],
    'SparseLogicalVector[1]': [[True], [False]],
    'bool SparseArray[2, 2]': [[[True, False], [False, True]], [[False, False], [False, False]], [[True, True], [True, True]]],
    'bool SparseArray[1, 2]': [[[False, True]], [[True, True]]],
    'bool ndarray[2]': [[False, True], [True, True]],
    'bool list[2]': [[True, False]],
    'bool ndarray[2, 2]': [[[True, True], [False, True]], [[True, True], [True, True]]],
    'bool scalar': [True, False],
}
REAL_OPERANDS = ['SparseVector[2]', 'SparseVector[1]', 'SparseArray[2, 2]', 'SparseArray[1, 2]', 'ndarray[2]', 'list[2]', 'ndarray[2, 2]', 'scalar']
MIXED_OPS = list(BIN) + list(CMP) + list(IBIN)
MIXED_QUICK_OPS = ('add', 'gt', 'imul')


def _rows_of(kind):
    return 1 if ('[2]' in kind or '[1]' in kind or 'scalar' in kind) else int(kind.split('[')[1].split(',')[0])


def _shape_of(kind):
    if 'scalar' in kind: return ()
    return tuple(int(x) for x in kind.split('[')[1].rstrip(']').split(','))


def _mixed_ok(lk, rk, op):
    """Pairings outside the known findings F-C09-K1a..K4 (NumPy-incompatible broadcasting of length-1 / one-row / 2-d operands)."""
    ls, rs = _shape_of(lk), _shape_of(rk)
    l_sparse = 'Sparse' in lk; r_sparse = 'Sparse' in rk
    if not (l_sparse or r_sparse): return False
    if op in IBIN:
        if not l_sparse or 'bool' in lk or 'Logical' in lk: return False      # in-place on a boolean target is a cast NumPy refuses
        try: out = np.broadcast_shapes(ls, rs)
        except ValueError: return False
        if out != ls: return False                                            # K1a / K1c: the target would have to grow
        if len(ls) == 1 and len(rs) == 2: return False                        # K1b
    if len(ls) == 2 and ls[0] == 1 and len(rs) == 2 and rs[0] == 2 and 'ndarray' in rk: return False      # K4
    if len(ls) == 1 and len(rs) == 2 and rs[0] == 1 and 'ndarray' in rk: return False                     # K2
    return True


def mixed_configs(tier):
    out = []
    for rk in REAL_OPERANDS:
        for bk, pats in BOOL_OPERANDS.items():
            for real_left in (True, False):
                lk, rk2 = (rk, bk) if real_left else (bk, rk)
                for op in MIXED_OPS:
                    if tier == 'quick' and (op not in MIXED_QUICK_OPS or 'list' in lk or 'list' in rk2 or '[1, 2]' in rk): continue
                    if not _mixed_ok(lk, rk2, op): continue
                    if not ('Sparse' in lk): continue          # reflected forms (dense op sparse) are decided by NumPy's dispatch, see C09/reflected_unary
                    for n, pat in enumerate(pats):
                        if tier == 'quick' and n > 0: continue
                        if 'truediv' in op and real_left and not np.all(pat): continue      # divisor must be non-zero where it is used
                        out.append({'name': f'{lk} {op} {rk2} with booleans {pat}', 'real': rk, 'bool': bk, 'pattern': pat, 'real_left': real_left, 'op': op})
    return out


def _mk_bool(kind, pat):
    B = np.array(pat, dtype=bool)
    if kind.startswith('SparseLogicalVector'): return SparseLogicalVector(B.tolist()), B
    if kind.startswith('bool SparseArray'): return SparseArray(B.tolist()), B
    if kind.startswith('bool ndarray'): return B.copy(), B
    if kind.startswith('bool list'): return B.tolist(), B
    return bool(pat), bool(pat)


REAL_PATTERNS = {(): 'm', (1,): ['m'], (2,): ['m', 'n'], (1, 2): [['m', 'n']], (2, 2): [['m', 'n'], ['z', 'm']]}


def _mk_real(w, kind, nonzero):
    shape = _shape_of(kind)
    pat = REAL_PATTERNS[shape]
    if nonzero: pat = np.full(shape, 'n', dtype=object).tolist() if shape else 'n'
    if shape == ():
        v = w.real('x', nonzero=nonzero); return v, v
    obj, X = mk_pat(w, 'x', pat)
    if kind.startswith('ndarray'): return X.copy(), X
    if kind.startswith('list'): return X.tolist(), X
    return obj, X


def _as_real(w, B):
    if isinstance(B, (bool, np.bool_)): return 1. if B else 0.
    return np.array([1. if x else 0. for x in B.flat], dtype=object if w.symbolic else float).reshape(B.shape)


@group('C09/gap_mixed_dtype', configs=mixed_configs,
       functions=['thermosteam.base.sparse:SparseVector.__add__/__sub__/__mul__/__truediv__ (exec templates)',
                  'thermosteam.base.sparse:SparseVector.__eq__/__ne__/__gt__/__lt__/__ge__/__le__ (exec templates)',
                  'thermosteam.base.sparse:SparseVector.__iadd__/__isub__/__imul__/__itruediv__ (exec templates)',
                  'thermosteam.base.sparse:SparseLogicalVector.__add__/__mul__/__truediv__/__sub__ (exec templates)',
                  'thermosteam.base.sparse:SparseLogicalVector.__eq__ ... __le__ with real operands',
                  'thermosteam.base.sparse:SparseArray.__add__ ... __le__, __iadd__ ... __itruediv__ (exec templates)',
                  'thermosteam.base.sparse:SparseVector.from_dict'])
def gap_mixed_dtype(w, cfg):
    op = cfg['op']
    div = 'truediv' in op
    real_left = cfg['real_left']
    rkind = cfg['real']
    x, X = _mk_real(w, rkind, nonzero=(div and not real_left))
    b, B = _mk_bool(cfg['bool'], cfg['pattern'])
    Bf = _as_real(w, B)
    (l, L), (r, R) = ((x, X), (b, Bf)) if real_left else ((b, Bf), (x, X))
    L0 = L.copy() if hasattr(L, 'copy') else L
    r_img0 = dimg(r).copy() if isinstance(r, SPARSE + (np.ndarray,)) else None
    if op in CMP: expect, np_exc = outcome(lambda: np_cmp(op, L, R, w))
    elif op in BIN: expect, np_exc = outcome(lambda: BIN[op](L, R))
    else: expect, np_exc = outcome(lambda: IBIN[op](L.copy(), R))
    f = IBIN.get(op) or CMP.get(op) or BIN[op]
    res, sp_exc = outcome(lambda: f(l, r))
    if np_exc is not None:
        w.ensure('NumPy rejects the shapes => sparse rejects them', sp_exc is not None)
        w.canary('canary: accepted', False)
        return
    w.ensure('NumPy accepts the operands => sparse accepts them', sp_exc is None, exc=repr(sp_exc))
    if sp_exc is not None:
        w.canary('canary: accepted', False)
        return
    if op in CMP:
        w.ensure('dense image = NumPy result', same(w, cmp_image(w, res), expect))
    else:
        w.ensure('dense image = NumPy result', same(w, dimg(res), expect))
        if isinstance(res, SPARSE): w.ensure('rep_ok(result)', rep_ok(w, res))
    if op in IBIN:
        w.ensure('in-place returns the target', res is l)
    else:
        w.ensure('left operand unchanged', same(w, dimg(l) if not real_left else image(l), L0 if real_left else B))
    if r_img0 is not None:
        w.ensure('right operand unchanged', same(w, dimg(r), r_img0))
    if op not in IBIN and isinstance(res, SPARSE):
        # history: the result is separate storage ("in-place operations change only the target")
        keep_l = dimg(l).copy(); keep_r = dimg(r).copy() if r_img0 is not None else None
        if op in CMP: res ^= True
        else: res += 1.; res *= 3.
        conds = [same(w, dimg(l), keep_l)] + ([same(w, dimg(r), keep_r)] if keep_r is not None else [])
        w.ensure('a later in-place change of the result changes neither operand', w.And(*conds))
    c = None if op in CMP else first_plus_one(w, dimg(res), expect)
    w.canary('canary: result + 1' if c is not None else 'canary: sparse raises', c if c is not None else False)


# =========================================================================== C09/gap_history
# "After any sequence of operations the stored entries are exactly the non-zero elements", "all sequences ... applied to the same
# objects", "exact cancellations (a, -a)": two in-place operations in a row on the SAME target; the second one starts from the
# state the first one left (stored entries, their insertion order, the size), then the result is read through every channel.

HIST_OPS = ['iadd scalar', 'isub scalar', 'imul scalar', 'itruediv scalar', 'iadd SparseVector', 'isub SparseVector', 'imul SparseVector',
            'itruediv SparseVector', 'iadd ndarray', 'isub ndarray', 'imul ndarray', 'iadd list', 'iadd length-1 SparseVector', 'imul length-1 SparseVector',
            'iadd negated copy (ndarray)', 'iadd negated copy (SparseVector)', 'isub equal copy (SparseVector)', 'isub equal copy (list)', 'imul zero',
            'set [0] = v', 'set [0] = 0', 'set [:] = array', 'set last = v', 'clear', 'remove_negatives', 'copy_like other']
HIST_FIRST_QUICK = ['iadd negated copy (ndarray)', 'isub equal copy (SparseVector)', 'imul scalar', 'set [0] = 0', 'iadd SparseVector', 'copy_like other']
HIST_SECOND_QUICK = ['iadd scalar', 'imul SparseVector', 'isub ndarray', 'set last = v', 'iadd length-1 SparseVector']


def hist_configs(tier):
    out = []
    for tk in ('SparseVector[2]', 'SparseArray[2, 2]'):
        for o1 in HIST_OPS:
            for o2 in HIST_OPS:
                if tier == 'quick' and not (o1 in HIST_FIRST_QUICK and o2 in HIST_SECOND_QUICK): continue
                if 'copy' in o2 and 'copy_like' not in o2: continue       # cancellation operands are built from the initial values: first step only
                out.append({'name': f'{tk}: {o1}; then {o2}', 'target': tk, 'ops': [o1, o2]})
    return out


def _hist_step(w, t, T, T_init, op, tag):
    """Apply one in-place operation to the sparse target t and to the NumPy array T (returns the new NumPy array)."""
    n = T.shape[-1]
    is_sa = T.ndim == 2
    dt = object if w.symbolic else float
    def vec(name, nonzero=False, pat=None):
        vals = [w.real(f'{tag}{name}{i}', nonzero=nonzero or (pat is not None and pat[i] == 'n')) for i in range(n)]
        return vals, np.array(vals, dtype=dt)
    kind = op.split(' ', 1)[0]
    if op.endswith(' scalar'):
        c = w.real(f'{tag}c', nonzero=(kind == 'itruediv'))
        o, O = c, c
    elif op.endswith('length-1 SparseVector'):
        c = w.real(f'{tag}c'); o, O = SparseVector([c]), np.array([c], dtype=dt)
    elif op.endswith(' SparseVector') and 'copy' not in op:
        v, V = vec('b', nonzero=(kind == 'itruediv'), pat='mn'); o, O = SparseVector(v), V
    elif op.endswith(' ndarray') and 'copy' not in op:
        v, V = vec('d', pat='nm'); o, O = V.copy(), V
    elif op.endswith(' list') and 'copy' not in op:
        v, V = vec('l', pat='mn'); o, O = list(v), V
    elif 'negated copy' in op:
        O = -T_init
        o = O.copy() if 'ndarray' in op else (SparseArray(O.tolist()) if is_sa else SparseVector(O.tolist()))
        kind = 'iadd'
    elif 'equal copy' in op:
        O = T_init.copy()
        o = O.tolist() if 'list' in op else (SparseArray(O.tolist()) if is_sa else SparseVector(O.tolist()))
        kind = 'isub'
    elif op == 'imul zero':
        o, O, kind = 0., 0., 'imul'
    else:
        first = (0, 0) if is_sa else 0
        last = (T.shape[0] - 1, n - 1) if is_sa else n - 1
        if op == 'set [0] = v': v = w.real(f'{tag}v'); t[first] = v; T[first] = v
        elif op == 'set [0] = 0': t[first] = 0.; T[first] = 0.
        elif op == 'set last = v': v = w.real(f'{tag}v'); t[last] = v; T[last] = v
        elif op == 'set [:] = array':
            v, V = vec('s', pat='mn'); t[:] = V.copy(); T[:] = V
        elif op == 'clear': t.clear(); T[...] = 0.
        elif op == 'remove_negatives':
            t.remove_negatives()
            neg = np.array([bool(x < 0) for x in T.flat], dtype=bool).reshape(T.shape); T[neg] = 0.
        elif op == 'copy_like other':
            other, OT = mk_pat(w, f'{tag}o', [['m', 'z'], ['z', 'n']] if is_sa else ['z', 'n'])
            t.copy_like(other); T[...] = OT
        else: raise ValueError(op)
        return T
    r = IBIN[kind](t, o)
    assert r is t
    return IBIN[kind](T, O)


@group('C09/gap_history', configs=hist_configs,
       functions=['thermosteam.base.sparse:SparseVector._iadd_scalar ... _itruediv_array (in-place kernels, second call on the same target)',
                  'thermosteam.base.sparse:SparseArray.__iadd__ ... __itruediv__ (exec templates)', 'thermosteam.base.sparse:SparseVector.__setitem__',
                  'thermosteam.base.sparse:SparseVector.clear', 'thermosteam.base.sparse:SparseVector.remove_negatives', 'thermosteam.base.sparse:SparseVector.copy_like',
                  'thermosteam.base.sparse:SparseVector.any/all/sum after in-place operations', 'thermosteam.base.sparse:SparseVector.nonzero_index'])
def gap_history(w, cfg):
    is_sa = cfg['target'].startswith('SparseArray')
    t, T = mk_pat(w, 'a', [['n', 'z'], ['z', 'm']] if is_sa else ['m', 'n'])
    T_init = T.copy()
    shape0 = tuple(t.shape)
    for k, op in enumerate(cfg['ops']):
        T = _hist_step(w, t, T, T_init, op, f's{k + 1}')
        w.ensure(f'after step {k + 1}: dense image = NumPy array after the same operations', same(w, image(t), T))
        w.ensure(f'after step {k + 1}: rep_ok (stored entries are exactly the non-zero elements, inside the size)', rep_ok_x(w, t))
        w.ensure(f'after step {k + 1}: shape unchanged', tuple(t.shape) == shape0)
    nz = np.array([bool(x != 0) for x in T.flat], dtype=bool).reshape(T.shape)
    w.ensure('any() / all() = NumPy', w.And(bool(t.any()) == bool(nz.any()), bool(t.all()) == bool(nz.all())))
    w.ensure('sum() = NumPy', w.eq(t.sum(), T.sum()))
    w.ensure('(t == 0) = NumPy', same(w, cmp_image(w, t == 0.), np.logical_not(nz)))
    if is_sa:
        w.ensure('nonzero positions = np.nonzero', _pairs(t.nonzero_index()) == _pairs(np.nonzero(nz)))
        w.ensure('any(axis=0) / all(axis=1) = NumPy', w.And(bool(np.array_equal(cmp_image(w, t.any(axis=0)), nz.any(axis=0))),
                                                              bool(np.array_equal(cmp_image(w, t.all(axis=1)), nz.all(axis=1)))))
        w.ensure('sum(axis=0) = NumPy', same(w, image(t.sum(axis=0)), T.sum(axis=0)))
    else:
        w.ensure('nonzero positions = np.nonzero', [int(i) for i in t.nonzero_index()[0]] == [int(i) for i in np.nonzero(nz)[0]])
        w.ensure('iteration / tolist = NumPy', w.And(same(w, np.array(list(t), dtype=T.dtype), T), same(w, np.array(t.tolist(), dtype=T.dtype), T)))
    w.ensure('reading leaves the target unchanged', w.And(same(w, image(t), T), rep_ok_x(w, t)))
    w.canary('canary: first element + 1', w.eq(image(t).flat[0], T.flat[0] + 1))


# =========================================================================== mode B helpers (boolean data has no real-valued leaves)

class Agg:
    """Collects run-time contract evaluations of one configuration; every clause is reported once (first failing input kept)."""
    def __init__(self, w):
        self.w, self.bad, self.n, self.order = w, {}, {}, []

    def check(self, clause, ok, **info):
        if clause not in self.n: self.order.append(clause)
        self.n[clause] = self.n.get(clause, 0) + 1
        if not ok and clause not in self.bad: self.bad[clause] = {k: str(v)[:200] for k, v in info.items()}
        return ok

    def flush(self):
        for c in self.order:
            self.w.ensure(c, c not in self.bad, evaluations=self.n[c], **self.bad.get(c, {}))
        total = sum(self.n.values())
        self.w.note(evaluations=total)
        # vacuity guard of a bounded group: something was evaluated, and the comparison used notices a wrong oracle
        self.w.ensure('canary refuted: clauses were evaluated and a wrong oracle is noticed',
                      total > 0 and not beq(np.array([True, False]), np.array([True, True])) and not beq(np.array([1., 0.]), np.array([1., 0., 0.])))
        self.w.canary('canary', False)


def beq(got, exp):
    """Numerical equality of dense images (booleans count as 1/0), empty selections are equal."""
    got = np.asarray(got); exp = np.asarray(exp)
    if got.size == 0 and exp.size == 0: return True
    if got.shape != exp.shape: return False
    return bool(np.array_equal(got.astype(float), exp.astype(float)))


def bimg(x):
    if isinstance(x, SPARSE): return x.to_array()
    return np.asarray(x)


def brep_ok(x):
    rows = x.rows if isinstance(x, SparseArray) else [x] if isinstance(x, (SparseVector, SparseLogicalVector)) else []
    for r in rows:
        if isinstance(r, SparseVector):
            if not all(v != 0 and 0 <= k < r.size for k, v in r.dct.items()): return False
        elif not all(0 <= k < r.size for k in r.set): return False
    if isinstance(x, SparseArray) and len({r.size for r in x.rows}) > 1: return False
    return True


def bool_patterns(shape):
    n = int(np.prod(shape))
    return [np.array(p, dtype=bool).reshape(shape) for p in itertools.product([False, True], repeat=n)]


def mk_logical(P):
    return SparseLogicalVector(P.tolist()) if P.ndim == 1 else SparseArray(P.tolist())


# =========================================================================== C09/gap_logical_getset
# "element/slice/fancy/boolean get and set" on logical vectors and boolean 2-d arrays: exhaustive over ALL boolean contents.

SLV_IDX = dict(SV_SET_IDX, **{'2': 2, '(1,)': (1,), '[True, True, True]': [True, True, True], '[False, False, False]': [False] * 3,
                              'bool ndarray': np.array([False, True, True]), '[:0]': slice(None, 0), '[1:1]': slice(1, 1), '[2:1]': slice(2, 1), '[1:]': slice(1, None),
                              '[:2]': slice(None, 2), '[1:3:2]': slice(1, 3, 2), '[::2]': slice(None, None, 2), '(0, 1)': (0, 1)})
SAB_IDX = dict(SA_SET_IDX, **{'1': 1, '1, 0': (1, 0), ':0': slice(None, 0), '1:': slice(1, None), ':, 1:': (slice(None), slice(1, None)), ':, :0': (slice(None), slice(None, 0)),
                              '0, ::2': (0, slice(None, None, 2)), '[0, 1], [2, 2]': ([0, 1], [2, 2]), '[1], :': ([1], slice(None)), '[False, True], :': ([False, True], slice(None)),
                              '[False, True], 1:': ([False, True], slice(1, None)), 'ndarray[1, 1]': np.array([1, 1]), '1, [2, 0]': (1, [2, 0]), 'all-False mask': np.zeros((2, 3), bool),
                              '(0, 0, 0)': (0, 0, 0), '[0, 1], 2': ([0, 1], 2), '[1, 1], 0': ([1, 1], 0)})


def lgetset_configs(tier):
    out = []
    for kind, IDX in (('SparseLogicalVector[3]', SLV_IDX), ('bool SparseArray[2, 3]', SAB_IDX)):
        for iname in IDX:
            out.append({'name': f'{kind}[{iname}] get', 'kind': kind, 'index': iname, 'what': 'get'})
            out.append({'name': f'{kind}[{iname}] set', 'kind': kind, 'index': iname, 'what': 'set'})
    return out


def _logical_values(shape):
    """Values to assign to a selection of the given NumPy shape: (label, value handed to sparse, value handed to NumPy)."""
    out = [('True', True, True), ('False', False, False), ('1.0', 1.0, 1.0), ('0', 0, 0), ('np.True_', np.True_, np.True_)]
    if shape == ():
        return out
    n = int(np.prod(shape))
    for start in (0, 1):
        V = ((np.arange(n) + start) % 2 == 0).reshape(shape)
        out.append((f'bool ndarray {V.tolist()}', V.copy(), V))
        out.append((f'bool list {V.tolist()}', V.tolist(), V))
        if n:
            if V.ndim == 1:
                out.append((f'SparseLogicalVector {V.tolist()}', SparseLogicalVector(V.tolist()), V))
                out.append((f'float SparseVector {V.tolist()}', SparseVector((V * 2.5).tolist()), V * 2.5))
            elif V.shape[0] and V.shape[1]:
                out.append((f'bool SparseArray {V.tolist()}', SparseArray(V.tolist()), V))
                out.append((f'row {V[0].tolist()}', V[0].tolist(), V[0]))
    return out


@group('C09/gap_logical_getset', configs=lgetset_configs, mode='B',
       notes='boolean data has no real-valued leaves: exhaustive over all 8 contents of a logical vector of size 3 / all 64 contents of a 2 x 3 boolean array, '
             'the listed index forms, and scalar / array / list / sparse values; NumPy as oracle',
       functions=['thermosteam.base.sparse:SparseLogicalVector.__getitem__', 'thermosteam.base.sparse:SparseLogicalVector.__setitem__',
                  'thermosteam.base.sparse:SparseArray.__getitem__ (bool rows)', 'thermosteam.base.sparse:SparseArray.__setitem__ (bool rows)',
                  'thermosteam.base.sparse:SparseLogicalVector.__init__', 'thermosteam.base.sparse:SparseLogicalVector.to_array', 'thermosteam.base.sparse:default_range'])
def gap_logical_getset(w, cfg):
    g = Agg(w)
    is_vec = cfg['kind'].startswith('SparseLogicalVector')
    idx = (SLV_IDX if is_vec else SAB_IDX)[cfg['index']]
    for P in bool_patterns((3,) if is_vec else (2, 3)):
        a = mk_logical(P)
        g.check('constructor: dense image = the data, class by element type', beq(bimg(a), P) and brep_ok(a)
                and (isinstance(a, SparseLogicalVector) if is_vec else all(isinstance(r, SparseLogicalVector) for r in a.rows)), data=P.tolist())
        expect, np_exc = numpy_get(P, idx)
        if cfg['what'] == 'get':
            r, sp_exc = outcome(lambda: a[idx])
            if np_exc is not None:
                g.check('NumPy rejects the index => sparse rejects it', sp_exc is not None, data=P.tolist())
                continue
            if not g.check('NumPy accepts the index => sparse accepts it', sp_exc is None, data=P.tolist(), exc=repr(sp_exc)): continue
            g.check('value read = NumPy value', beq(bimg(r), expect), data=P.tolist(), got=bimg(r).tolist(), numpy=np.asarray(expect).tolist())
            g.check('reading leaves the array unchanged', beq(bimg(a), P) and brep_ok(a), data=P.tolist())
            continue
        shape = np.shape(expect) if np_exc is None else ()
        for label, v, V in _logical_values(shape):
            a = mk_logical(P)
            E = P.copy(); np_exc2 = None
            try: E[idx] = V
            except (IndexError, ValueError, TypeError) as e: np_exc2 = e
            v0 = bimg(v).copy() if isinstance(v, SPARSE) else None
            _, sp_exc = outcome(lambda: a.__setitem__(idx, v))
            if np_exc2 is not None:
                if np_exc is None and isinstance(np_exc2, TypeError): continue       # NumPy's own restriction on the value's dimensionality, not a shape mismatch
                g.check('NumPy rejects the assignment => sparse rejects it', sp_exc is not None, data=P.tolist(), value=label)
                g.check('rejected assignment leaves the array unchanged', beq(bimg(a), P) and brep_ok(a), data=P.tolist(), value=label)
                continue
            if not g.check('NumPy accepts the assignment => sparse accepts it', sp_exc is None, data=P.tolist(), value=label, exc=repr(sp_exc)): continue
            g.check('rep_ok after write', brep_ok(a), data=P.tolist(), value=label)
            ok = g.check('dense image after write = NumPy array after the same write (all other entries untouched)', brep_ok(a) and beq(bimg(a), E),
                         data=P.tolist(), value=label, got=bimg(a).tolist() if brep_ok(a) else '?', numpy=E.tolist())
            if v0 is not None and ok:
                g.check('the value object is unchanged by the assignment', beq(bimg(v), v0), data=P.tolist(), value=label)
                if isinstance(v, SparseVector): v *= 0.
                else: v ^= True
                g.check('a later change of the value object does not reach the target', beq(bimg(a), E), data=P.tolist(), value=label)
    g.flush()


# =========================================================================== C09/gap_logical_ops
# Logical vectors and boolean 2-d arrays as LEFT operands of every operator the statement lists (+ * / comparisons, logical
# operators, in-place variants, reflected forms, unary operators, reductions with axis/keepdims), exhaustive over all contents.
# Excluded: what NumPy refuses for the element TYPE (bool - bool, in-place results that would have to become float).

LOPS2 = {'add': operator.add, 'mul': operator.mul, 'truediv': operator.truediv, 'and': operator.and_, 'or': operator.or_, 'xor': operator.xor,
         'eq': operator.eq, 'ne': operator.ne, 'gt': operator.gt, 'lt': operator.lt, 'ge': operator.ge, 'le': operator.le,
         'iadd': operator.iadd, 'imul': operator.imul, 'iand': operator.iand, 'ior': operator.ior, 'ixor': operator.ixor}
L_UNARY = ['constructors', 'isub', 'invert', 'neg', 'abs', 'copy', 'tolist/iter/len', 'reflected with a bool scalar', 'any', 'all', 'sum', 'mean', 'max', 'min', 'sum_of/nonzero/sparse_equal']
L_LEFTS = ['SparseLogicalVector[1]', 'SparseLogicalVector[2]', 'SparseLogicalVector[3]', 'bool SparseArray[2, 2]', 'bool SparseArray[1, 2]']


def lops_configs(tier):
    out = []
    for lk in L_LEFTS:
        for op in list(LOPS2) + L_UNARY:
            out.append({'name': f'{lk} {op}', 'left': lk, 'op': op})
    return out


def _logical_rights(lshape, inplace):
    """(label, sparse-side operand factory, NumPy operand) for a left operand of the given shape."""
    out = [('True', lambda: True, True), ('False', lambda: False, False), ('np.True_', lambda: np.True_, np.True_)]
    n = lshape[-1]
    sizes = {n, 1} if inplace or n != 1 else {1, 2}
    for m in sorted(sizes):
        for Q in bool_patterns((m,)):
            out.append((f'SparseLogicalVector {Q.tolist()}', (lambda Q=Q: SparseLogicalVector(Q.tolist())), Q))
            out.append((f'bool ndarray {Q.tolist()}', (lambda Q=Q: Q.copy()), Q))
            if m == n: out.append((f'bool list {Q.tolist()}', (lambda Q=Q: Q.tolist()), Q))
    if len(lshape) == 2:
        for Q in bool_patterns((2, 2)):
            if lshape[0] == 2 or not inplace:
                out.append((f'bool SparseArray {Q.tolist()}', (lambda Q=Q: SparseArray(Q.tolist())), Q))
            if lshape[0] == 2:         # a one-row array with a two-row ndarray is the known finding F-C09-K4
                out.append((f'bool ndarray {Q.tolist()}', (lambda Q=Q: Q.copy()), Q))
        for Q in bool_patterns((1, 2)):
            out.append((f'bool SparseArray {Q.tolist()}', (lambda Q=Q: SparseArray(Q.tolist())), Q))
            if lshape[0] == 1: out.append((f'bool ndarray {Q.tolist()}', (lambda Q=Q: Q.copy()), Q))
    return out


def _flip(x):
    """Change a result in place (every element)."""
    if isinstance(x, SparseVector): x += 1.; x *= 2.
    elif isinstance(x, SparseArray) and x.dtype is float: x += 1.; x *= 2.
    elif isinstance(x, SPARSE): x ^= True
    elif isinstance(x, np.ndarray) and x.flags.writeable and x.size: x[...] = ~x if x.dtype == bool else x + 1


@group('C09/gap_logical_ops', configs=lops_configs, mode='B',
       notes='boolean data has no real-valued leaves: exhaustive over all contents of logical vectors of size 1-3 and boolean arrays 2 x 2 / 1 x 2 as left operand, '
             'all contents of the boolean right operands (scalar, logical vector of equal size / size 1, ndarray, list, boolean SparseArray 2 x 2 / 1 x 2), NumPy as oracle',
       functions=['thermosteam.base.sparse:SparseLogicalVector.__add__/__mul__/__truediv__/__and__/__or__/__xor__ (exec templates)',
                  'thermosteam.base.sparse:SparseLogicalVector._add_sparse/_add_scalar/_add_array ... _or_array (exec templates)',
                  'thermosteam.base.sparse:SparseLogicalVector.__iadd__/__imul__/__iand__/__ior__/__ixor__ (exec templates)',
                  'thermosteam.base.sparse:SparseLogicalVector._iadd_scalar/_iadd_sparse/_iadd_array/_imul_scalar/_imul_sparse/_imul_array/_itruediv_scalar/_itruediv_sparse/_itruediv_array',
                  'thermosteam.base.sparse:SparseLogicalVector._eq_scalar/_eq_array ... _le_scalar/_le_array (exec templates)',
                  'thermosteam.base.sparse:SparseLogicalVector.__gt__/__lt__/__ge__/__le__', 'thermosteam.base.sparse:SparseLogicalVector.__neg__/__abs__/copy/__rtruediv__',
                  'thermosteam.base.sparse:SparseLogicalVector.any/all/sum/mean/max/min', 'thermosteam.base.sparse:SparseLogicalVector.tolist/__iter__/__len__/sum_of/nonzero_index/sparse_equal',
                  'thermosteam.base.sparse:SparseArray (bool rows) __add__ ... __le__, __iadd__/__imul__/__iand__/__ior__/__ixor__, __invert__, __neg__, __abs__, copy',
                  'thermosteam.base.sparse:SparseArray (bool rows) any/all/sum/mean/max/min', 'thermosteam.base.sparse:sum_sparse_vectors (bool)',
                  'thermosteam.base.sparse:SparseArray.__rand__/__ror__/__rxor__/__radd__/__rmul__'])
def gap_logical_ops(w, cfg):
    g = Agg(w)
    lk, op = cfg['left'], cfg['op']
    lshape = _shape_of(lk)
    for P in bool_patterns(lshape):
        if op in LOPS2:
            inplace = op.startswith('i')
            f = LOPS2[op]
            for label, mk, Q in _logical_rights(lshape, inplace):
                if op == 'truediv' and not np.all(Q): continue          # divisor must be non-zero where it is used
                a, b = mk_logical(P), mk()
                expect, np_exc = outcome(lambda: f(P.copy(), Q))
                r, sp_exc = outcome(lambda: f(a, b))
                info = dict(left=P.tolist(), right=label)
                if np_exc is not None:
                    g.check('NumPy rejects the shapes => sparse rejects them', sp_exc is not None, **info)
                    continue
                if not g.check('NumPy accepts the operands => sparse accepts them', sp_exc is None, exc=repr(sp_exc), **info): continue
                ok = g.check('dense image = NumPy result', beq(bimg(r), expect), got=bimg(r).tolist(), numpy=np.asarray(expect).tolist(), **info)
                g.check('rep_ok(result)', brep_ok(r), **info)
                if inplace:
                    g.check('in-place returns the target', r is a, **info)
                else:
                    g.check('left operand unchanged', beq(bimg(a), P) and brep_ok(a), **info)
                if isinstance(b, SPARSE + (np.ndarray,)):
                    g.check('right operand unchanged', beq(bimg(b), Q), **info)
                if ok and isinstance(r, SPARSE):
                    # history: results are separate storage, in-place changes reach only their target
                    if not inplace:
                        _flip(r)
                        g.check('a later in-place change of the result changes neither operand',
                                beq(bimg(a), P) and (not isinstance(b, SPARSE) or beq(bimg(b), Q)), **info)
                        R1 = bimg(r).copy(); _flip(a)
                        if isinstance(b, SPARSE): _flip(b)
                        g.check('a later in-place change of an operand does not change the result', beq(bimg(r), R1), **info)
                    elif isinstance(b, SPARSE):
                        R1 = bimg(r).copy(); _flip(b)
                        g.check('a later in-place change of the right operand does not change the target', beq(bimg(r), R1), **info)
            continue
        a = mk_logical(P)
        info = dict(data=P.tolist())
        if op in ('invert', 'neg', 'abs', 'copy'):
            r, exc = outcome(lambda: {'invert': operator.invert, 'neg': operator.neg, 'abs': abs, 'copy': lambda x: x.copy()}[op](a))
            expect = {'invert': ~P, 'neg': -P.astype(float), 'abs': P, 'copy': P}[op]
            if not g.check('NumPy accepts => sparse accepts', exc is None, exc=repr(exc), **info): continue
            g.check('dense image = NumPy result', beq(bimg(r), expect), got=bimg(r).tolist(), **info)
            g.check('rep_ok(result)', brep_ok(r), **info)
            g.check('operand unchanged', beq(bimg(a), P), **info)
            _flip(r)
            g.check('a later in-place change of the result does not change the operand', beq(bimg(a), P), **info)
            R1 = bimg(r).copy(); _flip(a)
            g.check('a later in-place change of the operand does not change the result', beq(bimg(r), R1), **info)
        elif op == 'constructors':
            n = P.shape[-1]
            true_idx = [set(int(i) for i in np.nonzero(row)[0]) for row in (P if P.ndim == 2 else [P])]
            if P.ndim == 1:
                made = {'SparseLogicalVector(list)': SparseLogicalVector(P.tolist()), 'SparseLogicalVector(ndarray)': SparseLogicalVector(P.copy()),
                        'SparseLogicalVector(set, size)': SparseLogicalVector(set(true_idx[0]), n), 'SparseLogicalVector(SparseLogicalVector)': SparseLogicalVector(a),
                        'SparseLogicalVector(float SparseVector)': SparseLogicalVector(SparseVector((P * 2.5).tolist())),
                        'SparseLogicalVector.from_set': SparseLogicalVector.from_set(set(true_idx[0]), n), 'sparse(list)': sparse_fn(P.tolist()),
                        'sparse(ndarray)': sparse_fn(P.copy()), 'sparse_vector(list)': sp.sparse_vector(P.tolist()), 'sparse_vector(vector, copy=True)': sp.sparse_vector(a, copy=True)}
                if P.any() or True:
                    made['SparseLogicalVector(list, size=n+1)[:n]'] = SparseLogicalVector.from_set(SparseLogicalVector(P.tolist(), n + 1).set, n)
            else:
                made = {'SparseArray(list of lists)': SparseArray(P.tolist()), 'SparseArray(ndarray)': SparseArray(P.copy()), 'sparse(list of lists)': sparse_fn(P.tolist()),
                        'sparse(ndarray)': sparse_fn(P.copy()), 'sparse_array(array, copy=True)': sp.sparse_array(a, copy=True),
                        'SparseArray.from_rows': SparseArray.from_rows([SparseLogicalVector(set(t), n) for t in true_idx]),
                        'SparseArray(list of sets, vector_size)': SparseArray([SparseLogicalVector(set(t), n) for t in true_idx])}
            for nm, r in made.items():
                rows = r.rows if isinstance(r, SparseArray) else [r]
                g.check('class by element type (logical rows for booleans)', all(isinstance(x, SparseLogicalVector) for x in rows) and (not rows or r.dtype is bool), form=nm, **info)
                g.check('dense image = NumPy array of the same data', beq(bimg(r), P) and tuple(r.shape) == P.shape, form=nm, got=bimg(r).tolist(), **info)
                g.check('rep_ok', brep_ok(r), form=nm, **info)
                if r is not a:
                    _flip(r)
                    g.check('a later in-place change of the new object does not change the source', beq(bimg(a), P), form=nm, **info)
            z = SparseLogicalVector(None, n); z2 = SparseLogicalVector.from_size(n)
            g.check('an empty logical vector of a given size is all False', beq(bimg(z), np.zeros(n, bool)) and beq(bimg(z2), np.zeros(n, bool)) and z.size == n, **info)
            if P.ndim == 1:
                g.check('.dct of a logical vector maps the True positions to 1.0', a.dct == {i: 1. for i in true_idx[0]}, **info)
        elif op == 'isub':
            for label, mk, Q in _logical_rights(lshape, True):
                b = mk()
                _, np_exc = outcome(lambda: operator.isub(P.copy(), Q))
                _, sp_exc = outcome(lambda: operator.isub(a, b))
                if np_exc is not None:
                    g.check('NumPy rejects boolean subtraction in place => sparse rejects it', sp_exc is not None, right=label, **info)
                    g.check('rejected operation leaves the target unchanged', beq(bimg(a), P), right=label, **info)
        elif op == 'tolist/iter/len':
            g.check('tolist = NumPy tolist', a.tolist() == P.tolist() and a.to_list() == P.tolist(), **info)
            g.check('iteration yields the elements / rows', [bimg(x).tolist() for x in a] == [np.asarray(x).tolist() for x in P], **info)
            g.check('len, shape, size = NumPy', len(a) == len(P) and tuple(a.shape) == P.shape and a.size == P.size and a.dtype is bool, **info)
            g.check('to_array(dtype=float) = image as 1.0 / 0.0', beq(a.to_array(dtype=float), P.astype(float)) and a.to_array(dtype=float).dtype == float, **info)
            if P.ndim == 1:
                buf = np.ones(P.size, dtype=bool)
                g.check('to_flat_array = dense image', beq(a.to_flat_array(), P) and a.to_flat_array(buf) is buf and beq(buf, P), **info)
                for Q in bool_patterns(P.shape):
                    c = a.copy(); c.from_flat_array(Q.copy())
                    g.check('after from_flat_array: dense image = the flat array', beq(bimg(c), Q) and brep_ok(c), **info)
            else:
                g.check('to_flat_array = flattened dense image', beq(a.to_flat_array(), P.flatten()), **info)
                for Q in bool_patterns(P.shape):
                    c = a.copy(); c.from_flat_array(Q.flatten())
                    g.check('after from_flat_array: dense image = the flat array reshaped', beq(bimg(c), Q) and brep_ok(c), **info)
                items = sorted(a.nonzero_items())
                g.check('nonzero items are the True elements', items == sorted(((int(i), int(j)), True) for i, j in zip(*np.nonzero(P))), **info)
                g.check('nonzero rows = rows holding a True', sorted(a.nonzero_rows()) == sorted(set(int(i) for i in np.nonzero(P)[0])), **info)
            g.check('operand unchanged', beq(bimg(a), P), **info)
        elif op == 'reflected with a bool scalar':
            for c in (True, False, np.True_):
                for nm, f in (('c + a', lambda c, x: c + x), ('c * a', lambda c, x: c * x), ('c & a', lambda c, x: c & x), ('c | a', lambda c, x: c | x),
                              ('c ^ a', lambda c, x: c ^ x), ('c / a', lambda c, x: c / x)):
                    if nm == 'c / a' and not P.all(): continue
                    if isinstance(c, np.bool_): continue          # NumPy scalars apply their own operator to the sparse object element-wise
                    expect, np_exc = outcome(lambda: f(c, P))
                    r, exc = outcome(lambda: f(c, a))
                    if np_exc is not None: continue
                    if not g.check('NumPy accepts => sparse accepts', exc is None, exc=repr(exc), form=nm, c=c, **info): continue
                    g.check('dense image = NumPy result', beq(bimg(r), expect), got=bimg(r).tolist(), numpy=np.asarray(expect).tolist(), form=nm, c=c, **info)
                    g.check('rep_ok(result)', brep_ok(r), form=nm, **info)
                    g.check('operand unchanged', beq(bimg(a), P), form=nm, **info)
        elif op in ('any', 'all', 'sum', 'mean', 'max', 'min'):
            for axis in ((None, 0) if P.ndim == 1 else (None, 0, 1)):
                for keepdims in (False, True):
                    expect = getattr(P, op)(axis=axis, keepdims=keepdims)
                    r, exc = outcome(lambda: getattr(a, op)(axis=axis, keepdims=keepdims))
                    if not g.check('NumPy accepts the reduction => sparse accepts it', exc is None, exc=repr(exc), axis=axis, keepdims=keepdims, **info): continue
                    g.check('result = NumPy result', beq(bimg(r), expect) if op != 'mean' else (np.shape(bimg(r)) == np.shape(expect) and bool(np.allclose(bimg(r).astype(float), expect))),
                            got=bimg(r).tolist(), numpy=np.asarray(expect).tolist(), axis=axis, keepdims=keepdims, **info)
                    g.check('rep_ok(result)', brep_ok(r), axis=axis, keepdims=keepdims, **info)
                    g.check('operand unchanged', beq(bimg(a), P) and brep_ok(a), **info)
                    if isinstance(r, SPARSE):
                        exc = outcome(lambda: _flip(r))[1]
                        g.check('the result accepts in-place operations like the NumPy result', exc is None, exc=repr(exc), axis=axis, keepdims=keepdims, **info)
                        g.check('a later in-place change of the result does not change the operand', beq(bimg(a), P), axis=axis, keepdims=keepdims, **info)
            exc = outcome(lambda: getattr(a, op)(axis=P.ndim))[1]
            g.check('an axis outside the dimensions is rejected', exc is not None, **info)
        elif op == 'sum_of/nonzero/sparse_equal':
            nzp = sorted(zip(*[list(map(int, x)) for x in np.nonzero(P)]))
            g.check('nonzero positions = np.nonzero', sorted(zip(*[list(map(int, x)) for x in a.nonzero_index()])) == nzp
                    and sorted(zip(*[list(map(int, x)) for x in a.nonzero()])) == nzp and sorted(zip(*[list(map(int, x)) for x in a.positive_index()])) == nzp, **info)
            g.check('nonzero keys = columns holding a True', sorted(a.nonzero_keys()) == sorted(set(int(j) for j in np.nonzero(P)[-1])), **info)
            g.check('no negatives', not a.has_negatives(), **info)
            n = P.shape[-1]
            for idx in ([0], list(range(n)), [n - 1, 0], []):
                expect = P[..., idx].sum(axis=-1) if P.ndim == 1 else P[:, idx].sum(axis=0)
                g.check('sum_of(list) = count over the dense image', beq(np.asarray(a.sum_of(idx)), expect), idx=idx, **info)
            g.check('sum_of(column)', beq(np.asarray(a.sum_of(n - 1)), P[..., n - 1] if P.ndim == 1 else P[:, n - 1].sum()), **info)
            g.check('equal to an equal copy and to the dense image', bool(a.sparse_equal(a.copy())) and bool(a.sparse_equal(P.copy())), **info)
            for Q in bool_patterns(P.shape):
                g.check('sparse_equal = np.array_equal', bool(a.sparse_equal(mk_logical(Q))) == bool(np.array_equal(P, Q)), other=Q.tolist(), **info)
            g.check('operand unchanged', beq(bimg(a), P) and brep_ok(a), **info)
        else:
            raise ValueError(op)
    g.flush()


# =========================================================================== C09/gap_history_enum
# The quantifier: "all sequences of ... operations applied to the same objects (exhaustively for sizes <= 3 over a 4-value
# alphabet)" with "exact cancellations (a, -a)".  Alphabet {0, x, -x, y} = {0, 1.5, -1.5, 2}: every sequence of 2 (3 in the thorough
# tier, over a small operand set) in-place operations with operand contents over the alphabet, on a SparseVector of size 2
# and on the rows of a 2 x 2 SparseArray; after every step the state is compared with NumPy and read through every channel.
# (The values are exact in binary floating point, so is every sum / product of them; quotients are the same IEEE operation in both.)

ALPHABET = (0., 1.5, -1.5, 2.)


def _enum_ops(n, reduced=False, tiny=False):
    """Concrete in-place operations on a 1-d target of size n: (label, function applied to the sparse target, function applied to the ndarray)."""
    ops = []
    vecs = list(itertools.product(ALPHABET, repeat=n))
    if reduced: vecs = [v for v in vecs if v in ((0., 0.), (1.5, -1.5), (-1.5, 0.), (2., 1.5), (0., 2.), (-1.5, -1.5))]
    if tiny: vecs = [v for v in vecs if v in ((1.5, -1.5), (0., 2.))]; reduced = True
    for name, f in (('+=', operator.iadd), ('-=', operator.isub), ('*=', operator.imul), ('/=', operator.itruediv)):
        for c in ALPHABET:
            if name == '/=' and c == 0: continue
            ops.append((f'{name} {c}', (lambda t, f=f, c=c: f(t, c)), (lambda T, f=f, c=c: f(T, c))))
            if not reduced or c in (0., -1.5):
                ops.append((f'{name} SparseVector([{c}])', (lambda t, f=f, c=c: f(t, SparseVector([c]))), (lambda T, f=f, c=c: f(T, np.array([c])))))
        for v in vecs:
            if name == '/=' and 0. in v: continue
            ops.append((f'{name} SparseVector({list(v)})', (lambda t, f=f, v=v: f(t, SparseVector(list(v)))), (lambda T, f=f, v=v: f(T, np.array(v)))))
            ops.append((f'{name} ndarray({list(v)})', (lambda t, f=f, v=v: f(t, np.array(v))), (lambda T, f=f, v=v: f(T, np.array(v)))))
            if not reduced: ops.append((f'{name} list({list(v)})', (lambda t, f=f, v=v: f(t, list(v))), (lambda T, f=f, v=v: f(T, np.array(v)))))
    for i in range(n):
        for c in (ALPHABET if not tiny else (0., 2.)):
            ops.append((f'[{i}] = {c}', (lambda t, i=i, c=c: t.__setitem__(i, c)), (lambda T, i=i, c=c: T.__setitem__(i, c))))
    for v in vecs:
        ops.append((f'[:] = {list(v)}', (lambda t, v=v: t.__setitem__(slice(None), list(v))), (lambda T, v=v: T.__setitem__(slice(None), list(v)))))
        ops.append((f'copy_like(SparseVector({list(v)}))', (lambda t, v=v: t.copy_like(SparseVector(list(v)))), (lambda T, v=v: T.__setitem__(slice(None), list(v)))))
    ops.append(('clear()', lambda t: t.clear(), lambda T: T.__setitem__(Ellipsis, 0.)))
    ops.append(('remove_negatives()', lambda t: t.remove_negatives(), lambda T: T.__setitem__(T < 0, 0.)))
    return ops


def henum_configs(tier):
    out = []
    for a in itertools.product(ALPHABET, repeat=2):
        out.append({'name': f'SparseVector {list(a)}', 'target': 'sv', 'start': list(a), 'tier': tier})
    for a in ([[1.5, 0.], [0., -1.5]], [[0., 2.], [-1.5, 1.5]], [[0., 0.], [2., 0.]], [[1.5, -1.5], [1.5, -1.5]]):
        out.append({'name': f'row 0 and then the whole of SparseArray {a}', 'target': 'sa', 'start': a, 'tier': tier})
    return out


def _read_channels(g, t, T, info, full=True):
    ok = brep_ok(t)
    g.check('rep_ok (stored entries are exactly the non-zero elements, inside the size)', ok, **info)
    if not ok: return False
    ok = g.check('dense image = NumPy array after the same operations', beq(t.to_array(), T), got=t.to_array().tolist(), numpy=T.tolist(), **info)
    if not ok: return False
    if not full: return True
    g.check('any / all / sum / max / min = NumPy', bool(t.any()) == bool(T.any()) and bool(t.all()) == bool(T.all()) and bool(np.isclose(t.sum(), T.sum()))
            and t.max() == T.max() and t.min() == T.min(), **info)
    g.check('comparisons with 0 = NumPy', beq((t == 0.).to_array(), T == 0.) and beq((t != 0.).to_array(), T != 0.) and beq((t > 0.).to_array(), T > 0.)
            and beq((t <= 0.).to_array(), T <= 0.), **info)
    if T.ndim == 1:
        g.check('nonzero positions / tolist / iteration = NumPy', list(t.nonzero_index()[0]) == list(np.nonzero(T)[0]) and t.tolist() == T.tolist() and list(t) == list(T), **info)
    else:
        g.check('nonzero positions / tolist / axis reductions = NumPy', sorted(zip(*t.nonzero_index())) == sorted(zip(*np.nonzero(T))) and t.tolist() == T.tolist()
                and beq(t.any(axis=0).to_array(), T.any(axis=0)) and beq(t.all(axis=1).to_array(), T.all(axis=1)) and bool(np.allclose(t.sum(axis=0).to_array(), T.sum(axis=0)))
                and beq(t.max(axis=0).to_array(), T.max(axis=0)) and beq(t.min(axis=1).to_array(), T.min(axis=1)), **info)
    return True


@group('C09/gap_history_enum', configs=henum_configs, mode='B',
       notes='exhaustive over the alphabet {0, 1.5, -1.5, 2}: every start content of a size-2 SparseVector (16) / 4 start contents of a 2 x 2 SparseArray, '
             'every sequence of 2 in-place operations (quick: operand contents from a reduced set; thorough: every content, plus 3-step sequences over a small operand set) out of += -= *= /= with scalar, length-1, '
             'SparseVector, ndarray and list operands of every content, item and slice assignment, copy_like, clear, remove_negatives; NumPy as oracle after every step',
       functions=['thermosteam.base.sparse:SparseVector._iadd_scalar ... _itruediv_array (sequences on the same target)',
                  'thermosteam.base.sparse:SparseVector.__setitem__', 'thermosteam.base.sparse:SparseVector.copy_like', 'thermosteam.base.sparse:SparseVector.clear',
                  'thermosteam.base.sparse:SparseVector.remove_negatives', 'thermosteam.base.sparse:SparseArray.__iadd__ ... __itruediv__ (exec templates)',
                  'thermosteam.base.sparse:SparseVector.any/all/sum/max/min', 'thermosteam.base.sparse:SparseArray.any/all/sum/max/min'])
def gap_history_enum(w, cfg):
    g = Agg(w)
    quick = cfg['tier'] == 'quick'
    full, red, tiny = _enum_ops(2), _enum_ops(2, reduced=True), _enum_ops(2, tiny=True)
    # quick: 2 steps (reduced operand set, then the tiny one); thorough: 2 steps over the full set, and 3 steps over the tiny set
    plans = [[red, tiny]] if quick else [[full, full], [tiny, tiny, tiny]]
    is_sa = cfg['target'] == 'sa'

    def target_of(t, T, depth):
        # SparseArray: the first operation is applied to row 0 (a view), the later ones to the whole array
        return (t[0], T[0]) if (is_sa and depth == 0) else (t, T)

    def rec(t, T, depth, hist, plan):
        steps = len(plan)
        for label, fs, fn in plan[depth]:
            if is_sa and depth > 0 and label.startswith('copy_like'): continue       # SparseArray.copy_like takes a SparseArray
            t2, T2 = t.copy(), T.copy()
            x, X = target_of(t2, T2, depth)
            _, np_exc = outcome(lambda: fn(X))
            _, sp_exc = outcome(lambda: fs(x))
            info = dict(start=cfg['start'], sequence=hist + [label])
            if np_exc is not None:
                g.check('NumPy rejects the operation => sparse rejects it', sp_exc is not None, **info)
                continue
            if not g.check('NumPy accepts the operation => sparse accepts it', sp_exc is None, exc=repr(sp_exc), **info): continue
            if not _read_channels(g, t2, T2, info, full=(depth + 1 == steps)): continue
            if depth + 1 < steps:
                rec(t2, T2, depth + 1, hist + [label], plan)

    for plan in plans:
        t = SparseArray(cfg['start']) if is_sa else SparseVector(cfg['start'])
        rec(t, np.array(cfg['start'], dtype=float), 0, [], plan)
    g.flush()


# =========================================================================== C09/gap_reflected_dense
# "+ - * / and comparisons with ... dense arrays": the dense operand on the LEFT (a Python list / tuple / nested list has no
# arithmetic of its own, so Python hands the operation to __radd__/__rsub__/__rmul__/__rtruediv__ and the mirrored comparison of
# the sparse operand; C09/reflected_unary uses a scalar on the left only).

def refl_dense_configs(tier):
    out = []
    for lk in ('list[2]', 'tuple[2]', 'list[1]', 'list of lists[2, 2]', 'list of lists[1, 2]'):
        for rk in ('SparseVector[2]', 'SparseArray[2, 2]'):
            for op in ('add', 'sub', 'mul', 'truediv', 'eq', 'ne', 'gt', 'le'):
                if tier == 'quick' and op in ('ne', 'le'): continue
                if lk == 'list of lists[2, 2]' and rk == 'SparseVector[2]' and tier == 'quick': continue
                if lk == 'list of lists[1, 2]' and rk == 'SparseVector[2]': continue        # known finding F-C09-K2 (1-d result where NumPy gives shape (1, n))
                out.append({'name': f'{lk} {op} {rk}', 'left': lk, 'right': rk, 'op': op})
    return out


@group('C09/gap_reflected_dense', configs=refl_dense_configs,
       functions=['thermosteam.base.sparse:SparseArray.__radd__/__rsub__/__rmul__/__rtruediv__ (array-like left operand)',
                  'thermosteam.base.sparse:SparseVector.__rtruediv__ (array-like left operand)',
                  'thermosteam.base.sparse:SparseVector.__eq__/__ne__/__gt__/__lt__/__ge__/__le__ (mirrored for a list on the left)'])
def gap_reflected_dense(w, cfg):
    op = cfg['op']
    lshape = _shape_of(cfg['left'])
    vals, Lflat = _lv(w, int(np.prod(lshape)), 'l')
    L = Lflat.reshape(lshape)
    l = L.tolist()
    if cfg['left'].startswith('tuple'): l = tuple(l)
    r, R = _mk_real(w, cfg['right'], nonzero=(op == 'truediv'))
    R0 = R.copy()
    f = CMP.get(op) or BIN[op]
    expect, np_exc = outcome(lambda: np_cmp(op, L, R, w) if op in CMP else f(L, R))
    res, sp_exc = outcome(lambda: f(l, r))
    if np_exc is not None:
        w.ensure('NumPy rejects the shapes => sparse rejects them', sp_exc is not None)
        w.canary('canary: accepted', False)
        return
    w.ensure('NumPy accepts the operands => sparse accepts them', sp_exc is None, exc=repr(sp_exc))
    if sp_exc is not None:
        w.canary('canary: accepted', False)
        return
    if op in CMP:
        w.ensure('dense image = NumPy result', same(w, cmp_image(w, res), expect))
    else:
        w.ensure('dense image = NumPy result', same(w, dimg(res), expect))
        if isinstance(res, SPARSE): w.ensure('rep_ok(result)', rep_ok(w, res))
    w.ensure('sparse operand unchanged', w.And(same(w, image(r), R0), rep_ok(w, r)))
    w.ensure('dense operand unchanged', same(w, np.array(l, dtype=L.dtype).reshape(lshape), L))
    c = None if op in CMP else first_plus_one(w, dimg(res), expect)
    w.canary('canary: result + 1' if c is not None else 'canary: sparse raises', c if c is not None else False)
