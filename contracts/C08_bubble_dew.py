# -*- coding: utf-8 -*-
"""
C08 — bubble and dew points satisfy their equations and bracket the two-phase region.

Mode S (DESIGN 4/C08): the REAL BubblePoint.solve_Ty / solve_Py and DewPoint.solve_Tx / solve_Px
(with _T_error / _P_error / _T_error_ideal, _Ty_ideal / _Tx_ideal, _Py_ideal / _Px_ideal, solve_y / y_iter,
solve_x / gamma_iter, fn.normalize, fn.first_true_index) are executed on a private BubblePoint / DewPoint
instance.  What is replaced (assumed contracts, DESIGN 2.6):

  A-root        flx.aitken_secant / flx.IQ_interpolation return a fresh x* > 0 with callback(x*) == 0; they call
                nothing but the supplied callback (k "probe" evaluations at arbitrary points first), the LAST
                evaluation is the one at x* (true of flexsolve's converged exits).  A configuration can make the
                first secant call raise RuntimeError (drives the bracketing fall-back branch).
                flx.wegstein returns x* with callback(x*) == x* (a concrete start value that already is a fixed
                point is returned: A-root-stay).
                A-root has a requires side, which the code under check must establish at every call (an obligation of
                its own, "IQ_interpolation#n requires: ..."): the residuals y0, y1 handed to the bracketing solver
                flx.IQ_interpolation(f, x0, x1, y0, y1, ..) are the values the callback f returned at the bracket ends
                x0 resp. x1 (with the arguments of this call).  Without it "returns a root" is not what flexsolve
                promises (it walks to an end of the bracket), so no sentence about the fall-back branch would be proved.
  A-models      Psat_k(T), Tsat_k(P), gamma_k(x, T), phi_k(y, T, P), pcf_k(T, P) are uninterpreted positive
                functions (gamma/phi take the composition in a canonical order of the chemicals, i.e. the models are
                assumed to be equivariant under permutation of the chemical list; C16 looks at that).
                Configurations also run the real Ideal/Mock coefficient classes.  Dew point: Psat_k >= 1e-16 Pa
                (DewPoint._T_error overwrites smaller values); in the z = s*(c1,c2,..) configurations (concrete
                composition, arbitrary total s) additionally Psat_k, gamma_k <= 1e12, which keeps the 1e-32 trace
                guards of dew_point.py from firing (each guard on a symbolic value is otherwise a 2-way fork; the
                '+'/'?' configurations explore all of them).

The clauses are the sentences of the property with the *normalised* composition zbar = z / sum(z):
  bubble:  sum_k zbar_k gamma_k(zbar,T) pcf_k Psat_k(T) / (phi_k(y,T,P) P) = 1,  y_k = that term,  sum y = 1
  dew:     sum_k zbar_k phi_k(zbar,T,P) P / (gamma_k(x~,T) pcf_k Psat_k(T))  = 1,  x_k = that term,  sum x = 1
  single positive component: T = Tsat_k(P) (P <= Pc) resp. P = Psat_k(T) (T <= Tc) and y = zbar
  the solution found for z solves the problem posed for k*z, for the permuted chemical list, and the T-problem at
  the P obtained from T (and vice versa) — with identical compositions returned.
Frame: the caller's z and the solver object's domain fields are unchanged.

Mode B (bounded, never counted as proved): the real solvers on real property data, deterministic grid
(C08/grid_real_solvers), and inputs on which the real secant solve fails so that the bracketing fall-back gives the answer
(C08/fallback_real_solvers).
"""
import os
import sys
import atexit
import shutil
import tempfile
import itertools

if 'NUMBA_CACHE_DIR' not in os.environ:
    # dew_point.gamma_iter is @njit(cache=True) with a function-typed argument: every process adds its own entry to the
    # on-disk index next to the source, and re-saving an index that holds entries of other processes intermittently raises
    # ReferenceError('underlying object has vanished') inside numba (seen in mode B on /repo).  Give this run a private,
    # empty numba cache (must happen before thermosteam imports numba); nothing is written into the tree under check.
    _numba_dir = tempfile.mkdtemp(prefix='verif_C08_numba_')
    os.environ['NUMBA_CACHE_DIR'] = _numba_dir
    _main_pid = os.getpid()
    atexit.register(lambda: os.getpid() == _main_pid and shutil.rmtree(_numba_dir, ignore_errors=True))

import numpy as np
import thermosteam as tmo
from thermosteam import equilibrium as eq
from engine.api import group
from engine.sx import tmo_world as W

# the VCs are nonlinear (products / quotients of model values): try a fresh one-shot solver first (engine opt-in, same
# verdicts) and hand branch-feasibility queries over to it early (this process only), as C02 does
os.environ.setdefault('VERIF_PROVE_FRESH_MS', '5000')
os.environ.setdefault('VERIF_PROVE_FRESH_ORDER', 'default,nlsat')
os.environ.setdefault('VERIF_STABLE_HASH', '1')    # re-execution check modulo the argument order z3.simplify gives to sums
if 'VERIF_BRANCH_TIMEOUT_MS' not in os.environ:
    from engine.sx import sym as _sym
    _sym.BRANCH_TIMEOUT_MS = 400

bp_mod = sys.modules['thermosteam.equilibrium.bubble_point']
dp_mod = sys.modules['thermosteam.equilibrium.dew_point']

# --------------------------------------------------------------------------- packages (built before forking)

S_PKGS = [('Water',), ('Water', 'Ethanol'), ('Ethanol', 'Water'), ('Water', 'Ethanol', 'Methanol'),
          ('Methanol', 'Water', 'Ethanol')]
W.preload(S_PKGS)
_IDEAL = {}


def ideal_thermo(IDs):
    """Thermo on the shared compiled chemicals with the real Ideal / Mock coefficient classes."""
    IDs = tuple(IDs)
    t = _IDEAL.get(IDs)
    if t is None:
        t = _IDEAL[IDs] = tmo.Thermo(W.thermo(IDs).chemicals, Gamma=eq.IdealActivityCoefficients,
                                     Phi=eq.IdealFugacityCoefficients, PCF=eq.MockPoyintingCorrectionFactors)
    return t


for _p in S_PKGS:
    ideal_thermo(_p)

_MISSING = object()


def _is_sym(v):
    return type(v).__name__ in ('SymReal', 'SymBool')


def _has_sym(x):
    if _is_sym(x): return True
    if isinstance(x, np.ndarray):
        return x.dtype == object and any(_is_sym(i) for i in x.flat)
    if isinstance(x, (list, tuple)):
        return any(_has_sym(i) for i in x)
    return False


class Env:
    """Per-path source of fresh leaves + registry of patches to undo."""

    def __init__(self, w, cfg):
        self.w = w
        self.cfg = cfg
        self.n = 0
        self.saved = []
        self.evals = []          # (solver object, residual method name, point, other arguments, value returned) in call order

    def leaf(self, tag, **kw):
        self.n += 1
        return self.w.real(f'v{self.n}.{tag}', **kw)

    def pos(self, tag):
        return self.leaf(tag, lo=0., lo_strict=True)

    def arr(self, xs):
        return np.array(list(xs), dtype=object if self.w.symbolic else float)

    def patch(self, obj, name, value):
        old = obj.__dict__.get(name, _MISSING) if hasattr(obj, '__dict__') else getattr(obj, name, _MISSING)
        self.saved.append((obj, name, old))
        setattr(obj, name, value)

    def restore(self):
        for obj, name, old in reversed(self.saved):
            if old is _MISSING:
                try: delattr(obj, name)
                except AttributeError: pass
            else:
                setattr(obj, name, old)
        self.saved = []


# --------------------------------------------------------------------------- A-models

def ufn(w, name):
    """
    Uninterpreted positive function `name` (A-models).  Symbolically w.fn; natively (replay of a solver model / path
    cross-check) the model's table is looked up with a RELATIVE tolerance per argument before falling back to w.fn:
    the guard outcomes of dew_point.py make the solver pick arguments such as 1e-16 and 1e-32, which the absolute
    tolerance of the engine's table lookup cannot tell apart (it would hand back the value of another argument tuple).
    """
    f = w.fn(name, positive=True)
    if w.symbolic:
        return f
    entries = getattr(w, 'tables', {}).get(name, {}).get('entries', [])

    def call(*args):
        args = [float(a) for a in args]
        for eargs, val in entries:
            if len(eargs) == len(args) and all(a == b or abs(a - b) <= 1e-9 * max(abs(a), abs(b)) for a, b in zip(eargs, args)):
                return val
        return f(*args)
    return call


class StubPsat:
    """Vapour pressure handle: uninterpreted positive function of T; keeps the real handle's Tmin / Tmax."""

    def __init__(self, env, ID, real, floor):
        self.env = env; self.ID = ID
        self.Tmin = real.Tmin; self.Tmax = real.Tmax
        self.floor = floor

    def __call__(self, T, P=None):
        w = self.env.w
        v = ufn(w, f'Psat.{self.ID}')(T)
        if self.floor:
            # DewPoint._T_error replaces vapour pressures below 1e-16 Pa ("prevent floating point error"); the
            # property's equation is about the model's Psat, so such models are outside the requires.
            w.assume(w.ge(v, 1e-16))
        if self.env.cfg['z'].startswith('s*('):
            w.assume(w.le(v, 1e12))      # concrete-composition configurations: with this bound no 1e-32 trace guard can fire
        return v

    def __bool__(self): return True


def _canon(order, xs):
    xs = list(xs)
    return [xs[i] for i in order]


class StubGamma:
    """gamma_k(x, T): uninterpreted positive functions; records the evaluations made by the code under check."""
    args = ()

    def __init__(self, env, IDs):
        self.env = env; self.IDs = tuple(IDs)
        self.order = sorted(range(len(IDs)), key=lambda i: IDs[i])
        self.calls = []
        self.recording = True

    def _f(self, x, T, *args):
        w = self.env.w
        xs = list(x)
        cx = _canon(self.order, xs)
        out = [ufn(w, f'gamma.{ID}')(*cx, T) for ID in self.IDs]
        if self.env.cfg['z'].startswith('s*('):
            for v in out: w.assume(w.le(v, 1e12))     # see StubPsat: keeps the trace guards decidable
        if self.recording:
            self.calls.append((xs, T, out))
        return self.env.arr(out)

    @property
    def f(self): return self._f

    def __call__(self, x, T): return self._f(x, T)


class StubPhi:
    def __init__(self, env, IDs):
        self.env = env; self.IDs = tuple(IDs)
        self.order = sorted(range(len(IDs)), key=lambda i: IDs[i])

    def __call__(self, y, T, P):
        w = self.env.w
        cy = _canon(self.order, y)
        return self.env.arr([ufn(w, f'phi.{ID}')(*cy, T, P) for ID in self.IDs])


class StubPCF:
    def __init__(self, env, IDs):
        self.env = env; self.IDs = tuple(IDs)

    def __call__(self, T, P, Psats=None):
        w = self.env.w
        return self.env.arr([ufn(w, f'pcf.{ID}')(T, P) for ID in self.IDs])


# --------------------------------------------------------------------------- A-root

class StubFlx:
    """Contract stubs of the flexsolve entry points used by bubble_point.py / dew_point.py."""

    def __init__(self, env, fail=(), k=0, script=None, tag='', fixed_point_positive=False):
        self.env = env
        self.stay = fixed_point_positive and env.cfg.get('gamma') == 'ideal'
        self.fixed_point_positive = fixed_point_positive   # dew point: the iterate is gamma (> 0); bubble point: y (>= 0)
        self.fail = set(fail)
        self.k = k
        self.script = script        # {call key: value found for the reference problem} -> verify instead of assume
        self.roots = {}
        self.counts = {}
        self.req_counts = {}
        self.tag = tag

    def _key(self, kind):
        n = self.counts.get(kind, 0)
        self.counts[kind] = n + 1
        return f'{kind}#{n}'

    def _scalar_root(self, kind, f, args):
        w = self.env.w
        key = self._key(kind)
        if key in self.fail:
            raise RuntimeError(f'{key}: failed to converge (stub)')
        if self.script is not None and key in self.script:
            x = self.script[key]
            r = f(x, *args)
            w.ensure(f'{self.tag}{key}: the solution of the reference problem solves this one', w.eq(r, 0.))
            self.roots[key] = x
            return x
        for j in range(self.k):
            f(self.env.pos(f'{key}.probe{j}'), *args)
        x = self.env.pos(f'{key}.root')
        r = f(x, *args)
        w.assume(w.eq(r, 0.))
        self.roots[key] = x
        return x

    def aitken_secant(self, f, x0, x1=None, xtol=0., ytol=5e-8, args=(), maxiter=50, checkroot=False, checkiter=True):
        return self._scalar_root('aitken_secant', f, args)

    def IQ_interpolation(self, f, x0, x1, y0=None, y1=None, x=None, xtol=0., ytol=5e-8, args=(), maxiter=50,
                         checkroot=False, checkiter=True, checkbounds=True):
        self._bracket_requires(f, x0, x1, y0, y1, args)
        return self._scalar_root('IQ_interpolation', f, args)

    def _bracket_requires(self, f, x0, x1, y0, y1, args):
        """
        Requires side of A-root for the bracketing solver: a residual handed over for a bracket end is the value the
        callback returned AT that end with the arguments of this call (flexsolve does not evaluate the callback there
        again).  The evaluations the code under check made are observed (Harness wraps the residual methods); a callback
        that is not observed is evaluated here (A-root allows evaluations at arbitrary points before the root).
        """
        w = self.env.w
        owner = getattr(f, '__self__', None); name = getattr(f, '__name__', None)
        n = self.req_counts[name] = self.req_counts.get(name, -1) + 1      # numbered per callback: the same on every path
        args = tuple(args)
        for xn, xb, yn, yb in (('x0', x0, 'y0', y0), ('x1', x1, 'y1', y1)):
            if yb is None: continue          # flexsolve evaluates the callback itself
            seen = [(a, r) for (o, nm, a, rest, r) in self.env.evals
                    if o is owner and nm == name and len(rest) == len(args) and all(p is q for p, q in zip(rest, args))]
            if not seen:
                g = getattr(self.env, 'gamma_stub', None)
                rec = getattr(g, 'recording', None)
                if rec is not None: g.recording = False
                try: seen = [(xb, f(xb, *args))]
                finally:
                    if rec is not None: g.recording = rec
            w.ensure(f'{self.tag}IQ_interpolation on {name}#{n} requires: {yn} is the residual the callback returned at the bracket end {xn}',
                     w.Or(*[w.And(same_point(w, a, xb), same_value(w, r, yb)) for a, r in seen], False))
            if yn == 'y0' and y1 is not None:
                w.canary(f'canary: {self.tag}IQ_interpolation on {name}#{n}: y0 is the residual the callback returned at the OTHER bracket end x1',
                         w.Or(*[w.And(same_point(w, a, x1), same_value(w, r, y0)) for a, r in seen], False))

    def wegstein(self, f, x, xtol=5e-8, args=(), maxiter=50, checkiter=True, checkconvergence=True, convergenceiter=0):
        w = self.env.w
        key = self._key('wegstein')
        if self.stay:
            # A-root-stay, used with the REAL ideal activity model only (its start value 1.0 is the fixed point); decided by
            # the configuration, not by the type of x, so that the native replay takes the same route as the symbolic run
            r = f(x, *args)
            if not _has_sym(r) and not _has_sym(x) and np.all(np.asarray(r, dtype=float) == np.asarray(x, dtype=float)):
                return r
            raise AssertionError('ideal model: the start value of the fixed-point iteration is not a fixed point')
        n = len(x)
        if self.script is not None and key in self.script:
            xs = self.script[key]
            r = f(xs, *args)
            w.ensure(f'{self.tag}{key}: the fixed point of the reference problem is one of this problem', w.all_eq(list(r), list(xs)))
            self.roots[key] = xs
            return xs
        hi = 1e12 if (self.fixed_point_positive and self.env.cfg['z'].startswith('s*(')) else None   # a gamma value (StubGamma bound)
        xs = self.env.arr([self.env.leaf(f'{key}.x{i}', lo=0., lo_strict=self.fixed_point_positive, hi=hi) for i in range(n)])
        r = f(xs, *args)
        if w.symbolic:
            w.assume(w.all_eq(list(r), list(xs)))
        else:
            # natively with a RELATIVE tolerance: a solver model with values like 5e-65 next to 1e-32 does not survive the
            # conversion to floats (distinct argument tuples collapse); such a replay is not a model of the path -> skipped
            w.assume(all(a == b or abs(a - b) <= 1e-6 * max(abs(a), abs(b)) for a, b in zip([float(i) for i in r], [float(i) for i in xs])))
        self.roots[key] = xs
        return xs

    def __getattr__(self, name):
        raise AssertionError(f'unexpected flexsolve call: {name}')


# --------------------------------------------------------------------------- harness

SOLVERS = {'Ty': ('bubble', 'solve_Ty', 'P'), 'Py': ('bubble', 'solve_Py', 'T'),
           'Tx': ('dew', 'solve_Tx', 'P'), 'Px': ('dew', 'solve_Px', 'T')}


RESIDUALS = ('_T_error', '_P_error', '_T_error_ideal', '_T_error_reactive', '_P_error_reactive')


def _observed(env, name, method):
    """The residual method itself, with every evaluation (point, other arguments, value) noted in env.evals."""
    def residual(self, v, *args):
        r = method(self, v, *args)
        env.evals.append((self, name, v, args, r))
        return r
    residual.__name__ = name
    residual.__qualname__ = getattr(method, '__qualname__', name)
    residual.__doc__ = method.__doc__
    return residual


def _tsat_stub(env):
    def Tsat(self, P, Tguess=None, Tmin=None, Tmax=None, *, check_validity=True):
        return ufn(env.w, f'Tsat.{self.ID}')(P)
    return Tsat


class Harness:
    """Private BubblePoint / DewPoint on real compiled chemicals with stubbed models and root finders."""

    def __init__(self, env, cfg, kind, IDs=None, flx=None):
        self.env = env; w = env.w
        self.kind = kind
        self.IDs = IDs = tuple(IDs or cfg['IDs'])
        self.chems = chems = W.thermo(IDs).chemicals.tuple
        cls = bp_mod.BubblePoint if kind == 'bubble' else dp_mod.DewPoint
        cls._cached.clear()
        self.point = pt = cls(chems, ideal_thermo(IDs))          # real __new__ on real data (concrete domain fields)
        cls._cached.clear()                                        # the instance is private to this path
        for c in chems:
            if not isinstance(c._Psat, StubPsat):
                env.patch(c, '_Psat', StubPsat(env, c.ID, c._Psat, floor=(kind == 'dew')))
        pt.Psats = [c.Psat for c in chems]
        if not getattr(env, 'tsat_patched', False):
            env.patch(tmo.Chemical, 'Tsat', _tsat_stub(env))
            env.tsat_patched = True
        if kind not in getattr(env, 'observed', ()):
            env.observed = getattr(env, 'observed', ()) + (kind,)
            for nm in RESIDUALS:
                if nm in cls.__dict__: env.patch(cls, nm, _observed(env, nm, cls.__dict__[nm]))
        if cfg.get('gamma', 'stub') == 'stub': pt.gamma = env.gamma_stub = StubGamma(env, IDs)
        if cfg.get('phi', 'stub') == 'stub': pt.phi = StubPhi(env, IDs)
        if cfg.get('pcf', 'stub') == 'stub': pt.pcf = StubPCF(env, IDs)
        self.frame0 = self._frame()
        self.flx = flx
        self.install(flx)

    def install(self, flx):
        env = self.env
        mod = bp_mod if self.kind == 'bubble' else dp_mod
        mod.flx = flx if flx is not None else mod.flx
        if self.kind == 'dew':
            gi = dp_mod.gamma_iter
            if hasattr(gi, 'py_func'):       # natively numba cannot call the Python gamma stub; same source either way
                dp_mod.gamma_iter = gi.py_func

    def _frame(self):
        pt = self.point
        return (pt.Tmin, pt.Tmax, pt.Pmin, pt.Pmax, pt.IDs, tuple(id(c) for c in pt.chemicals), tuple(id(p) for p in pt.Psats),
                id(pt.gamma), id(pt.phi), id(pt.pcf))

    def frame_ok(self):
        return self._frame() == self.frame0

    # ---- the property's equation, evaluated with the models of this solver object at a returned point
    def spec_terms(self, zbar, T, P, comp, gammas=None):
        """Raoult fractions: bubble  zbar_k gamma_k pcf_k Psat_k / (phi_k P);  dew  zbar_k phi_k P / (gamma_k pcf_k Psat_k)."""
        pt = self.point; n = len(zbar)
        g = pt.gamma
        rec = getattr(g, 'recording', None)
        if rec is not None: g.recording = False
        try:
            Ps = [p(T) for p in pt.Psats]
            Parr = self.env.arr(Ps)
            pcf = _vec(pt.pcf(T, P, Parr), n)
            if self.kind == 'bubble':
                gam = _vec(g(self.env.arr(zbar), T), n) if gammas is None else gammas
                phi = _vec(pt.phi(self.env.arr(comp), T, P), n)
                return [zbar[k] * gam[k] * pcf[k] * Ps[k] / (phi[k] * P) for k in range(n)]
            else:
                gam = _vec(g(self.env.arr(comp), T), n) if gammas is None else gammas
                phi = _vec(pt.phi(self.env.arr(zbar), T, P), n)
                return [zbar[k] * phi[k] * P / (gam[k] * pcf[k] * Ps[k]) for k in range(n)]
        finally:
            if rec is not None: g.recording = rec


def _vec(v, n):
    if isinstance(v, np.ndarray) and v.ndim == 1:
        return list(v)
    return [v] * n


def ge_exact(w, a, b):
    """a >= b; natively without the tolerance of w.ge (thresholds such as 1e-16 / 1e-32 are far below it)."""
    return w.ge(a, b) if w.symbolic else float(a) >= float(b)


def same_point(w, a, b):
    """a == b for arguments of a callback; two concrete values are compared exactly (the native w.eq is relative to the
    largest magnitude of the run, 1e12 Pa model values would make Tmin 'equal' to Tmax)."""
    if _is_sym(a) or _is_sym(b): return w.eq(a, b)
    return float(a) == float(b)


def same_value(w, a, b):
    """
    "b is the value a that the callback returned": the same object, or equal up to 1e-6 relative (far more than a bracketing
    solver needs).  The margin is what makes a solver counter-model survive the conversion to floats (a model in which the two
    residuals differ in the 30th digit is no failing input natively); natively plain float arithmetic, not the tolerance of
    the native w.le (relative to the largest magnitude of the run, 1e12 Pa model values would hide any difference).
    """
    if a is b: return True
    d = abs(a - b); m = 1e-6 * (1. + abs(a) + abs(b))
    return w.le(d, m) if w.symbolic else float(d) <= float(m)


def _total(xs):
    t = 0.
    for x in xs: t = t + x
    return t


def plant_z(w, pattern, name='z'):
    """
    '+' leaf > 0, '?' leaf >= 0 (presence decided by the explorer), '0' concrete zero;
    's*(0.3,0.7)': a concrete composition times one leaf s > 0 (arbitrary total, keeps the guard conditions of
    dew_point.py decidable: used for the configurations that evaluate the residual several times).
    """
    if pattern.startswith('s*('):
        s = w.real(f'{name}.scale', lo=0., lo_strict=True)
        return [(s * float(c) if float(c) else 0.) for c in pattern[3:-1].split(',')]
    out = []
    for i, c in enumerate(pattern):
        if c == '0': out.append(0.)
        elif c == '?': out.append(w.real(f'{name}{i}', lo=0.))
        else: out.append(w.real(f'{name}{i}', lo=0., lo_strict=True))
    return out


def spec_leaf(w, h, which, name='spec'):
    """The given T or P inside the property's quantifier and the solver object's own domain."""
    pt = h.point
    if which == 'P':
        return w.real(f'{name}.P', lo=5e3, hi=3e6)
    return w.real(f'{name}.T', lo=max(260., pt.Tmin), hi=min(480., pt.Tmax))


def check_point(w, h, zvals, given, which, res, comp, tag=''):
    """
    The sentences of C08 for one returned point.  zvals: the planted composition (pre-state leaves); given: the
    specified P (which='P') or T; res: the computed T resp. P; comp: the returned y (bubble) / x (dew).
    """
    n = len(zvals)
    pos = [bool(v > 0.) for v in zvals]
    N = sum(pos)
    T, P = (res, given) if which == 'P' else (given, res)
    S = _total(zvals)
    zbar = [v / S for v in zvals]
    comp = list(comp)
    name = 'y' if h.kind == 'bubble' else 'x'
    if N == 1:
        k = pos.index(True)
        c = h.chems[k]
        if which == 'P':
            if bool(P <= c.Pc):
                w.ensure(f'{tag}single component: T = Tsat of that chemical at P', w.eq(T, ufn(w, f'Tsat.{c.ID}')(P)))
        else:
            if bool(T <= c.Tc):
                w.ensure(f'{tag}single component: P = Psat of that chemical at T', w.eq(P, h.point.Psats[k](T)))
        # fn.normalize documents "magnitude zero -> equal fractions" below 1e-16: a total below that is no composition
        w.ensure(f'{tag}single component: {name} = zbar', w.Implies(ge_exact(w, S, 1e-16), w.all_eq(comp, zbar)))
        return
    g = h.point.gamma
    if h.kind == 'dew' and isinstance(g, StubGamma):
        # gamma is taken at the liquid composition the code evaluated it at (x~): one of the recorded evaluations must be
        # at the returned T, give the equation, and be AT the returned x unless a fraction is under the 1e-32 trace guard
        alts = []
        for xs, Tc, out in g.calls:
            terms = h.spec_terms(zbar, T, P, comp, gammas=out)
            alts.append(w.And(w.eq(Tc, T), w.eq(_total(terms), 1.), w.all_eq(comp, terms),
                              w.Implies(w.And(*[ge_exact(w, v, 1e-32) for v in comp]), w.all_eq(xs, comp))))
        w.ensure(f'{tag}Raoult fractions at the returned point sum to one and are the returned x (normalised z)', w.Or(*alts))
        terms = h.spec_terms(zbar, T, P, comp, gammas=g.calls[-1][2]) if g.calls else None
    else:
        terms = h.spec_terms(zbar, T, P, comp)
        w.ensure(f'{tag}Raoult fractions at the returned point sum to one (normalised z)', w.eq(_total(terms), 1.))
        w.ensure(f'{tag}returned {name} are the Raoult fractions', w.all_eq(comp, terms))
    w.ensure(f'{tag}returned {name} sums to one', w.eq(_total(comp), 1.))
    return terms


def _configs_for(solver):
    """
    Structure family per solver: 1-3 chemicals, presence pattern of z, which models are uninterpreted stubs and which are
    the real Ideal/Mock classes, first secant call succeeds / raises (fall-back bracket branch), k probe evaluations.
    Quick keeps to one stubbed model at a time for the dew point (every floating-point guard of dew_point.py on a symbolic
    value is a 2-way fork: ~40-60 paths per two-component configuration); thorough adds all-stub and larger ones.
    """
    kind = SOLVERS[solver][0]

    def configs(tier):
        out = []

        def add(IDs, pat, gamma='stub', phi='stub', pcf='stub', secant='ok', k=0, via='solve'):
            nm = f"{'+'.join(i[:3] for i in IDs)};z={pat};gamma={gamma};phi={phi};pcf={pcf};secant={secant};k={k}" + (';via=__call__' if via == 'call' else '')
            out.append({'name': nm, 'IDs': list(IDs), 'z': pat, 'gamma': gamma, 'phi': phi, 'pcf': pcf, 'secant': secant, 'k': k, 'via': via})
        WE = ('Water', 'Ethanol'); WEM = ('Water', 'Ethanol', 'Methanol'); Wt = ('Water',)
        ideal = dict(gamma='ideal', phi='ideal', pcf='mock')
        # single positive component / nothing present
        add(Wt, '+'); add(Wt, '?'); add(Wt, '?', via='call')
        add(WE, '+0'); add(WE, '0+'); add(WEM, '0+0'); add(WEM, '00+', **ideal)
        # two components, one uninterpreted model at a time + the real ideal classes
        SC = 's*(0.3,0.7)'
        add(WE, '++', **ideal)
        add(WE, '++', phi='ideal', pcf='mock')
        add(WE, '++' if kind == 'bubble' else SC, via='call', **ideal); add(WE, '0+', via='call')
        if kind == 'bubble':
            add(WE, '++', gamma='ideal', pcf='mock'); add(WE, '++', gamma='ideal', phi='ideal')
            add(WE, '++'); add(WE, '++', secant='raise', phi='ideal')
            add(WE, '+?', phi='ideal'); add(WEM, '+0+', phi='ideal'); add(WEM, '+++', **ideal)
        else:
            add(WE, SC, gamma='ideal', pcf='mock'); add(WE, SC, gamma='ideal', phi='ideal'); add(WE, SC, phi='ideal', pcf='mock')
            add(WE, SC, secant='raise', **ideal)
            add(WEM, 's*(0.2,0,0.8)', **ideal)
        if tier == 'thorough':
            # every guard outcome of dew_point.py is explored on the '+'/'?' patterns (40-70 paths per configuration with a
            # single residual evaluation); configurations with several evaluations use the s*(..) pattern for the dew point
            multi = '++' if kind == 'bubble' else SC
            add(WE, multi, k=1, phi='ideal', pcf='stub' if kind == 'bubble' else 'mock'); add(WE, multi, secant='raise', k=1, **ideal)
            add(WE, '??', **ideal); add(WE, '?+', gamma='ideal', pcf='mock'); add(WE, '+?', **ideal)
            for gm, ph, pc in (('ideal', 'stub', 'mock'), ('ideal', 'ideal', 'stub'), ('stub', 'stub', 'mock'), ('stub', 'ideal', 'stub'),
                               ('ideal', 'stub', 'stub'), ('stub', 'stub', 'stub')):
                add(WE, '++', gamma=gm, phi=ph, pcf=pc)
            add(WE, SC, secant='raise', phi='ideal', pcf='mock'); add(WE, SC, k=1, phi='ideal', pcf='mock')
            if kind == 'bubble': add(WE, SC, secant='raise')
            add(WE, SC); add(WE, SC, via='call')
            add(WEM, '+0+', phi='ideal'); add(WEM, 's*(0.2,0.3,0.5)', phi='ideal', pcf='mock'); add(WEM, 's*(0.2,0.3,0.5)')
            add(('Methanol', 'Water', 'Ethanol'), 's*(0.5,0.25,0.25)')
            if kind == 'bubble':
                add(WEM, '+++', **ideal); add(WEM, '++?', **ideal)
                add(WE, '++', secant='raise'); add(WEM, '+++'); add(WEM, '+++', secant='raise', phi='ideal'); add(WEM, '?0?', phi='ideal', pcf='mock')
        seen = set(); uniq = []
        for c in out:
            if c['name'] not in seen:
                seen.add(c['name']); uniq.append(c)
        return uniq
    return configs


def _solver_body(solver):
    kind, meth, which = SOLVERS[solver]

    def body(w, cfg):
        W.reset_caches()
        env = Env(w, cfg)
        saved = (bp_mod.flx, dp_mod.flx, dp_mod.gamma_iter)
        try:
            flx = StubFlx(env, fail=('aitken_secant#0',) if cfg['secant'] == 'raise' else (), k=cfg['k'],
                          fixed_point_positive=(kind == 'dew'))
            h = Harness(env, cfg, kind, flx=flx)
            zvals = plant_z(w, cfg['z'])
            given = spec_leaf(w, h, which)
            z = env.arr(zvals)
            try:
                if cfg.get('via') == 'call':          # BubblePoint(z, P=..) / DewPoint(z, T=..): the observable entry point
                    vals = h.point(z, **{which: given})
                    res, comp = (vals.T, vals.y if kind == 'bubble' else vals.x) if which == 'P' else (vals.P, vals.y if kind == 'bubble' else vals.x)
                    w.ensure('result object: the specification is handed back, IDs and z are those of the call',
                             w.And(w.eq(vals.P if which == 'P' else vals.T, given), vals.IDs == h.point.IDs, w.all_eq(list(vals.z), zvals),
                                   (vals.x if kind == 'bubble' else vals.y) is vals.z))
                else:
                    res, comp = getattr(h.point, meth)(z, given)
            except ValueError as e:
                w.ensure('ValueError only when no component is positive', w.And(*[w.le(v, 0.) for v in zvals]))
                w.canary('canary: ValueError although a component is positive', w.Or(*[w.gt(v, 0.) for v in zvals], False))
                return
            check_point(w, h, zvals, given, which, res, comp)
            w.ensure('frame: the caller\'s z is unchanged', w.all_eq(list(z), zvals))
            w.ensure('frame: domain fields / models of the solver object unchanged', h.frame_ok())
            w.ensure('returned value is positive', w.gt(res, 0.))
            w.canary('canary: returned composition sums to two', w.eq(_total(list(comp)), 2.))
            w.note(result=res, composition=list(comp), flx_calls=dict(flx.counts))
        finally:
            bp_mod.flx, dp_mod.flx, dp_mod.gamma_iter = saved
            env.restore()
            W.reset_caches()
    body.__name__ = f'solve_{solver}'
    return body


_A = ['A-root: flx.aitken_secant / IQ_interpolation return x* > 0 with callback(x*) == 0, last evaluation at x*; '
      'flx.wegstein returns x* with callback(x*) == x*; the requires side of IQ_interpolation (residuals handed over for the '
      'bracket ends are the callback\'s values there) is an obligation on the code under check, not assumed',
      'A-models: Psat_k(T), Tsat_k(P), gamma_k(x,T), phi_k(y,T,P), pcf_k(T,P) uninterpreted positive functions '
      '(gamma, phi equivariant under permutation of the chemical list); dew point: Psat_k >= 1e-16 Pa (below that '
      'DewPoint._T_error replaces the model value); configurations z=s*(..) (concrete composition, arbitrary total): '
      'Psat_k, gamma_k <= 1e12 so that no 1e-32 trace guard of dew_point.py can fire',
      'requires: P in [5e3, 3e6] Pa resp. T in [max(260, Tmin), min(480, Tmax)] K of the solver object; '
      'single component: "returned fractions = zbar" is claimed for sum(z) >= 1e-16 (fn.normalize documents equal fractions below)']

_FUNCS = {
    'Ty': ['BubblePoint.__call__', 'BubblePoint.solve_Ty', 'BubblePoint._T_error', 'BubblePoint._T_error_ideal', 'BubblePoint._Ty_ideal', 'solve_y', 'y_iter'],
    'Py': ['BubblePoint.__call__', 'BubblePoint.solve_Py', 'BubblePoint._P_error', 'BubblePoint._Py_ideal', 'solve_y', 'y_iter'],
    'Tx': ['DewPoint.__call__', 'DewPoint.solve_Tx', 'DewPoint._T_error', 'DewPoint._T_error_ideal', 'DewPoint._Tx_ideal', 'DewPoint._solve_x', 'solve_x', 'gamma_iter'],
    'Px': ['DewPoint.__call__', 'DewPoint.solve_Px', 'DewPoint._P_error', 'DewPoint._Px_ideal', 'DewPoint._solve_x', 'solve_x', 'gamma_iter'],
}
for _s, (_kind, _m, _wh) in SOLVERS.items():
    _mod = 'thermosteam.equilibrium.bubble_point' if _kind == 'bubble' else 'thermosteam.equilibrium.dew_point'
    group(f'C08/{_kind}_{_s}', configs=_configs_for(_s),
          functions=[f'{_mod}:{f}' for f in _FUNCS[_s]] + ['thermosteam.functional:normalize', 'thermosteam.functional:first_true_index'],
          assumptions=_A)(_solver_body(_s))


# --------------------------------------------------------------------------- same solution for k*z, permuted chemicals, T <-> P

OTHER = {'Ty': 'Py', 'Py': 'Ty', 'Tx': 'Px', 'Px': 'Tx'}


def relation_configs(tier):
    out = []
    WE = ('Water', 'Ethanol'); WEM = ('Water', 'Ethanol', 'Methanol')

    def add(solver, rel, IDs=WE, pat='++', gamma='ideal', phi='ideal', pcf='mock', perm=None):
        nm = f"{solver};{rel};{'+'.join(i[:3] for i in IDs)};z={pat};gamma={gamma};phi={phi};pcf={pcf}" + (f";perm={''.join(map(str, perm))}" if perm else '')
        out.append({'name': nm, 'solver': solver, 'rel': rel, 'IDs': list(IDs), 'z': pat, 'gamma': gamma, 'phi': phi, 'pcf': pcf,
                    'perm': perm, 'secant': 'ok', 'k': 0})
    SC = 's*(0.3,0.7)'
    for solver in SOLVERS:
        bubble = SOLVERS[solver][0] == 'bubble'
        pat = '++' if bubble else SC        # dew point: concrete composition with arbitrary total in quick (guard forks)
        add(solver, 'scale', pat=pat)
        add(solver, 'perm', pat=pat, perm=[1, 0])
        add(solver, 'inverse', pat=pat)
        if bubble:
            add(solver, 'scale', gamma='stub'); add(solver, 'perm', gamma='stub', perm=[1, 0]); add(solver, 'inverse', gamma='stub', pcf='stub')
        if tier == 'thorough':
            add(solver, 'scale', pat=pat, phi='stub'); add(solver, 'inverse', pat=pat, phi='stub'); add(solver, 'perm', pat=pat, phi='stub', perm=[1, 0])
            add(solver, 'perm', IDs=WEM, pat='+++' if bubble else 's*(0.2,0.3,0.5)', perm=[2, 0, 1])
            add(solver, 'scale', IDs=WEM, pat='+0+' if bubble else 's*(0.2,0,0.8)')
            if not bubble:
                add(solver, 'scale', pat=SC, gamma='stub'); add(solver, 'perm', pat=SC, gamma='stub', perm=[1, 0]); add(solver, 'inverse', pat=SC, gamma='stub')
                add(solver, 'scale')            # free composition: every guard outcome, in both calls
    return out


@group('C08/same_solution', configs=relation_configs,
       functions=['thermosteam.equilibrium.bubble_point:BubblePoint.solve_Ty', 'thermosteam.equilibrium.bubble_point:BubblePoint.solve_Py',
                  'thermosteam.equilibrium.dew_point:DewPoint.solve_Tx', 'thermosteam.equilibrium.dew_point:DewPoint.solve_Px'],
       assumptions=_A + ['A-root gives no uniqueness: "returns the same value" is proved as "the solution found for the reference '
                         'problem solves the second problem (the root finders of the second call are handed that solution and its '
                         'residual must be 0) and the returned compositions are identical"'])
def same_solution(w, cfg):
    """
    rel = scale:   solve(z) then solve(k*z), k > 0 arbitrary
          perm:    solve(z) then the solver object built for the permuted chemical list with the permuted z
          inverse: P = solve_P(z, T) then solve_T(z, P) must be solved by the original T (and vice versa)
    """
    W.reset_caches()
    env = Env(w, cfg)
    solver = cfg['solver']; rel = cfg['rel']
    kind, meth, which = SOLVERS[solver]
    saved = (bp_mod.flx, dp_mod.flx, dp_mod.gamma_iter)
    try:
        flx1 = StubFlx(env, fixed_point_positive=(kind == 'dew'))
        h = Harness(env, cfg, kind, flx=flx1)
        zvals = plant_z(w, cfg['z'])
        given = spec_leaf(w, h, which)
        res1, comp1 = getattr(h.point, meth)(env.arr(zvals), given)
        comp1 = list(comp1)
        roots1 = dict(flx1.roots)
        h2, z2, given2, meth2, want_res, want_comp = h, zvals, given, meth, res1, comp1
        script = {k: v for k, v in roots1.items()}
        if rel == 'scale':
            k = w.real('k', lo=0., lo_strict=True)
            z2 = [k * v for v in zvals]
        elif rel == 'perm':
            perm = cfg['perm']
            IDs2 = [cfg['IDs'][i] for i in perm]
            h2 = Harness(env, cfg, kind, IDs=IDs2, flx=None)
            z2 = [zvals[i] for i in perm]
            want_comp = [comp1[i] for i in perm]
            script = {k: (env.arr([v[i] for i in perm]) if isinstance(v, np.ndarray) else v) for k, v in roots1.items()}
        elif rel == 'inverse':
            o = OTHER[solver]
            meth2 = SOLVERS[o][1]
            given2, want_res = res1, given
            if which == 'P':     # the computed T must lie in the solver object's temperature domain (solve_Py clips to it)
                w.assume(w.And(w.ge(res1, h.point.Tmin), w.le(res1, h.point.Tmax)))
            script = {k: v for k, v in roots1.items() if k.startswith('wegstein')}
            script['aitken_secant#0'] = given
        flx2 = StubFlx(env, script=script, tag='second problem: ', fixed_point_positive=(kind == 'dew'))
        h2.install(flx2)
        res2, comp2 = getattr(h2.point, meth2)(env.arr(z2), given2)
        w.ensure('second problem returns the value of the first / the original specification', w.eq(res2, want_res))
        w.ensure('second problem returns the same composition', w.all_eq(list(comp2), want_comp))
        w.ensure('frame: solver objects unchanged', w.And(h.frame_ok(), h2.frame_ok()))
        w.canary('canary: second result is the first result + 1', w.eq(res2, want_res + 1.))
        w.note(first=res1, second=res2, calls_first=dict(flx1.counts), calls_second=dict(flx2.counts))
    finally:
        bp_mod.flx, dp_mod.flx, dp_mod.gamma_iter = saved
        env.restore()
        W.reset_caches()


# --------------------------------------------------------------------------- instance cache of BubblePoint / DewPoint

def cache_configs(tier):
    return [{'name': f'{c};{"+".join(IDs)}', 'cls': c, 'IDs': list(IDs)} for c in ('BubblePoint', 'DewPoint')
            for IDs in ([('Water', 'Ethanol')] + ([('Water', 'Ethanol', 'Methanol'), ('Water',)] if tier == 'thorough' else []))]


@group('C08/instance_cache', configs=cache_configs, loop_free=True,
       functions=['thermosteam.equilibrium.bubble_point:BubblePoint.__new__', 'thermosteam.equilibrium.dew_point:DewPoint.__new__',
                  'thermosteam.equilibrium.domain:vle_domain'])
def instance_cache(w, cfg):
    """Two lookups with equal key return the object built from that key; instances depend only on the key (no leaves: concrete)."""
    W.reset_caches()
    try:
        cls = getattr(bp_mod, 'BubblePoint') if cfg['cls'] == 'BubblePoint' else dp_mod.DewPoint
        IDs = tuple(cfg['IDs'])
        th = W.thermo(IDs); thI = ideal_thermo(IDs)
        chems = th.chemicals.tuple
        a = cls(chems, th); b = cls(list(chems), th); c = cls(chems, thI); a2 = cls(chems, th)
        w.ensure('equal key (tuple or list of the same chemicals, same package classes): same object', a is b and a is a2)
        w.ensure('another activity model: another object, built with that model',
                 c is not a and type(c.gamma) is eq.IdealActivityCoefficients and (len(IDs) < 2 or type(a.gamma) is th.Gamma or
                                                                                type(a.gamma) is eq.IdealActivityCoefficients))
        for nm, o in (('first', a), ('ideal', c)):
            w.ensure(f'{nm}: chemicals, IDs, Psats are those of the key, in the order of the key',
                     o.chemicals == chems and o.IDs == IDs and all(p is ch.Psat for p, ch in zip(o.Psats, chems)))
            w.ensure(f'{nm}: temperature / pressure domain comes from the chemicals of the key',
                     (o.Tmin, o.Tmax) == tuple(sys.modules['thermosteam.equilibrium.domain'].vle_domain(chems))
                     and o.Pmin == min(p(o.Tmin) for p in o.Psats) and o.Pmax == max(p(o.Tmax) for p in o.Psats))
        if len(IDs) > 1:
            r = tuple(reversed(chems))
            d = cls(r, th)
            w.ensure('permuted chemical list: another object in that order', d is not a and d.chemicals == r and d.IDs == tuple(reversed(IDs)))
        w.ensure('the two classes do not share their cache', bp_mod.BubblePoint._cached is not dp_mod.DewPoint._cached)
        w.ensure('lookups stay stable after the other objects were built', cls(chems, th) is a and cls(chems, thI) is c)
        w.canary('canary: objects for different activity models are the same object', a is c)
    finally:
        W.reset_caches()


# --------------------------------------------------------------------------- mode B: the real solvers on real data

B_CHEMS = ['Water', 'Ethanol', 'Methanol', 'Propanol', 'Butanol', 'Hexane', 'Heptane', 'Octane', 'Benzene', 'Toluene']
for _i in B_CHEMS:
    W.chemical(_i)          # created before forking
_HC = {'Hexane', 'Heptane', 'Octane', 'Benzene', 'Toluene'}
# pairs for which the Dortmund model predicts a liquid-liquid miscibility gap inside the T range of the property
LLE_PAIRS = {frozenset((a, b)) for a in ('Water',) for b in _HC} | {frozenset(('Methanol', b)) for b in ('Hexane', 'Heptane', 'Octane')}
_b_thermo = {}


def b_thermo(IDs, pkg):
    key = (tuple(IDs), pkg)
    t = _b_thermo.get(key)
    if t is None:
        cs = tmo.Chemicals([W.chemical(i) for i in IDs]); cs.compile()
        t = _b_thermo[key] = (tmo.Thermo(cs) if pkg == 'dortmund' else
                              tmo.Thermo(cs, Gamma=eq.IdealActivityCoefficients, Phi=eq.IdealFugacityCoefficients,
                                         PCF=eq.MockPoyintingCorrectionFactors))
    return t


def _compositions(n, tier):
    if n == 1:
        return [[2.5]]
    zs = [[1. / n] * n, [0.1] + [0.9 / (n - 1)] * (n - 1), [0.9 / (n - 1)] * (n - 1) + [0.1],
          [1e-6] + [1. / (n - 1)] * (n - 1),            # trace component (not normalised)
          [0.] + [1. / (n - 1)] * (n - 1)]               # component at zero (n = 2: single positive component)
    if tier == 'thorough':
        zs += [[(i + 1.) for i in range(n)], [1. / (n - 1)] * (n - 1) + [1e-9], [0.] * (n - 1) + [3.]]
    return zs


_warm = False


def _warm_up():
    """JIT-compile the numba kernels once in the parent (grid_configs runs there, before the native pool is forked), so the
    workers do not each recompile them into the private numba cache."""
    global _warm
    if _warm: return
    _warm = True
    z = np.array([0.4, 0.6])
    for pkg in ('ideal', 'dortmund'):
        th = b_thermo(('Water', 'Ethanol'), pkg)
        BP = eq.BubblePoint(th.chemicals.tuple, th); DP = eq.DewPoint(th.chemicals.tuple, th)
        BP.solve_Ty(z, 101325.); BP.solve_Py(z, 350.); DP.solve_Tx(z, 101325.); DP.solve_Px(z, 350.)
    W.reset_caches()


def grid_configs(tier):
    _warm_up()
    C = B_CHEMS
    subsets = [(c,) for c in C]
    pairs = [('Water', 'Ethanol'), ('Water', 'Methanol'), ('Ethanol', 'Methanol'), ('Ethanol', 'Propanol'), ('Propanol', 'Butanol'),
             ('Hexane', 'Heptane'), ('Heptane', 'Octane'), ('Benzene', 'Toluene'), ('Hexane', 'Benzene'), ('Methanol', 'Benzene'),
             ('Ethanol', 'Hexane'), ('Water', 'Butanol'), ('Water', 'Hexane'), ('Methanol', 'Octane'), ('Toluene', 'Water')]
    triples = [('Water', 'Ethanol', 'Methanol'), ('Hexane', 'Heptane', 'Octane'), ('Benzene', 'Toluene', 'Heptane'),
               ('Ethanol', 'Propanol', 'Butanol'), ('Methanol', 'Ethanol', 'Benzene'), ('Water', 'Ethanol', 'Hexane')]
    quads = [('Water', 'Ethanol', 'Methanol', 'Propanol'), ('Hexane', 'Heptane', 'Octane', 'Benzene'),
             ('Methanol', 'Ethanol', 'Propanol', 'Toluene')]
    if tier == 'thorough':
        pairs = list(itertools.combinations(C, 2))
        triples += [('Water', 'Methanol', 'Butanol'), ('Octane', 'Toluene', 'Propanol'), ('Hexane', 'Benzene', 'Ethanol'),
                    ('Butanol', 'Water', 'Propanol'), ('Methanol', 'Hexane', 'Toluene')]
        quads += [('Water', 'Butanol', 'Benzene', 'Octane'), ('Ethanol', 'Hexane', 'Toluene', 'Methanol')]
    Ps = [2e4, 101325., 5e5] if tier == 'quick' else [5e3, 2e4, 101325., 5e5, 2e6, 3e6]
    Ts = [300., 350., 420.] if tier == 'quick' else [260., 300., 350., 400., 450., 480.]
    ks = [2.] if tier == 'quick' else [0.5, 7., 1e3]
    out = []
    for IDs in subsets + pairs + triples + quads:
        n = len(IDs)
        gap = any(frozenset(p) in LLE_PAIRS for p in itertools.combinations(IDs, 2))
        for pkg in ('ideal', 'dortmund'):
            for zi, z in enumerate(_compositions(n, tier)):
                npos = sum(1 for v in z if v > 0)
                cls = 'single' if npos == 1 else ('LLE-prone' if (gap and pkg == 'dortmund') else 'miscible')
                perms = [list(reversed(range(n)))] if tier == 'quick' else [list(p) for p in itertools.permutations(range(n))][1:6]
                out.append({'name': f"{pkg};{cls};{'+'.join(IDs)};z={','.join(f'{v:g}' for v in z)}", 'IDs': list(IDs), 'pkg': pkg,
                            'z': z, 'Ps': Ps, 'Ts': Ts, 'ks': ks, 'perms': perms if n > 1 else []})
    return out


T_ATOL = 1e-5       # K     (solver: xtol 1e-9 K, ytol 5e-12)
P_RTOL = 1e-6       #       (solver: xtol 1e-3 Pa, ytol 1e-9 / 5e-12)
X_ATOL = 1e-6
RES_TOL = 1e-7


def _close_arr(a, b, tol=X_ATOL):
    a = np.asarray(a, float); b = np.asarray(b, float)
    return a.shape == b.shape and bool(np.all(np.abs(a - b) <= tol))


def _bubble_terms(BP, zb, T, P, y):
    Ps = np.array([p(T) for p in BP.Psats], dtype=float)
    return zb * BP.gamma(zb, T) * BP.pcf(T, P, Ps) * Ps / (BP.phi(y, T, P) * P)


def _dew_terms(DP, zb, T, P, x):
    Ps = np.array([p(T) for p in DP.Psats], dtype=float)
    return zb * DP.phi(zb, T, P) * P / (DP.gamma(x, T) * DP.pcf(T, P, Ps) * Ps)


@group('C08/grid_real_solvers', configs=grid_configs, mode='B',
       functions=['thermosteam.equilibrium.bubble_point:BubblePoint.__call__', 'thermosteam.equilibrium.dew_point:DewPoint.__call__',
                  'thermosteam.equilibrium.bubble_point:BubblePoint.solve_Ty', 'thermosteam.equilibrium.bubble_point:BubblePoint.solve_Py',
                  'thermosteam.equilibrium.dew_point:DewPoint.solve_Tx', 'thermosteam.equilibrium.dew_point:DewPoint.solve_Px',
                  'thermosteam._chemical:Chemical.Tsat'],
       notes='real flexsolve solvers and real property data: 1-4 of 10 volatile chemicals (quick: 10 singles, 15 pairs, 6 triples, '
             '3 quadruples; thorough: all 45 pairs, 11 triples, 5 quadruples), ideal and Dortmund packages, 5 (8) compositions incl. '
             'trace, zero and unnormalised ones, P in {2e4, 101325, 5e5} ({5e3..3e6}) Pa, T in {300, 350, 420} ({260..480}) K, '
             'k in {2} ({0.5, 7, 1e3}), reversed (up to 5) permutations; a specification is skipped when a solver raises RuntimeError or '
             'a computed T / P leaves the quantifier range (T 260-480 K inside the solver object domain, P 5e3-3e6 Pa); '
             'tolerances: T 1e-5 K, P 1e-6 relative, fractions 1e-6, residual 1e-7')
def grid_real_solvers(w, cfg):
    IDs = cfg['IDs']; pkg = cfg['pkg']
    z = np.array(cfg['z'], dtype=float)
    zb = z / z.sum()
    n = len(z)
    th = b_thermo(IDs, pkg)
    chems = th.chemicals.tuple
    BP = eq.BubblePoint(chems, th); DP = eq.DewPoint(chems, th)
    Tlo, Thi = max(260., BP.Tmin), min(480., BP.Tmax)
    single = int(np.sum(z > 0)) == 1
    k1 = int(np.argmax(z > 0))
    evaluated = skipped = 0

    def others(tag, which, spec, Tb, y, Td, x):
        """k*z and permutations give the same points."""
        for k in cfg['ks']:
            for nm, f, ref, rc in (('bubble', BP.solve_Ty if which == 'P' else BP.solve_Py, Tb, y),
                                   ('dew', DP.solve_Tx if which == 'P' else DP.solve_Px, Td, x)):
                r2, c2 = f(k * z, spec)
                ok = (abs(r2 - ref) <= T_ATOL) if which == 'P' else (abs(r2 / ref - 1.) <= P_RTOL)
                w.ensure(f'{tag}{nm}: same point for k*z', ok and _close_arr(c2, rc), k=k, z=ref, kz=r2)
        for pi, perm in enumerate(cfg['perms']):
            IDs2 = [IDs[i] for i in perm]
            th2 = b_thermo(IDs2, pkg)
            BP2 = eq.BubblePoint(th2.chemicals.tuple, th2); DP2 = eq.DewPoint(th2.chemicals.tuple, th2)
            z2 = z[perm]
            for nm, f, ref, rc in (('bubble', BP2.solve_Ty if which == 'P' else BP2.solve_Py, Tb, y),
                                   ('dew', DP2.solve_Tx if which == 'P' else DP2.solve_Px, Td, x)):
                r2, c2 = f(z2.copy(), spec)
                ok = (abs(r2 - ref) <= T_ATOL) if which == 'P' else (abs(r2 / ref - 1.) <= P_RTOL)
                w.ensure(f'{tag}{nm}: same point for the permuted chemical list', ok and _close_arr(c2, np.asarray(rc)[perm]),
                         perm=perm, original=ref, permuted=r2)

    for P in cfg['Ps']:
        tag = f'P={P:g}: '
        zin = z.copy()
        try:
            b = BP(zin, P=P); d = DP(zin, P=P)          # the observable entry point: result objects
        except RuntimeError:
            skipped += 1; continue
        Tb, y, Td, x = b.T, b.y, d.T, d.x
        w.ensure(f'{tag}result objects hand back P, IDs and z', b.P == P and d.P == P and b.IDs == tuple(c.ID for c in chems) == d.IDs
                 and bool(np.all(b.z == z)) and bool(np.all(d.z == z)))
        if not (Tlo <= Tb <= Thi and Tlo <= Td <= Thi):
            skipped += 1; continue
        evaluated += 1
        w.ensure(f'{tag}frame: z unchanged', bool(np.all(zin == z)))
        w.ensure(f'{tag}bubble: y sums to one', abs(y.sum() - 1.) <= 1e-9, y=y)
        w.ensure(f'{tag}dew: x sums to one', abs(x.sum() - 1.) <= 1e-9, x=x)
        if single:
            c = chems[k1]
            if P <= c.Pc:
                Ts = c.Tsat(P, check_validity=False)
                w.ensure(f'{tag}bubble: single component gives Tsat', Tb == Ts and _close_arr(y, zb, 0.), Tb=Tb, Tsat=Ts)
                w.ensure(f'{tag}dew: single component gives Tsat', Td == Ts and _close_arr(x, zb, 0.), Td=Td, Tsat=Ts)
        else:
            tb = _bubble_terms(BP, zb, Tb, P, y); td = _dew_terms(DP, zb, Td, P, x)
            w.ensure(f'{tag}bubble: Raoult fractions sum to one (residual)', abs(1. - tb.sum()) <= RES_TOL, residual=1. - tb.sum(), T=Tb)
            w.ensure(f'{tag}bubble: y are the Raoult fractions', _close_arr(y, tb), y=y, raoult=tb)
            w.ensure(f'{tag}dew: Raoult fractions sum to one (residual)', abs(1. - td.sum()) <= RES_TOL, residual=1. - td.sum(), T=Td)
            w.ensure(f'{tag}dew: x are the Raoult fractions', _close_arr(x, td), x=x, raoult=td)
        w.ensure(f'{tag}bubble T <= dew T', Tb <= Td + T_ATOL, Tb=Tb, Td=Td)
        Pb2, _ = BP.solve_Py(z.copy(), Tb); Pd2, _ = DP.solve_Px(z.copy(), Td)
        w.ensure(f'{tag}bubble: P(T(P)) = P', abs(Pb2 / P - 1.) <= 10 * P_RTOL, P_back=Pb2, T=Tb)
        w.ensure(f'{tag}dew: P(T(P)) = P', abs(Pd2 / P - 1.) <= 10 * P_RTOL, P_back=Pd2, T=Td)
        others(tag, 'P', P, Tb, y, Td, x)

    for T in cfg['Ts']:
        tag = f'T={T:g}: '
        if not (Tlo <= T <= Thi):
            skipped += 1; continue
        zin = z.copy()
        try:
            b = BP(zin, T=T); d = DP(zin, T=T)
        except RuntimeError:
            skipped += 1; continue
        Pb, y, Pd, x = b.P, b.y, d.P, d.x
        w.ensure(f'{tag}result objects hand back T, IDs and z', b.T == T and d.T == T and b.IDs == tuple(c.ID for c in chems) == d.IDs
                 and bool(np.all(b.z == z)) and bool(np.all(d.z == z)))
        if not (5e3 <= Pb <= 3e6 and 5e3 <= Pd <= 3e6):
            skipped += 1; continue
        evaluated += 1
        w.ensure(f'{tag}frame: z unchanged', bool(np.all(zin == z)))
        w.ensure(f'{tag}bubble: y sums to one', abs(y.sum() - 1.) <= 1e-9, y=y)
        w.ensure(f'{tag}dew: x sums to one', abs(x.sum() - 1.) <= 1e-9, x=x)
        if single:
            c = chems[k1]
            if T <= c.Tc:
                Ps = c.Psat(T)
                w.ensure(f'{tag}bubble: single component gives Psat', Pb == Ps and _close_arr(y, zb, 0.), Pb=Pb, Psat=Ps)
                w.ensure(f'{tag}dew: single component gives Psat', Pd == Ps and _close_arr(x, zb, 0.), Pd=Pd, Psat=Ps)
        else:
            tb = _bubble_terms(BP, zb, T, Pb, y); td = _dew_terms(DP, zb, T, Pd, x)
            w.ensure(f'{tag}bubble: Raoult fractions sum to one (residual)', abs(1. - tb.sum()) <= RES_TOL, residual=1. - tb.sum(), P=Pb)
            w.ensure(f'{tag}bubble: y are the Raoult fractions', _close_arr(y, tb), y=y, raoult=tb)
            w.ensure(f'{tag}dew: Raoult fractions sum to one (residual)', abs(1. - td.sum()) <= RES_TOL, residual=1. - td.sum(), P=Pd)
            w.ensure(f'{tag}dew: x are the Raoult fractions', _close_arr(x, td), x=x, raoult=td)
        w.ensure(f'{tag}dew P <= bubble P', Pd <= Pb * (1. + P_RTOL), Pb=Pb, Pd=Pd)
        Tb2, _ = BP.solve_Ty(z.copy(), Pb); Td2, _ = DP.solve_Tx(z.copy(), Pd)
        w.ensure(f'{tag}bubble: T(P(T)) = T', abs(Tb2 - T) <= 10 * T_ATOL, T_back=Tb2, P=Pb)
        w.ensure(f'{tag}dew: T(P(T)) = T', abs(Td2 - T) <= 10 * T_ATOL, T_back=Td2, P=Pd)
        others(tag, 'T', T, Pb, y, Pd, x)
    w.note(evaluated=evaluated, skipped=skipped)


# --------------------------------------------------------------------------- mode B: the bracketing fall-back of the real solvers

F_CHEMS = B_CHEMS + ['AceticAcid', 'Acetone']
for _i in F_CHEMS:
    W.chemical(_i)          # created before forking

# Inputs (solver, package, chemicals, z, specification) on which the REAL flx.aitken_secant of the solver leaves the feasible
# region (InfeasibleRegion, a RuntimeError) on the reference tree, so that the answer comes from the bracketing fall-back
# (flx.IQ_interpolation over the whole domain of the solver object).  Found by the pseudo-random search that the thorough tier
# repeats (`_fallback_draws`, seeds 11-14: about 0.2 % of the dew-temperature and 0.6 % of the dew-pressure draws with the
# Dortmund package, 0.01 % with the ideal one); kept: draws without an LLE-prone pair (F-C08-K1 is about those).  Whether
# the fall-back is still reached is noted in the evidence (w.note), it is not a clause.
FALLBACK_INPUTS = [
    ('Px', 'dortmund', ['Ethanol', 'Hexane', 'Benzene', 'Acetone'], [0.2862505099657956, 0.0006259813129678727, 0.38239269273202203, 0.33073081598921444], 276.08319561586785),
    ('Px', 'dortmund', ['Octane', 'Heptane', 'AceticAcid', 'Toluene'], [0.2883643452654656, 0.026425176775788258, 0.37599067228507105, 0.30921980567367496], 374.20427726579777),
    ('Px', 'dortmund', ['Propanol', 'Hexane', 'Octane', 'Butanol', 'Acetone'], [0.1903582802374486, 0.1513004626994523, 0.44785252185640817, 0.08358098380512574, 0.12690775140156524], 300.41091214762),
    ('Px', 'dortmund', ['Heptane', 'Propanol', 'Toluene', 'Butanol'], [0.6387893082741746, 0.15273145165556398, 0.08221876971194524, 0.12626047035831622], 342.0674536869175),
    ('Tx', 'dortmund', ['AceticAcid', 'Heptane', 'Octane'], [0.300325560675727, 0.6337822427942789, 0.06589219652999409], 8016.7699432079835),
    ('Px', 'dortmund', ['AceticAcid', 'Toluene', 'Heptane', 'Hexane', 'Ethanol'], [0.08364925607754628, 0.11617607706062814, 0.09058477217069909, 0.49887737221470435, 0.21071252247642214], 296.58948768141204),
    ('Px', 'dortmund', ['Benzene', 'Propanol', 'Octane'], [0.45026323000921115, 0.4035191247578234, 0.14621764523296543], 338.6932671655977),
    ('Px', 'dortmund', ['Ethanol', 'Octane', 'Benzene', 'Butanol', 'AceticAcid'], [0.08111368544029868, 0.2273952803079572, 0.5055766226654278, 0.06870424065670397, 0.11721017092961224], 299.3218389111378),
    ('Px', 'dortmund', ['Acetone', 'Ethanol', 'Octane', 'Hexane'], [0.2912366976830301, 0.46907231394039545, 0.09890487981255723, 0.1407861085640173], 355.1141691443452),
    ('Px', 'dortmund', ['Toluene', 'Butanol', 'Heptane'], [0.4015664521152152, 0.3237710640703055, 0.2746624838144793], 380.6162949964913),
    ('Tx', 'dortmund', ['AceticAcid', 'Heptane'], [0.36910863371867314, 0.6308913662813269], 781798.1128985295),
    ('Px', 'dortmund', ['AceticAcid', 'Ethanol', 'Acetone', 'Heptane'], [0.04986044231305053, 0.15838902343931144, 0.5211840910312417, 0.27056644321639617], 278.98160813668585),
    ('Px', 'dortmund', ['Octane', 'Heptane', 'Ethanol', 'Propanol', 'AceticAcid'], [0.03842952892712061, 0.385307371809286, 0.39518476709121536, 0.16292356240416972, 0.01815476976820816], 408.3869931970888),
    ('Px', 'dortmund', ['Butanol', 'Heptane', 'AceticAcid', 'Hexane', 'Octane'], [0.3490043062180288, 0.3588799000472585, 0.09513709892366796, 0.06765704477679822, 0.12932165003424678], 373.08083755010944),
    ('Px', 'dortmund', ['Hexane', 'Benzene', 'AceticAcid', 'Toluene', 'Butanol'], [0.12250652262197628, 0.2065840890420386, 0.13245874356328122, 0.21673476673111935, 0.3217158780415845], 471.9757151760248),
    ('Px', 'dortmund', ['Ethanol', 'Benzene', 'Acetone', 'Heptane'], [0.1692976062634688, 0.11917881872145165, 0.5439832600161324, 0.16754031499894728], 352.931615341987),
    ('Tx', 'dortmund', ['Toluene', 'Ethanol', 'Octane'], [0.2871130941557279, 0.6133810742456769, 0.09950583159859526], 1243306.9654224426),
    ('Px', 'dortmund', ['Benzene', 'Butanol', 'Heptane', 'AceticAcid', 'Hexane'], [0.17536979510877349, 0.03167554002786144, 0.48810732391140643, 0.08477948827811745, 0.22006785267384116], 286.43705584498286),
    ('Px', 'dortmund', ['Butanol', 'Octane'], [0.5318679763527219, 0.468132023647278], 364.226966433332),
    ('Tx', 'dortmund', ['Propanol', 'Toluene', 'Acetone'], [0.2672376550357289, 0.38372436690788475, 0.34903797805638653], 1059542.7967828347),
    ('Px', 'dortmund', ['Toluene', 'Heptane', 'Butanol', 'Propanol'], [0.03321932725340572, 0.576553380854967, 0.051450634549405495, 0.3387766573422219], 366.65140569850894),
    ('Px', 'dortmund', ['Butanol', 'Ethanol', 'Heptane', 'Acetone'], [0.1871612155473391, 0.23715926965809392, 0.46167343537779554, 0.1140060794167715], 372.3491898293933),
    ('Px', 'dortmund', ['Toluene', 'Hexane', 'Heptane', 'Ethanol'], [0.1751007897072892, 0.0642354344089202, 0.29525989929174856, 0.4654038765920419], 294.42171843684537),
    ('Px', 'dortmund', ['Octane', 'Butanol', 'AceticAcid', 'Hexane', 'Ethanol'], [0.22532769384728402, 0.32381587372979975, 0.192833919355172, 0.04365270353455048, 0.21436980953319365], 457.0611953587284),
    ('Px', 'dortmund', ['Methanol', 'Benzene'], [0.631638276780601, 0.3683617232193988], 294.79977913927775),
    ('Px', 'dortmund', ['Ethanol', 'Benzene', 'Butanol', 'Methanol'], [0.033805188838101276, 0.4324173076123724, 0.0004696333783302734, 0.533307870171196], 324.1922249872615),
    ('Tx', 'dortmund', ['Benzene', 'Toluene', 'Ethanol'], [0.20183743848604388, 0.14422278613065612, 0.6539397753833001], 370410.4460065749),
    ('Px', 'dortmund', ['Ethanol', 'Acetone', 'Methanol', 'Toluene'], [0.28160720314616267, 0.16962963195398847, 0.356611321464303, 0.1921518434355459], 323.12468164006356),
    ('Tx', 'dortmund', ['Hexane', 'Propanol'], [0.7889840245819782, 0.21101597541802175], 236186.59819582445),
    ('Tx', 'ideal', ['Propanol', 'AceticAcid', 'Toluene'], [0.004294729048110047, 0.8067941226046546, 0.18891114834723546], 758900.5728215635),
]


def _lle_prone(IDs):
    return any(frozenset(p) in LLE_PAIRS for p in itertools.combinations(IDs, 2))


def _fallback_draws(seed, n, pkg):
    """Deterministic pseudo-random draws: 2-5 of the 12 chemicals, Dirichlet(1) composition, P log-uniform in 5e3-3e6 Pa,
    T uniform in 260-480 K; every draw is posed to the four solvers."""
    rng = np.random.default_rng(seed)
    out = []
    for _ in range(n):
        m = int(rng.integers(2, 6))
        IDs = [str(i) for i in rng.choice(F_CHEMS, m, replace=False)]
        z = [float(v) for v in rng.dirichlet(np.ones(m))]
        P = float(np.exp(rng.uniform(np.log(5e3), np.log(3e6)))); T = float(rng.uniform(260., 480.))
        if _lle_prone(IDs): continue
        for s in ('Ty', 'Tx', 'Py', 'Px'):
            out.append((s, pkg, IDs, z, P if s[0] == 'T' else T))
    return out


def fallback_configs(tier):
    _warm_up()
    inputs = [tuple(i) for i in FALLBACK_INPUTS]
    if tier == 'thorough':
        seed = int(os.environ.get('VERIF_SEED', '0'))
        inputs += _fallback_draws(1000 + seed, 1000, 'dortmund') + _fallback_draws(2000 + seed, 300, 'ideal')
    out = []
    for n, (s, pkg, IDs, z, spec) in enumerate(inputs):
        out.append({'name': f"{s};{pkg};{'+'.join(IDs)};z={','.join(f'{v:.4g}' for v in z)};{'P' if s[0] == 'T' else 'T'}={spec:.6g}",
                    'solver': s, 'pkg': pkg, 'IDs': list(IDs), 'z': [float(v) for v in z], 'spec': float(spec), 'k': 2.})
    return out


class CountingFlx:
    """flexsolve itself; counts the bracketing solves that were handed an initial guess (only the fall-back branches do)."""

    def __init__(self, real):
        self.real = real
        self.fallbacks = 0

    def IQ_interpolation(self, f, x0, x1, y0=None, y1=None, x=None, *args, **kw):
        if x is not None: self.fallbacks += 1
        return self.real.IQ_interpolation(f, x0, x1, y0, y1, x, *args, **kw)

    def __getattr__(self, name):
        return getattr(self.real, name)


@group('C08/fallback_real_solvers', configs=fallback_configs, mode='B',
       functions=['thermosteam.equilibrium.bubble_point:BubblePoint.solve_Ty', 'thermosteam.equilibrium.bubble_point:BubblePoint.solve_Py',
                  'thermosteam.equilibrium.dew_point:DewPoint.solve_Tx', 'thermosteam.equilibrium.dew_point:DewPoint.solve_Px'],
       notes='real flexsolve solvers and real property data on inputs whose secant solve fails, so that the bracketing fall-back '
             '(IQ interpolation over the whole domain of the solver object) produces the answer: quick: the listed inputs '
             '(2-5 of 12 chemicals, Dortmund and ideal packages, no LLE-prone pair), thorough: additionally 1000 (Dortmund) + 300 (ideal) pseudo-random '
             'draws (VERIF_SEED) posed to the four solvers.  A specification is inside the quantifier when the INVERSE solver at '
             'the two ends of the range brackets it (P between the pressures at max(260, Tmin) and min(480, Tmax) K resp. T '
             'between the temperatures at 5e3 and 3e6 Pa) - decided without looking at the computed value, so that a wrong answer '
             'outside the range is not skipped; skipped when a solver raises RuntimeError.  Tolerances as in grid_real_solvers')
def fallback_real_solvers(w, cfg):
    IDs = cfg['IDs']; pkg = cfg['pkg']; s = cfg['solver']; spec = cfg['spec']
    z = np.array(cfg['z'], dtype=float)
    zb = z / z.sum()
    th = b_thermo(IDs, pkg)
    chems = th.chemicals.tuple
    BP = eq.BubblePoint(chems, th); DP = eq.DewPoint(chems, th)
    Tlo, Thi = max(260., BP.Tmin), min(480., BP.Tmax)
    bubble = s[1] == 'y'; givenP = s[0] == 'T'
    name = 'bubble' if bubble else 'dew'

    def solvers(B, D):
        return {'Ty': B.solve_Ty, 'Py': B.solve_Py, 'Tx': D.solve_Tx, 'Px': D.solve_Px}
    S = solvers(BP, DP)

    def inside(solver, v):
        """Is the specification v of `solver` between the values its inverse gives at the two ends of the range?"""
        inv = S[OTHER[solver]]
        lo, hi = (Tlo, Thi) if solver[0] == 'T' else (5e3, 3e6)
        a, _ = inv(z.copy(), lo); b, _ = inv(z.copy(), hi)
        if solver[0] == 'P' and not (Tlo <= v <= Thi): return False
        return a <= v <= b

    def close(a, b, isT=givenP):
        return abs(a - b) <= 10 * T_ATOL if isT else abs(a / b - 1.) <= 10 * P_RTOL

    saved = (bp_mod.flx, dp_mod.flx)
    counting = CountingFlx(saved[0])
    try:
        if not inside(s, spec):
            w.note(skipped='specification outside the range'); return
        bp_mod.flx = dp_mod.flx = counting
        zin = z.copy()
        res, comp = S[s](zin, spec)
        bp_mod.flx, dp_mod.flx = saved
        reached = counting.fallbacks
        T, P = (res, spec) if givenP else (spec, res)
        w.ensure('frame: z unchanged', bool(np.all(zin == z)))
        w.ensure(f'{name}: returned fractions sum to one', abs(comp.sum() - 1.) <= 1e-9, composition=comp)
        terms = _bubble_terms(BP, zb, T, P, comp) if bubble else _dew_terms(DP, zb, T, P, comp)
        w.ensure(f'{name}: Raoult fractions sum to one (residual)', abs(1. - terms.sum()) <= RES_TOL, residual=1. - terms.sum(), T=T, P=P)
        w.ensure(f'{name}: returned fractions are the Raoult fractions', _close_arr(comp, terms), returned=comp, raoult=terms)
        back, _ = S[OTHER[s]](z.copy(), res)
        w.ensure(f"{name}: {'P(T(P)) = P' if givenP else 'T(P(T)) = T'}", close(back, spec, not givenP), back=back, spec=spec, computed=res)
        # the other saturation point at the same specification: bubble T <= dew T, dew P <= bubble P
        o = {'Ty': 'Tx', 'Tx': 'Ty', 'Py': 'Px', 'Px': 'Py'}[s]
        if inside(o, spec):
            other, _ = S[o](z.copy(), spec)
            b_, d_ = (res, other) if bubble else (other, res)
            if givenP: w.ensure('bubble T <= dew T', b_ <= d_ + T_ATOL, Tb=b_, Td=d_)
            else: w.ensure('dew P <= bubble P', d_ <= b_ * (1. + P_RTOL), Pb=b_, Pd=d_)
        # normalised composition only, any order of the chemical list
        r2, c2 = S[s](cfg['k'] * z, spec)
        w.ensure(f'{name}: same point for k*z', close(r2, res) and _close_arr(c2, comp), k=cfg['k'], z=res, kz=r2)
        perm = list(reversed(range(len(IDs))))
        th2 = b_thermo([IDs[i] for i in perm], pkg)
        r3, c3 = solvers(eq.BubblePoint(th2.chemicals.tuple, th2), eq.DewPoint(th2.chemicals.tuple, th2))[s](z[perm].copy(), spec)
        w.ensure(f'{name}: same point for the permuted chemical list', close(r3, res) and _close_arr(c3, comp[perm]), original=res, permuted=r3)
        w.note(fallback_reached=bool(reached), computed=res)
    except RuntimeError as e:
        w.note(skipped=f'solver raised {type(e).__name__}')
    finally:
        bp_mod.flx, dp_mod.flx = saved
