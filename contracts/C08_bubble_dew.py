# -*- coding: utf-8 -*-
"""
C08 — bubble and dew points satisfy their equations and bracket the two-phase region.

Mode S (DESIGN 4/C08): the REAL BubblePoint.solve_Ty / solve_Py and DewPoint.solve_Tx / solve_Px
(with _T_error / _P_error / _T_error_ideal, _Ty_ideal / _Tx_ideal, _Py_ideal / _Px_ideal, solve_y / y_iter,
solve_x / gamma_iter, fn.normalize, fn.first_true_index) are executed on a private BubblePoint / DewPoint
instance.  What is replaced (assumed contracts, DESIGN 2.6):

  A-root        flx.aitken_secant / flx.IQ_interpolation return a fresh x* > 0 with callback(x*) == 0; they call
                nothing but the supplied callback (k "probe" evaluations at arbitrary points first), the LAST
                evaluation is the one at x* (true of flexsolve's converged exits).  A configuration can make the
                first secant call raise RuntimeError (drives the bracketing fall-back branch).
                flx.wegstein returns x* with callback(x*) == x* (a concrete start value that already is a fixed
                point is returned: A-root-stay).
  A-models      Psat_k(T), Tsat_k(P), gamma_k(x, T), phi_k(y, T, P), pcf_k(T, P) are uninterpreted positive
                functions (gamma/phi take the composition in a canonical order of the chemicals, i.e. the models are
                assumed to be equivariant under permutation of the chemical list; C16 looks at that).
                Configurations also run the real Ideal/Mock coefficient classes.

The clauses are the sentences of the property with the *normalised* composition zbar = z / sum(z):
  bubble:  sum_k zbar_k gamma_k(zbar,T) pcf_k Psat_k(T) / (phi_k(y,T,P) P) = 1,  y_k = that term,  sum y = 1
  dew:     sum_k zbar_k phi_k(zbar,T,P) P / (gamma_k(x~,T) pcf_k Psat_k(T))  = 1,  x_k = that term,  sum x = 1
  single positive component: T = Tsat_k(P) (P <= Pc) resp. P = Psat_k(T) (T <= Tc) and y = zbar
  the solution found for z solves the problem posed for k*z, for the permuted chemical list, and the T-problem at
  the P obtained from T (and vice versa) — with identical compositions returned.
Frame: the caller's z and the solver object's domain fields are unchanged.

Mode B (bounded, never counted as proved): the real solvers on real property data, deterministic grid.
"""
import os
import sys
import itertools
import numpy as np
import thermosteam as tmo
from thermosteam import equilibrium as eq
from engine.api import group
from engine.sx import tmo_world as W

# the VCs are nonlinear (products / quotients of model values): try a fresh one-shot solver first (engine opt-in, same
# verdicts) and hand branch-feasibility queries over to it early (this process only), as C02 does
os.environ.setdefault('VERIF_PROVE_FRESH_MS', '5000')
os.environ.setdefault('VERIF_PROVE_FRESH_ORDER', 'default,nlsat')
if 'VERIF_BRANCH_TIMEOUT_MS' not in os.environ:
    from engine.sx import sym as _sym
    _sym.BRANCH_TIMEOUT_MS = 400

bp_mod = sys.modules['thermosteam.equilibrium.bubble_point']
dp_mod = sys.modules['thermosteam.equilibrium.dew_point']

# --------------------------------------------------------------------------- packages (built before forking)

S_PKGS = [('Water',), ('Water', 'Ethanol'), ('Ethanol', 'Water'), ('Water', 'Ethanol', 'Methanol'),
          ('Methanol', 'Water', 'Ethanol')]
W.preload(S_PKGS)
_IDEAL = {}


def ideal_thermo(IDs):
    """Thermo on the shared compiled chemicals with the real Ideal / Mock coefficient classes."""
    IDs = tuple(IDs)
    t = _IDEAL.get(IDs)
    if t is None:
        t = _IDEAL[IDs] = tmo.Thermo(W.thermo(IDs).chemicals, Gamma=eq.IdealActivityCoefficients,
                                     Phi=eq.IdealFugacityCoefficients, PCF=eq.MockPoyintingCorrectionFactors)
    return t


for _p in S_PKGS:
    ideal_thermo(_p)

_MISSING = object()


def _is_sym(v):
    return type(v).__name__ in ('SymReal', 'SymBool')


def _has_sym(x):
    if _is_sym(x): return True
    if isinstance(x, np.ndarray):
        return x.dtype == object and any(_is_sym(i) for i in x.flat)
    if isinstance(x, (list, tuple)):
        return any(_has_sym(i) for i in x)
    return False


class Env:
    """Per-path source of fresh leaves + registry of patches to undo."""

    def __init__(self, w, cfg):
        self.w = w
        self.cfg = cfg
        self.n = 0
        self.saved = []

    def leaf(self, tag, **kw):
        self.n += 1
        return self.w.real(f'v{self.n}.{tag}', **kw)

    def pos(self, tag):
        return self.leaf(tag, lo=0., lo_strict=True)

    def arr(self, xs):
        return np.array(list(xs), dtype=object if self.w.symbolic else float)

    def patch(self, obj, name, value):
        old = obj.__dict__.get(name, _MISSING) if hasattr(obj, '__dict__') else getattr(obj, name, _MISSING)
        self.saved.append((obj, name, old))
        setattr(obj, name, value)

    def restore(self):
        for obj, name, old in reversed(self.saved):
            if old is _MISSING:
                try: delattr(obj, name)
                except AttributeError: pass
            else:
                setattr(obj, name, old)
        self.saved = []


# --------------------------------------------------------------------------- A-models

class StubPsat:
    """Vapour pressure handle: uninterpreted positive function of T; keeps the real handle's Tmin / Tmax."""

    def __init__(self, env, ID, real, floor):
        self.env = env; self.ID = ID
        self.Tmin = real.Tmin; self.Tmax = real.Tmax
        self.floor = floor

    def __call__(self, T, P=None):
        w = self.env.w
        v = w.fn(f'Psat.{self.ID}', positive=True)(T)
        if self.floor:
            # DewPoint._T_error replaces vapour pressures below 1e-16 Pa ("prevent floating point error"); the
            # property's equation is about the model's Psat, so such models are outside the requires.
            w.assume(w.ge(v, 1e-16))
        _rng(self.env, v, 'Psat')
        return v

    def __bool__(self): return True


# 'ranges' configurations: physically generous bounds on the model values (requires), under which none of the
# 1e-32 / 1e-16 floating-point guards of dew_point.py can fire; the other configurations leave the models unbounded
# and explore every guard outcome.
RANGES = {'Psat': (1e-3, 1e8), 'gamma': (1e-3, 1e3), 'phi': (1e-2, 1e2), 'pcf': (1e-1, 1e1)}


def _rng(env, v, what):
    if env.cfg.get('ranges'):
        lo, hi = RANGES[what]
        env.w.assume(env.w.And(env.w.ge(v, lo), env.w.le(v, hi)))
    return v


def _canon(order, xs):
    xs = list(xs)
    return [xs[i] for i in order]


class StubGamma:
    """gamma_k(x, T): uninterpreted positive functions; records the evaluations made by the code under check."""
    args = ()

    def __init__(self, env, IDs):
        self.env = env; self.IDs = tuple(IDs)
        self.order = sorted(range(len(IDs)), key=lambda i: IDs[i])
        self.calls = []
        self.recording = True

    def _f(self, x, T, *args):
        w = self.env.w
        xs = list(x)
        cx = _canon(self.order, xs)
        out = [_rng(self.env, w.fn(f'gamma.{ID}', positive=True)(*cx, T), 'gamma') for ID in self.IDs]
        if self.recording:
            self.calls.append((xs, T, out))
        return self.env.arr(out)

    @property
    def f(self): return self._f

    def __call__(self, x, T): return self._f(x, T)


class StubPhi:
    def __init__(self, env, IDs):
        self.env = env; self.IDs = tuple(IDs)
        self.order = sorted(range(len(IDs)), key=lambda i: IDs[i])

    def __call__(self, y, T, P):
        w = self.env.w
        cy = _canon(self.order, y)
        return self.env.arr([_rng(self.env, w.fn(f'phi.{ID}', positive=True)(*cy, T, P), 'phi') for ID in self.IDs])


class StubPCF:
    def __init__(self, env, IDs):
        self.env = env; self.IDs = tuple(IDs)

    def __call__(self, T, P, Psats=None):
        w = self.env.w
        return self.env.arr([_rng(self.env, w.fn(f'pcf.{ID}', positive=True)(T, P), 'pcf') for ID in self.IDs])


# --------------------------------------------------------------------------- A-root

class StubFlx:
    """Contract stubs of the flexsolve entry points used by bubble_point.py / dew_point.py."""

    def __init__(self, env, fail=(), k=0, script=None, tag='', fixed_point_positive=False):
        self.env = env
        self.fixed_point_positive = fixed_point_positive   # dew point: the iterate is gamma (> 0); bubble point: y (>= 0)
        self.fail = set(fail)
        self.k = k
        self.script = script        # {call key: value found for the reference problem} -> verify instead of assume
        self.roots = {}
        self.counts = {}
        self.tag = tag

    def _key(self, kind):
        n = self.counts.get(kind, 0)
        self.counts[kind] = n + 1
        return f'{kind}#{n}'

    def _scalar_root(self, kind, f, args):
        w = self.env.w
        key = self._key(kind)
        if key in self.fail:
            raise RuntimeError(f'{key}: failed to converge (stub)')
        if self.script is not None and key in self.script:
            x = self.script[key]
            r = f(x, *args)
            w.ensure(f'{self.tag}{key}: the solution of the reference problem solves this one', w.eq(r, 0.))
            self.roots[key] = x
            return x
        for j in range(self.k):
            f(self.env.pos(f'{key}.probe{j}'), *args)
        x = self.env.pos(f'{key}.root')
        r = f(x, *args)
        w.assume(w.eq(r, 0.))
        self.roots[key] = x
        return x

    def aitken_secant(self, f, x0, x1=None, xtol=0., ytol=5e-8, args=(), maxiter=50, checkroot=False, checkiter=True):
        return self._scalar_root('aitken_secant', f, args)

    def IQ_interpolation(self, f, x0, x1, y0=None, y1=None, x=None, xtol=0., ytol=5e-8, args=(), maxiter=50,
                         checkroot=False, checkiter=True, checkbounds=True):
        return self._scalar_root('IQ_interpolation', f, args)

    def wegstein(self, f, x, xtol=5e-8, args=(), maxiter=50, checkiter=True, checkconvergence=True, convergenceiter=0):
        w = self.env.w
        key = self._key('wegstein')
        if not _has_sym(x):
            r = f(x, *args)                                  # A-root-stay (ideal models: the start value 1.0 stays)
            if not _has_sym(r) and np.all(np.asarray(r, dtype=float) == np.asarray(x, dtype=float)):
                return r
        n = len(x)
        if self.script is not None and key in self.script:
            xs = self.script[key]
            r = f(xs, *args)
            w.ensure(f'{self.tag}{key}: the fixed point of the reference problem is one of this problem', w.all_eq(list(r), list(xs)))
            self.roots[key] = xs
            return xs
        xs = self.env.arr([self.env.leaf(f'{key}.x{i}', lo=0., lo_strict=self.fixed_point_positive) for i in range(n)])
        r = f(xs, *args)
        w.assume(w.all_eq(list(r), list(xs)))
        self.roots[key] = xs
        return xs

    def __getattr__(self, name):
        raise AssertionError(f'unexpected flexsolve call: {name}')


# --------------------------------------------------------------------------- harness

SOLVERS = {'Ty': ('bubble', 'solve_Ty', 'P'), 'Py': ('bubble', 'solve_Py', 'T'),
           'Tx': ('dew', 'solve_Tx', 'P'), 'Px': ('dew', 'solve_Px', 'T')}


def _tsat_stub(env):
    def Tsat(self, P, Tguess=None, Tmin=None, Tmax=None, *, check_validity=True):
        return env.w.fn(f'Tsat.{self.ID}', positive=True)(P)
    return Tsat


class Harness:
    """Private BubblePoint / DewPoint on real compiled chemicals with stubbed models and root finders."""

    def __init__(self, env, cfg, kind, IDs=None, flx=None):
        self.env = env; w = env.w
        self.kind = kind
        self.IDs = IDs = tuple(IDs or cfg['IDs'])
        self.chems = chems = W.thermo(IDs).chemicals.tuple
        cls = bp_mod.BubblePoint if kind == 'bubble' else dp_mod.DewPoint
        cls._cached.clear()
        self.point = pt = cls(chems, ideal_thermo(IDs))          # real __new__ on real data (concrete domain fields)
        cls._cached.clear()                                        # the instance is private to this path
        for c in chems:
            if not isinstance(c._Psat, StubPsat):
                env.patch(c, '_Psat', StubPsat(env, c.ID, c._Psat, floor=(kind == 'dew')))
        pt.Psats = [c.Psat for c in chems]
        if not getattr(env, 'tsat_patched', False):
            env.patch(tmo.Chemical, 'Tsat', _tsat_stub(env))
            env.tsat_patched = True
        if cfg.get('gamma', 'stub') == 'stub': pt.gamma = StubGamma(env, IDs)
        if cfg.get('phi', 'stub') == 'stub': pt.phi = StubPhi(env, IDs)
        if cfg.get('pcf', 'stub') == 'stub': pt.pcf = StubPCF(env, IDs)
        self.frame0 = self._frame()
        self.flx = flx
        self.install(flx)

    def install(self, flx):
        env = self.env
        mod = bp_mod if self.kind == 'bubble' else dp_mod
        mod.flx = flx if flx is not None else mod.flx
        if self.kind == 'dew':
            gi = dp_mod.gamma_iter
            if hasattr(gi, 'py_func'):       # natively numba cannot call the Python gamma stub; same source either way
                dp_mod.gamma_iter = gi.py_func

    def _frame(self):
        pt = self.point
        return (pt.Tmin, pt.Tmax, pt.Pmin, pt.Pmax, pt.IDs, tuple(id(c) for c in pt.chemicals), tuple(id(p) for p in pt.Psats),
                id(pt.gamma), id(pt.phi), id(pt.pcf))

    def frame_ok(self):
        return self._frame() == self.frame0

    # ---- the property's equation, evaluated with the models of this solver object at a returned point
    def spec_terms(self, zbar, T, P, comp, gammas=None):
        """Raoult fractions: bubble  zbar_k gamma_k pcf_k Psat_k / (phi_k P);  dew  zbar_k phi_k P / (gamma_k pcf_k Psat_k)."""
        pt = self.point; n = len(zbar)
        g = pt.gamma
        rec = getattr(g, 'recording', None)
        if rec is not None: g.recording = False
        try:
            Ps = [p(T) for p in pt.Psats]
            Parr = self.env.arr(Ps)
            pcf = _vec(pt.pcf(T, P, Parr), n)
            if self.kind == 'bubble':
                gam = _vec(g(self.env.arr(zbar), T), n) if gammas is None else gammas
                phi = _vec(pt.phi(self.env.arr(comp), T, P), n)
                return [zbar[k] * gam[k] * pcf[k] * Ps[k] / (phi[k] * P) for k in range(n)]
            else:
                gam = _vec(g(self.env.arr(comp), T), n) if gammas is None else gammas
                phi = _vec(pt.phi(self.env.arr(zbar), T, P), n)
                return [zbar[k] * phi[k] * P / (gam[k] * pcf[k] * Ps[k]) for k in range(n)]
        finally:
            if rec is not None: g.recording = rec


def _vec(v, n):
    if isinstance(v, np.ndarray) and v.ndim == 1:
        return list(v)
    return [v] * n


def ge_exact(w, a, b):
    """a >= b; natively without the tolerance of w.ge (thresholds such as 1e-16 / 1e-32 are far below it)."""
    return w.ge(a, b) if w.symbolic else float(a) >= float(b)


def _total(xs):
    t = 0.
    for x in xs: t = t + x
    return t


def plant_z(w, pattern, name='z'):
    """'+' leaf > 0, '?' leaf >= 0 (presence decided by the explorer), '0' concrete zero."""
    out = []
    for i, c in enumerate(pattern):
        if c == '0': out.append(0.)
        elif c == '?': out.append(w.real(f'{name}{i}', lo=0.))
        else: out.append(w.real(f'{name}{i}', lo=0., lo_strict=True))
    return out


def spec_leaf(w, h, which, name='spec'):
    """The given T or P inside the property's quantifier and the solver object's own domain."""
    pt = h.point
    if which == 'P':
        return w.real(f'{name}.P', lo=5e3, hi=3e6)
    return w.real(f'{name}.T', lo=max(260., pt.Tmin), hi=min(480., pt.Tmax))


def check_point(w, h, zvals, given, which, res, comp, tag=''):
    """
    The sentences of C08 for one returned point.  zvals: the planted composition (pre-state leaves); given: the
    specified P (which='P') or T; res: the computed T resp. P; comp: the returned y (bubble) / x (dew).
    """
    n = len(zvals)
    pos = [bool(v > 0.) for v in zvals]
    N = sum(pos)
    T, P = (res, given) if which == 'P' else (given, res)
    S = _total(zvals)
    zbar = [v / S for v in zvals]
    comp = list(comp)
    name = 'y' if h.kind == 'bubble' else 'x'
    if N == 1:
        k = pos.index(True)
        c = h.chems[k]
        if which == 'P':
            if bool(P <= c.Pc):
                w.ensure(f'{tag}single component: T = Tsat of that chemical at P', w.eq(T, w.fn(f'Tsat.{c.ID}', positive=True)(P)))
        else:
            if bool(T <= c.Tc):
                w.ensure(f'{tag}single component: P = Psat of that chemical at T', w.eq(P, h.point.Psats[k](T)))
        # fn.normalize documents "magnitude zero -> equal fractions" below 1e-16: a total below that is no composition
        w.ensure(f'{tag}single component: {name} = zbar', w.Implies(ge_exact(w, S, 1e-16), w.all_eq(comp, zbar)))
        return
    g = h.point.gamma
    if h.kind == 'dew' and isinstance(g, StubGamma):
        # gamma is taken at the liquid composition the code evaluated it at (x~): one of the recorded evaluations must be
        # at the returned T, give the equation, and be AT the returned x unless a fraction is under the 1e-32 trace guard
        alts = []
        for xs, Tc, out in g.calls:
            terms = h.spec_terms(zbar, T, P, comp, gammas=out)
            alts.append(w.And(w.eq(Tc, T), w.eq(_total(terms), 1.), w.all_eq(comp, terms),
                              w.Implies(w.And(*[ge_exact(w, v, 1e-32) for v in comp]), w.all_eq(xs, comp))))
        w.ensure(f'{tag}Raoult fractions at the returned point sum to one and are the returned x (normalised z)', w.Or(*alts))
        terms = h.spec_terms(zbar, T, P, comp, gammas=g.calls[-1][2]) if g.calls else None
    else:
        terms = h.spec_terms(zbar, T, P, comp)
        w.ensure(f'{tag}Raoult fractions at the returned point sum to one (normalised z)', w.eq(_total(terms), 1.))
        w.ensure(f'{tag}returned {name} are the Raoult fractions', w.all_eq(comp, terms))
    w.ensure(f'{tag}returned {name} sums to one', w.eq(_total(comp), 1.))
    return terms


def _configs_for(solver):
    kind = SOLVERS[solver][0]

    def configs(tier):
        out = []

        def add(IDs, pat, gamma='stub', phi='stub', pcf='stub', secant='ok', k=0, ranges=False):
            nm = f"{'+'.join(i[:3] for i in IDs)};z={pat};gamma={gamma};phi={phi};pcf={pcf};secant={secant};k={k}" + (';ranges' if ranges else '')
            out.append({'name': nm, 'IDs': list(IDs), 'z': pat, 'gamma': gamma, 'phi': phi, 'pcf': pcf, 'secant': secant, 'k': k,
                        'ranges': ranges})
        WE = ('Water', 'Ethanol'); WEM = ('Water', 'Ethanol', 'Methanol'); Wt = ('Water',)
        add(Wt, '+'); add(Wt, '?')
        add(WE, '+0'); add(WE, '0+'); add(WEM, '0+0'); add(WEM, '00+', gamma='ideal', phi='ideal', pcf='mock')
        add(WE, '++'); add(WE, '++', secant='raise')
        add(WE, '++', ranges=True)
        add(WE, '++', gamma='ideal', phi='ideal', pcf='mock'); add(WE, '++', gamma='ideal', phi='ideal', pcf='mock', secant='raise')
        add(WE, '+?', phi='ideal')
        add(WEM, '+0+', phi='ideal')
        add(WEM, '+++', gamma='ideal', phi='ideal', pcf='mock')
        if tier == 'thorough':
            add(WE, '++', k=1); add(WE, '++', secant='raise', k=1)
            add(WE, '??'); add(WE, '?+', gamma='ideal')
            for gm, ph, pc in itertools.product(('ideal', 'stub'), ('ideal', 'stub'), ('mock', 'stub')):
                if (gm, ph, pc) in (('stub', 'stub', 'stub'), ('ideal', 'ideal', 'mock')): continue
                add(WE, '++', gamma=gm, phi=ph, pcf=pc)
            add(WEM, '+++'); add(WEM, '+++', secant='raise', gamma='ideal')
            add(WEM, '++?', gamma='ideal', phi='ideal'); add(WEM, '?0?', phi='ideal', pcf='mock')
            add(('Methanol', 'Water', 'Ethanol'), '+++', phi='ideal', pcf='mock')
        return out
    return configs


def _solver_body(solver):
    kind, meth, which = SOLVERS[solver]

    def body(w, cfg):
        W.reset_caches()
        env = Env(w, cfg)
        mods = {'bubble': bp_mod, 'dew': dp_mod}
        saved = (bp_mod.flx, dp_mod.flx, dp_mod.gamma_iter)
        try:
            flx = StubFlx(env, fail=('aitken_secant#0',) if cfg['secant'] == 'raise' else (), k=cfg['k'],
                          fixed_point_positive=(kind == 'dew'))
            h = Harness(env, cfg, kind, flx=flx)
            zvals = plant_z(w, cfg['z'])
            if cfg.get('ranges'):       # no trace components: every present mole fraction is at least 1e-6
                S0 = _total(zvals)
                for v in zvals:
                    if _is_sym(v): w.assume(w.ge(v, 1e-6 * S0))
            given = spec_leaf(w, h, which)
            z = env.arr(zvals)
            try:
                res, comp = getattr(h.point, meth)(z, given)
            except ValueError as e:
                w.ensure('ValueError only when no component is positive', w.And(*[w.le(v, 0.) for v in zvals]))
                w.canary('canary: ValueError although a component is positive', w.Or(*[w.gt(v, 0.) for v in zvals], False))
                return
            check_point(w, h, zvals, given, which, res, comp)
            w.ensure('frame: the caller\'s z is unchanged', w.all_eq(list(z), zvals))
            w.ensure('frame: domain fields / models of the solver object unchanged', h.frame_ok())
            w.ensure('returned value is positive', w.gt(res, 0.))
            w.canary('canary: returned composition sums to two', w.eq(_total(list(comp)), 2.))
            w.note(result=res, composition=list(comp), flx_calls=dict(flx.counts))
        finally:
            bp_mod.flx, dp_mod.flx, dp_mod.gamma_iter = saved
            env.restore()
            W.reset_caches()
    body.__name__ = f'solve_{solver}'
    return body


_A = ['A-root: flx.aitken_secant / IQ_interpolation return x* > 0 with callback(x*) == 0, last evaluation at x*; '
      'flx.wegstein returns x* with callback(x*) == x*',
      'A-models: Psat_k(T), Tsat_k(P), gamma_k(x,T), phi_k(y,T,P), pcf_k(T,P) uninterpreted positive functions '
      '(gamma, phi equivariant under permutation of the chemical list); dew point: Psat_k >= 1e-16 Pa']

_FUNCS = {
    'Ty': ['BubblePoint.solve_Ty', 'BubblePoint._T_error', 'BubblePoint._T_error_ideal', 'BubblePoint._Ty_ideal', 'solve_y', 'y_iter'],
    'Py': ['BubblePoint.solve_Py', 'BubblePoint._P_error', 'BubblePoint._Py_ideal', 'solve_y', 'y_iter'],
    'Tx': ['DewPoint.solve_Tx', 'DewPoint._T_error', 'DewPoint._T_error_ideal', 'DewPoint._Tx_ideal', 'DewPoint._solve_x', 'solve_x', 'gamma_iter'],
    'Px': ['DewPoint.solve_Px', 'DewPoint._P_error', 'DewPoint._Px_ideal', 'DewPoint._solve_x', 'solve_x', 'gamma_iter'],
}
for _s, (_kind, _m, _wh) in SOLVERS.items():
    _mod = 'thermosteam.equilibrium.bubble_point' if _kind == 'bubble' else 'thermosteam.equilibrium.dew_point'
    group(f'C08/{_kind}_{_s}', configs=_configs_for(_s),
          functions=[f'{_mod}:{f}' for f in _FUNCS[_s]] + ['thermosteam.functional:normalize', 'thermosteam.functional:first_true_index'],
          assumptions=_A)(_solver_body(_s))
