# -*- coding: utf-8 -*-
"""
C06 (gap round) -- more of the real functions behind "heat of reaction and adiabatic reaction close the energy balance"
under contract: histories (second operation on the same objects), sibling classes and alternative entry points with
their own implementation, observation channels that were never read, skipped input families.

Everything is built with the helpers of contracts/C06_heat_of_reaction.py (same private chemicals with planted Hf / MW /
Hfus / Hvap / reference phase, same specification side: level / latent / spec_sum / spec_dH / spec_apply, same stub
thermo with uninterpreted pure-component enthalpies and the A-root contract of the temperature solve, same memo-off
streams).  Every top-level ensures is a sentence of the property:

  (S1) reported dH = X * sum_k nu_k/|nu_r| * (Hf_k + latent(ref_k -> phase_k)) [/ MW_k by weight]
  (S2) isothermal reaction: Hnet changes by dH * reactant fed - in the form that is true at every temperature, see
       the header of C06_heat_of_reaction.py: (Hnet - H) changes by sum_i (dH_i - X_i * latent part_i) * fed_i,
       with Hnet = H + Hf and Hf = sum_k Hf_k n_k before and after
  (S3) adiabatic reaction with heat input Q: Hnet after = Hnet before + Q.

What the groups of this file add (coverage matrix in the final report of the gap round):
  C06/gap_dH_history       (S1) read from reaction objects that were PRODUCED or CHANGED by another operation: copy,
                           copy(basis), backwards, reset_chemicals, X / product_yield setters, written as a string,
                           members of copied / sliced / re-based / moved sets, conversions set through an item, the
                           set or the system.
  C06/gap_dH_second_liquid (S1) for reactions that name the second liquid / solid phase 'L' / 'S' (fails on the unchanged tree:
                           genuine defect, /tmp/gap/C06_defect_1.py, proposed fix /tmp/gap/C06_defect_1.diff).
  C06/gap_entry_points     (S2) through the entry points and channels the existing groups never use: force_reaction,
                           CHECK_FEASIBILITY off, a member (ReactionItem) or a slice of a set applied on its own, a
                           phase-less reaction on one phase view of a MultiStream (read on the parent), on a proxy /
                           linked stream (read on the other), on the bare flow arrays, and a SECOND reaction on the
                           same stream.
  C06/gap_adiabatic_history (S3) Hnet setter, adiabatic reaction of a stream whose Hnet was set before, (thorough: two adiabatic
                           reactions in a row, isothermal then adiabatic,) members and slices of sets, proxies, links, one
                           phase view, the empty stream.
  C06/gap_Hf_channels      Hnet = H + Hf, Hf = sum Hf_k n_k read through proxies, phase views, links, copies; Hf
                           revised through the public Chemical.Hf setter; packages made by CompiledChemicals(...).
  C06/gap_real_history (B) operation sequences on real chemicals with the real solvers AND the real property memo.
"""
import os
import numpy as np
import thermosteam as tmo
from thermosteam.exceptions import InfeasibleRegion
from thermosteam.base import SparseVector, SparseArray
from engine.api import group
from engine.sx import tmo_world as W
from contracts import C06_heat_of_reaction as B
from contracts.C06_heat_of_reaction import (
    RXN, IDS, ORDERS, PH, T_REF, _PRIV, packages, compile_clauses, level, latent, Spec, spec_sum, spec_dH, spec_single,
    spec_apply, all_specs, make_spec, make_rxn, make_program, reported_dHs, is_scalar, stub_thermo_on, SolveFailed,
    failing, make_stream, forget, formation_flow, snapshot_rxn, same_rxn, _desc, programs, presence, _units, _Kinetic)

os.environ.setdefault('VERIF_PROVE_FRESH_MS', '8000')

STR = 'thermosteam._stream:'
MST = 'thermosteam._multi_stream:'


# =========================================================================== 1. dH of reaction objects with a history

def _reversed(sp, new_r, X=None):
    """The written reaction read backwards: every coefficient changes sign, `new_r` (a product) is the reactant."""
    return Spec({k: -v for k, v in sp.nu.items()}, new_r, sp.X if X is None else X, sp.basis)


def dh_history_configs(tier):
    out = []
    single_ops = ['copy', 'copy-other-basis', 'backwards', 'backwards-X', 'reset', 'X', 'yield', 'kinetic-reset', 'Hf-revised']
    for op in single_ops:
        for tags, refs in ((None, 'lgs'), ('gls', 'lgs'), ('lgl', 'sgl')):
            for basis in ('mol', 'wt'):
                if op == 'kinetic-reset' and basis == 'wt': continue          # kinetic reactions are by mol
                if tier == 'quick' and tags == 'lgl' and not (op in ('reset', 'backwards') and basis == 'mol'): continue
                if tier == 'quick' and basis == 'wt' and op in ('X', 'backwards-X', 'kinetic-reset'): continue
                out.append({'name': f'single;{op};{"phase-less" if tags is None else "refs=" + refs + ";tags=" + tags};{basis}',
                            'kind': 'single', 'op': op, 'tags': tags, 'refs': refs, 'basis': basis})
    for basis in ('mol', 'wt'):
        out.append({'name': f'string;phase-less;{basis}', 'kind': 'string', 'op': 'string', 'tags': None, 'refs': 'lgs', 'basis': basis})
        out.append({'name': f'string;refs=lgs;tags=gls;{basis}', 'kind': 'string', 'op': 'string', 'tags': 'gls', 'refs': 'lgs', 'basis': basis})
        # the reactant is not named: it is the only chemical that is consumed
        out.append({'name': f'string;phase-less;{basis};reactant found', 'kind': 'string', 'op': 'string', 'tags': None, 'refs': 'lgs', 'basis': basis, 'auto': True})
        out.append({'name': f'string;refs=sgl;tags=lgg;{basis};reactant found', 'kind': 'string', 'op': 'string', 'tags': 'lgg', 'refs': 'sgl', 'basis': basis, 'auto': True})
    out.append({'name': 'no reaction written', 'kind': 'none', 'op': 'none', 'tags': None, 'refs': 'lgs', 'basis': 'mol'})
    set_ops = ['copy', 'copy-other-basis', 'slice', 'item-X', 'set-X', 'item-copy', 'reset', 'item-reset', 'Hf-revised', 'source-changed']
    for kind in ('parallel', 'series'):
        for op in set_ops:
            for tags, refs in ((None, 'lll'), ('lgl', 'lgs')):
                # (phase-less sets: ReactionSet.reset_chemicals raised TypeError until 8eb41df - found by the C05 gap round)
                for basis in ('mol', 'wt'):
                    if tier == 'quick' and basis == 'wt' and op not in ('copy-other-basis', 'slice'): continue
                    if tier == 'quick' and kind == 'series' and op in ('item-copy', 'set-X', 'copy') and tags is not None: continue
                    out.append({'name': f'{kind};{op};{"phase-less" if tags is None else "refs=" + refs + ";tags=" + tags};{basis}',
                                'kind': kind, 'op': op, 'tags': tags, 'refs': refs, 'basis': basis})
    for tags, refs in ((None, 'lll'), ('lgl', 'lgs')):
        out.append({'name': f'system;X;{"phase-less" if tags is None else "refs=" + refs + ";tags=" + tags};mol',
                    'kind': 'system', 'op': 'X', 'tags': tags, 'refs': refs, 'basis': 'mol'})
    return out


def _other(basis):
    return 'wt' if basis == 'mol' else 'mol'


def _same_heat_other_basis(w, name, got_other, got, data, sp):
    """The same reaction on the two bases: dH by weight is per gram of reactant, dH by mol per mol of reactant."""
    mw = data[sp.r[1]]['MW']
    by_wt, by_mol = (got_other, got) if sp.basis == 'mol' else (got, got_other)
    w.ensure(name, w.eq(by_wt * mw, by_mol))


@group('C06/gap_dH_history', configs=dh_history_configs, l0=True,
       functions=[RXN + 'Reaction.dH', RXN + 'ReactionItem.dH', RXN + 'KineticReaction.dH', RXN + 'Reaction.copy', RXN + 'Reaction.backwards',
                  RXN + 'Reaction.reset_chemicals', RXN + 'Reaction.X', RXN + 'Reaction.product_yield', RXN + 'Reaction.reactant',
                  RXN + 'ReactionItem.__init__', RXN + 'ReactionItem.X', RXN + 'ReactionItem.copy', RXN + 'ReactionItem.reset_chemicals',
                  RXN + 'ReactionSet.copy', RXN + 'ReactionSet.__getitem__', RXN + 'ReactionSet.X', RXN + 'ReactionSet.reset_chemicals',
                  RXN + 'ReactionSet.reactants', RXN + 'ReactionSet._rescale', RXN + 'ReactionSet.MWs', RXN + 'ReactionSystem.X',
                  RXN + 'ReactionSystem.__getitem__', RXN + 'ReactionSystem.__iter__', RXN + 'set_reaction_basis',
                  'thermosteam.reaction._parse:get_stoichiometric_array', 'thermosteam.reaction._xparse:get_stoichiometric_array',
                  'thermosteam.reaction._xparse:get_phases'],
       assumptions=['A-models'])
def dH_history(w, cfg):
    """(S1) for reaction objects produced or changed by another operation; the spec side is the WRITTEN reaction and the
    documented meaning of the operation (a copy / a moved reaction is the same reaction; backwards is the reverse
    reaction per unit of the new reactant; a conversion that was set is the conversion)."""
    W.reset_caches()
    tags, basis, kind, op = cfg['tags'], cfg['basis'], cfg['kind'], cfg['op']
    tagged = tags is not None
    pk, data = packages(w, ['P', 'Q'], refs=cfg['refs'], sym_MW=True)
    chems, other = pk['P'], pk['Q']
    for o in ('P', 'Q'): compile_clauses(w, pk[o], data, tag=f' {o}')
    phases = tuple(sorted(set(tags))) if tagged else None
    a, b, c = IDS

    def check(name, got, sp, canary=True):
        w.ensure(f'{name}: dH is a number', is_scalar(got), shape=str(np.shape(got)))
        if is_scalar(got):
            w.ensure(f'{name}: dH = X * sum nu_k (Hf_k + latent_k) [/MW_k]', w.eq(got, spec_dH(sp, data)))
            if canary: w.canary(f'canary: {name}: dH = spec + 1', w.eq(got, spec_dH(sp, data) + 1))

    def revise():
        """The heats of formation are revised after the reactions exist and the packages refreshed as documented."""
        for ID in IDS:
            _PRIV[ID]._Hf = data[ID]['Hf'] = w.real(f'Hf2.{ID}')
        for o in ('P', 'Q'):
            pk[o].refresh_constants()
            compile_clauses(w, pk[o], data, tag=f' {o} after refresh_constants')

    if kind == 'string':
        # coefficients are numbers of the configuration (the parser needs text); X and the chemicals' data stay symbolic
        nus = {a: -2., b: 0.5, c: 3.}
        txt = lambda ID, n: (f'{abs(nus[ID]):g} {ID}' + (f',{tags[n]}' if tagged else ''))
        eq = f'{txt(a, 0)} -> {txt(b, 1)} + {txt(c, 2)}'
        X = w.real('rx.X', lo=0., hi=1.)
        rxn = tmo.Reaction(eq, reactant=(None if cfg.get('auto') else a), X=X, chemicals=chems, basis=basis)
        w.ensure('reactant of the written reaction', rxn.reactant == ((tags[0], a) if tagged else a))
        sp = Spec({((tags[n] if tagged else None), ID): nus[ID] for n, ID in enumerate(IDS)}, ((tags[0] if tagged else None), a), X, basis)
        w.ensure('phases of the written reaction', tuple(rxn.phases) == (phases or ()))
        check('written as a string', rxn.dH, sp)
        return

    if kind == 'none':
        X = w.real('rx.X', lo=0., hi=1.)
        rxn = tmo.Reaction(None, reactant=a, X=X, chemicals=chems)
        got = rxn.dH
        w.ensure('nothing reacts: dH is the number 0', w.And(is_scalar(got), w.eq(got, 0.)))
        w.canary('canary: nothing reacts: dH = 1', w.eq(got, 1.))
        return

    if kind == 'single':
        sp = make_spec(w, 'rx', _desc(IDS, a, tags), basis)
        if op == 'kinetic-reset':
            sp.X = 1.
            d = {ID: ((ph, v) if tagged else v) for (ph, ID), v in sp.nu.items()}
            rxn = _Kinetic(d, chemicals=chems, reactant=a, **({'phases': phases} if tagged else {}))
        else:
            rxn = make_rxn(sp, chems, tagged, phases)
        check('before', rxn.dH, sp, canary=False)
        if op == 'copy':
            cp = rxn.copy()
            check('copy', cp.dH, sp)
            cp.X = X2 = w.real('X2', lo=0., hi=1.)
            check('copy after its conversion was set', cp.dH, Spec(sp.nu, sp.r, X2, basis), canary=False)
            check('original after the copy was changed', rxn.dH, sp, canary=False)
        elif op == 'copy-other-basis':
            cp = rxn.copy(_other(basis))
            w.ensure('copy has the requested basis', cp.basis == _other(basis))
            got = cp.dH
            w.ensure('copy on the other basis: dH is a number', is_scalar(got))
            if is_scalar(got):
                check('copy on the other basis', got, Spec(_nu_on(sp, data, _other(basis)), sp.r, sp.X, _other(basis)))
                _same_heat_other_basis(w, 'copy on the other basis: dH by weight * MW of the reactant = dH by mol', got, rxn.dH, data, sp)
            check('original after copy(basis)', rxn.dH, sp, canary=False)
        elif op in ('backwards', 'backwards-X'):
            # the third chemical is certainly a product here
            kb = ((tags[2] if tagged else None), c)
            w.assume(w.gt(sp.nu[kb], 0.))
            X2 = w.real('X2', lo=0., hi=1.) if op == 'backwards-X' else None
            bw = rxn.backwards(reactant=c) if X2 is None else rxn.backwards(reactant=c, X=X2)
            w.ensure('reactant of the reverse reaction', bw.reactant == ((kb[0], c) if tagged else c))
            check('backwards', bw.dH, _reversed(sp, kb, X2))
            check('original after backwards', rxn.dH, sp, canary=False)
        elif op in ('reset', 'kinetic-reset'):
            rxn.reset_chemicals(other)
            w.ensure('reaction is on the new package', rxn.chemicals is other)
            w.ensure('reactant unchanged by the move', rxn.reactant == ((tags[0], a) if tagged else a))
            check('moved to the other package', rxn.dH, sp)
            rxn.reset_chemicals(chems)
            check('moved back', rxn.dH, sp, canary=False)
        elif op == 'X':
            rxn.X = X2 = w.real('X2', lo=0., hi=1.)
            check('conversion set', rxn.dH, Spec(sp.nu, sp.r, X2, basis))
            w.canary('canary: dH still reports the old conversion', w.eq(rxn.dH, spec_dH(sp, data)))
        elif op == 'yield':
            # product_yield(product, None, y): the conversion becomes y / (coefficient of the product per unit reactant)
            kb = ((tags[1] if tagged else None), b)
            y = w.real('yield')
            coef = sp.nu[kb] / (-sp.nu[sp.r])
            w.assume(w.And(w.le(y / coef, 1.), w.ge(y / coef, 0.)))
            rxn.product_yield(b, None, y)
            w.ensure('yield of the product is what was set', w.eq(rxn.product_yield(b), y))
            check('yield set', rxn.dH, Spec(sp.nu, sp.r, y / coef, basis))
        elif op == 'Hf-revised':
            old = spec_dH(sp, data)
            revise()
            check('after the heats of formation were revised', rxn.dH, sp)
            w.canary('canary: dH still reports the old heats of formation', w.eq(rxn.dH, old))
            return
        w.ensure('package Hf arrays unchanged', w.And(w.all_eq(list(chems.Hf), [data[i]['Hf'] for i in chems.IDs]),
                                                     w.all_eq(list(other.Hf), [data[i]['Hf'] for i in other.IDs])))
        return

    # ---- sets and systems: two reactions a -> b, b -> c
    descs = [_desc((a, b), a, tags[:2] if tagged else None), _desc((b, c), b, tags[1:] if tagged else None)]
    specs = [make_spec(w, f'rx{n}', d, basis) for n, d in enumerate(descs)]
    rxns = [make_rxn(sp, chems, tagged, phases) for sp in specs]
    if kind == 'system':
        obj = tmo.ReactionSystem(*rxns)
        for n, (m, sp) in enumerate(zip(obj, specs)): check(f'member {n} (iterated) before', m.dH, sp, canary=False)
        X2 = [w.real(f'X2.{n}', lo=0., hi=1.) for n in range(2)]
        obj.X = X2
        new = [Spec(sp.nu, sp.r, x, basis) for sp, x in zip(specs, X2)]
        for n, sp in enumerate(new):
            check(f'member {n} (indexed) after the conversions were set through the system', obj[n].dH, sp)
            check(f'source reaction {n} after the conversions were set through the system', rxns[n].dH, sp, canary=False)
        w.canary('canary: member 0 still reports the old conversion', w.eq(obj[0].dH, spec_dH(specs[0], data)))
        return
    obj = (tmo.ParallelReaction if kind == 'parallel' else tmo.SeriesReaction)(rxns)
    for n, (m, sp) in enumerate(zip(obj, specs)): check(f'member {n} before', m.dH, sp, canary=False)
    if op == 'copy':
        cp = obj.copy()
        for n, sp in enumerate(specs): check(f'member {n} of the copy', cp[n].dH, sp)
        X2 = w.real('X2', lo=0., hi=1.)
        cp[0].X = X2
        check('member 0 of the copy after its conversion was set', cp[0].dH, Spec(specs[0].nu, specs[0].r, X2, basis), canary=False)
        for n, sp in enumerate(specs): check(f'member {n} of the original after the copy was changed', obj[n].dH, sp, canary=False)
    elif op == 'copy-other-basis':
        cp = obj.copy(_other(basis))
        w.ensure('copy has the requested basis', cp.basis == _other(basis))
        for n, sp in enumerate(specs):
            got = cp[n].dH
            w.ensure(f'member {n} of the copy on the other basis: dH is a number', is_scalar(got))
            if is_scalar(got):
                _same_heat_other_basis(w, f'member {n} of the copy on the other basis: dH by weight * MW of the reactant = dH by mol',
                                       got, spec_dH(sp, data), data, sp)
                w.canary(f'canary: member {n} of the copy reports the heat of the old basis', w.eq(got, spec_dH(sp, data)))
            check(f'member {n} of the original after copy(basis)', obj[n].dH, sp, canary=False)
    elif op == 'slice':
        whole, tail = obj[0:2], obj[1:]
        w.ensure('a slice is a set of the same class', type(whole) is type(obj) and type(tail) is type(obj))
        for n, sp in enumerate(specs): check(f'member {n} of the full slice', whole[n].dH, sp)
        check('member 0 of the tail slice is reaction 1', tail[0].dH, specs[1])
        w.ensure('the tail slice has one member', len(list(tail)) == 1)
    elif op == 'item-X':
        it = obj[0]
        X2 = w.real('X2', lo=0., hi=1.)
        it.X = X2
        new = Spec(specs[0].nu, specs[0].r, X2, basis)
        check('the item whose conversion was set', it.dH, new)
        check('member 0 read again from the set', obj[0].dH, new)
        check('member 0 read by iteration', list(obj)[0].dH, new, canary=False)
        check('member 1 is not affected', obj[1].dH, specs[1])
        w.canary('canary: member 0 still reports the old conversion', w.eq(obj[0].dH, spec_dH(specs[0], data)))
    elif op == 'set-X':
        X2 = [w.real(f'X2.{n}', lo=0., hi=1.) for n in range(2)]
        held = [obj[0], obj[1]]                      # items taken BEFORE the conversions change
        obj.X = X2
        for n, sp in enumerate(specs):
            new = Spec(sp.nu, sp.r, X2[n], basis)
            check(f'member {n} after the conversions of the set were set', obj[n].dH, new)
            check(f'item {n} taken before the conversions were set', held[n].dH, new, canary=False)
    elif op == 'item-copy':
        for n, sp in enumerate(specs):
            cp = obj[n].copy()
            w.ensure(f'copy of member {n} is a plain Reaction', type(cp) is tmo.Reaction)
            check(f'copy of member {n}', cp.dH, sp)
        cp = obj[1].copy(_other(basis))
        got = cp.dH
        if is_scalar(got):
            _same_heat_other_basis(w, 'copy of member 1 on the other basis: dH by weight * MW of the reactant = dH by mol',
                                   got, spec_dH(specs[1], data), data, specs[1])
        for n, sp in enumerate(specs): check(f'member {n} after its copies were made', obj[n].dH, sp, canary=False)
    elif op == 'source-changed':
        # the reactions the set was made from are re-based / get another conversion afterwards: the set is what was written
        rxns[0].basis = _other(basis)
        rxns[1].X = w.real('X2', lo=0., hi=1.)
        for n, sp in enumerate(specs): check(f'member {n} after the source reactions were changed', obj[n].dH, sp)
        _same_heat_other_basis(w, 'source reaction 0 on its new basis: dH by weight * MW of the reactant = dH by mol', rxns[0].dH,
                               spec_dH(specs[0], data), data, specs[0])
        return
    elif op == 'Hf-revised':
        held = [obj[0], obj[1]]
        revise()
        for n, sp in enumerate(specs):
            check(f'member {n} after the heats of formation were revised', obj[n].dH, sp)
            check(f'item {n} taken before the revision', held[n].dH, sp, canary=False)
        return
    elif op in ('reset', 'item-reset'):
        if op == 'reset':
            obj.reset_chemicals(other)
            items = [obj[0], obj[1]]
        else:
            it = obj[1]
            it.reset_chemicals(other)
            items = [obj[0], it]
        w.ensure('set is on the new package', obj.chemicals is other)
        w.ensure('reactants unchanged by the move', tuple(obj.reactants) == tuple(((sp.r[0], sp.r[1]) if tagged else sp.r[1]) for sp in specs))
        for n, sp in enumerate(specs):
            check(f'member {n} after the set was moved to the other package', items[n].dH, sp)
            check(f'member {n} read again after the move', list(obj)[n].dH, sp, canary=False)
    w.ensure('package Hf arrays unchanged', w.And(w.all_eq(list(chems.Hf), [data[i]['Hf'] for i in chems.IDs]),
                                                 w.all_eq(list(other.Hf), [data[i]['Hf'] for i in other.IDs])))


def second_phase_configs(tier):
    out = []
    for refs, tags in (('lgs', 'LLL'), ('lgs', 'SSS'), ('sgl', 'LSg'), ('gls', 'SlL')):
        for basis in ('mol', 'wt'):
            out.append({'name': f'refs={refs};tags={tags};{basis}', 'refs': refs, 'tags': tags, 'basis': basis})
    return out


@group('C06/gap_dH_second_liquid', configs=second_phase_configs, l0=True, functions=[RXN + 'Reaction.dH', RXN + 'Reaction.__init__'],
       assumptions=['A-models'])
def dH_second_liquid(w, cfg):
    """(S1) for reactions that name the second liquid phase 'L' or the second solid phase 'S' (valid phases of thermosteam:
    the same state of matter as 'l' / 's', so the latent heat from the reference phase is the one to 'l' / 's').
    On the unchanged tree Reaction.dH raises RuntimeError("invalid phase 'L'"): genuine defect, /tmp/gap/C06_defect_1.py."""
    W.reset_caches()
    tags, basis = cfg['tags'], cfg['basis']
    pk, data = packages(w, ['P'], refs=cfg['refs'], sym_MW=True)
    chems = pk['P']
    phases = tuple(sorted(set(tags)))
    sp = make_spec(w, 'rx', _desc(IDS, IDS[0], tags), basis)
    rxn = make_rxn(sp, chems, True, phases)
    w.ensure('phases of the reaction are the phases named', tuple(rxn.phases) == phases)
    got = rxn.dH
    same_state = Spec({(ph.lower(), ID): v for (ph, ID), v in sp.nu.items()}, (sp.r[0].lower(), sp.r[1]), sp.X, basis)
    w.ensure('dH is a number', is_scalar(got))
    if is_scalar(got):
        w.ensure('dH = X * sum nu_k (Hf_k + latent_k) [/MW_k]', w.eq(got, spec_dH(same_state, data)))
        w.canary('canary: dH = spec + 1', w.eq(got, spec_dH(same_state, data) + 1))
        w.canary('canary: latent heats do not matter', w.eq(got, sp.X * spec_sum(same_state, data, 'Hf')))


def _nu_on(sp, data, basis):
    """Coefficients of the same written reaction on the other basis (per kmol <-> per kg): nu_k * MW_k resp. nu_k / MW_k."""
    if basis == sp.basis: return dict(sp.nu)
    if basis == 'wt': return {k: v * data[k[1]]['MW'] for k, v in sp.nu.items()}
    return {k: v / data[k[1]]['MW'] for k, v in sp.nu.items()}


# =========================================================================== 2. isothermal sentence through other entry points

def memo_off(s):
    """Same trusted-base entry as in C06_heat_of_reaction.make_stream (`memo-off`): the memo key never records a state."""
    if isinstance(s._property_cache_key, list) and not isinstance(s._property_cache_key, B._NeverValid):
        s._property_cache_key = B._NeverValid([None, None])
    return s


def _progs(tagged):
    return programs('thorough', tagged)


def entry_configs(tier):
    out = []
    quick = tier == 'quick'

    def add(entry, pname, tagged, basis='mol', pkg='P', flows='lean', phase='l', **kw):
        prog = _progs(tagged)[pname]
        fixed = B._n_rxns(prog) >= 2 or kw.pop('fixed', False)
        nm = f'{entry};{"tagged" if tagged else "plain"};{pname};{basis};pkg={pkg};flows={flows}' + ('' if tagged else f';phase={phase}')
        for k, v in kw.items(): nm += f';{k}={v}'
        if fixed: nm += ';fixed-nu'
        out.append(dict({'name': nm, 'entry': entry, 'tagged': tagged, 'prog': prog, 'basis': basis, 'pkg': pkg, 'flows': flows,
                         'phase': phase, 'unit': fixed, 'refs': 'lgs' if tagged else None}, **kw))

    single, par, ser, sys2, sys3 = 'single[a>bc]', 'parallel[a>b|b>c]', 'series[a>b;b>c]', 'system[a>b;b>c]', 'system[par(a>b|b>c);c>a]'
    # force_reaction / feasibility check switched off: the other implementations of "react this material"
    for entry in ('force', 'nocheck'):
        # (symbolic coefficients only where it is affordable: the negligibility test of force_reaction compares every flow)
        add(entry, single, False, fixed=quick and entry == 'nocheck'); add(entry, single, True, fixed=quick)
        add(entry, single, False, 'wt', 'Q', fixed=quick)
        add(entry, par, False, pkg='Q')
        if not quick or entry == 'force':
            add(entry, ser, False); add(entry, sys2, False)
        if not quick:
            add(entry, par, True); add(entry, ser, True, 'wt'); add(entry, sys3, False, 'wt', 'Q'); add(entry, single, False, phase='g')
    # a member / a slice of a set applied on its own
    for pname in (par, ser):
        for n in (0, 1):
            add('item', pname, False, n=n, how='indexed')
            if not quick or (pname, n) == (par, 1): add('item', pname, False, 'wt', 'Q', n=n, how='iterated')
            if not quick or (pname, n) == (ser, 1): add('item', pname, True, n=n, how='iterated')
        add('slice', pname, False, cut='1:')
        if not quick: add('slice', pname, True, cut='1:'); add('slice', pname, False, 'wt', 'Q', cut='0:2')
    add('slice', par, False, pkg='Q', cut='0:2')
    # a phase-less reaction on one phase view of a multi-phase stream, read on the parent
    for view in ('l', 'g'):
        add('phase-view', single, False, view=view)
        if not quick or view == 'g': add('phase-view', par, False, view=view)
        if not quick or view == 'l': add('phase-view', single, False, 'wt', 'Q', view=view); add('phase-view', ser, False, view=view)
        if not quick: add('phase-view', sys2, False, 'wt', view=view)
    # proxies and links, read on the original
    for entry in ('proxy', 'link'):
        add(entry, single, False); add(entry, single, True)
        if not quick: add(entry, par, False, 'wt', 'Q'); add(entry, sys2, True)
    # the bare flow arrays
    add('array-mol', single, False); add('array-mol', single, True); add('array-mol', par, False)
    add('array-mass', single, False, 'wt'); add('array-mass', single, True, 'wt'); add('mass-property', single, False, 'wt')
    if not quick:
        add('array-mol', ser, True); add('array-mass', par, False, 'wt'); add('array-mass', ser, True, 'wt'); add('mass-property', sys2, False, 'wt')
    # a second application on the same stream (the stream was switched to the reaction's package and back in between)
    add('twice', single, False, pkg='Q', fixed=True); add('twice', single, True, pkg='Q', fixed=True)
    add('twice', single, False, 'wt', 'Q', fixed=True)
    if not quick:
        add('twice', par, False, pkg='Q'); add('twice', ser, False, 'wt', 'Q'); add('twice', sys2, False, pkg='Q'); add('twice', single, False, fixed=True)
    return out


_ENTRY_FUNCS = [RXN + 'Reaction.force_reaction', RXN + 'Reaction.__call__', RXN + 'as_material_array', RXN + 'Reaction._reaction',
                RXN + 'ParallelReaction._reaction', RXN + 'SeriesReaction._reaction', RXN + 'ReactionSystem._reaction',
                RXN + 'ReactionItem.__init__', RXN + 'ReactionItem.X', RXN + 'ReactionItem.dH', RXN + 'ReactionSet.__getitem__',
                RXN + 'ReactionSet.__iter__', RXN + 'Reaction.dH', 'thermosteam.functional:remove_negligible_negative_values',
                STR + 'Stream.Hnet', STR + 'Stream.Hf', STR + 'Stream.H', STR + 'Stream.proxy', STR + 'Stream.link_with', STR + 'Stream.mol',
                STR + 'Stream.mass', STR + 'Stream.imass', STR + 'Stream.imol', 'thermosteam.indexer:ChemicalIndexer.__getitem__',
                'thermosteam.indexer:MaterialIndexer.__getitem__', MST + 'MultiStream.__getitem__', MST + 'MultiStream.H', MST + 'MultiStream.mol',
                'thermosteam.indexer:ChemicalIndexer.reset_chemicals', 'thermosteam.indexer:MaterialIndexer.reset_chemicals',
                'thermosteam.indexer:MaterialIndexer.get_phase']


@group('C06/gap_entry_points', configs=entry_configs, l0=True, functions=_ENTRY_FUNCS, assumptions=['A-models'])
def entry_points(w, cfg):
    """(S2) at constant T for every way of reacting the material of a stream: the formation-enthalpy flow (Hnet - H) read on
    the stream changes by sum_i (dH_i - latent part_i) * reactant fed to i; Hnet = H + Hf and Hf = sum Hf_k n_k before and after."""
    W.reset_caches()
    entry, tagged, basis = cfg['entry'], cfg['tagged'], cfg['basis']
    view = cfg.get('view')
    multi = tagged or view is not None
    orders = ['P'] if cfg['pkg'] == 'P' else ['P', cfg['pkg']]
    pk, data = packages(w, orders, refs=cfg.get('refs'))
    rchems, schems = pk['P'], pk[cfg['pkg']]
    th = stub_thermo_on(w, schems)
    prog, obj = make_program(w, cfg['prog'], basis, rchems, tagged, unit_reactant=cfg.get('unit', False))
    specs = all_specs(prog)
    mw = {ID: data[ID]['MW'] for ID in IDS}
    by_mass = basis == 'wt'
    present = presence(cfg['prog'], tagged, cfg['phase'], cfg['flows'])
    if view is not None:
        rest = 'g' if view == 'l' else 'l'
        present = {(view, ID): kind for (_, ID), kind in present.items()}
        present[rest, specs[0].r[1]] = 'pos'              # the reactant is also present in the phase that is NOT reacted
        present[rest, IDS[2]] = 'maybe'
    s, read, feed = make_stream(w, th, multi, cfg['phase'], present)

    # ---- what is handed to the reaction, what runs, and what the statement says about it
    target, runner, eff = s, obj, prog
    if entry == 'proxy': target = s.proxy()
    elif entry == 'link':
        target = tmo.MultiStream(None, phases=PH, thermo=th) if multi else tmo.Stream(None, thermo=th)
        target.link_with(s)
        memo_off(target)
    elif entry == 'phase-view': target = memo_off(s[view])
    elif entry == 'array-mol': target = s.imol.data
    elif entry == 'array-mass': target = s.imass.data
    elif entry == 'mass-property': target = s.mass
    elif entry == 'item':
        n = cfg['n']
        runner = obj[n] if cfg['how'] == 'indexed' else list(obj)[n]
        eff = {'kind': 'single', 'specs': [specs[n]]}
    elif entry == 'slice':
        lo = int(cfg['cut'].split(':')[0])
        runner = obj[lo:] if cfg['cut'].endswith(':') else obj[lo:2]
        w.ensure('a slice is a set of the same class', type(runner) is type(obj))
        eff = {'kind': prog['kind'], 'specs': specs[lo:]}
    if view is None:
        u = _units(feed, mw, by_mass)
    else:
        u = _units({(None, ID): feed[view, ID] for ID in IDS}, mw, by_mass)
    feds = []
    e = spec_apply(eff, u, feds)
    es = [e]
    if entry == 'twice':
        e = spec_apply(eff, e, feds)
        es.append(e)
    eff_specs = all_specs(eff) * len(es)
    pre = snapshot_rxn(obj)
    T0, P0, phases0 = s.T, s.P, tuple(p for p, _ in W.rows_of(s))
    Hf_arr0 = list(s.chemicals.Hf)
    H0, Hf0, Hnet0 = s.H, s.Hf, s.Hnet
    # "the reactant fed" of the first reaction as a user reads it: by name, on the stream, in the unit of the basis
    r0 = all_specs(eff)[0].r
    key0 = (view, r0[1]) if view is not None else ((r0[0], r0[1]) if tagged else r0[1])
    fed_read = (s.imass if by_mass else s.imol)[key0]
    dHs = (reported_dHs(runner) if not isinstance(runner, tmo.reaction.ReactionItem) else [runner.dH]) * len(es)
    negative = w.Or(*[w.lt(x[k], 0.) for x in es for k in x])
    check_was = tmo.reaction.CHECK_FEASIBILITY
    try:
        if entry == 'nocheck': tmo.reaction.CHECK_FEASIBILITY = False
        for _ in es:
            if entry == 'force': runner.force_reaction(target)
            else: runner(target)
    except InfeasibleRegion:
        w.ensure('InfeasibleRegion only from the checked call and only if a flow would be negative',
                 w.And(entry not in ('force', 'nocheck'), negative))
        return
    finally:
        tmo.reaction.CHECK_FEASIBILITY = check_was
    forget(s)
    H1, Hf1, Hnet1 = s.H, s.Hf, s.Hnet
    got = read()
    feasible = w.Not(negative)
    w.ensure('isothermal: T and P unchanged', w.And(w.eq(s.T, T0), w.eq(s.P, P0)))
    w.ensure('phases and package of the stream unchanged', tuple(p for p, _ in W.rows_of(s)) == phases0 and s.chemicals is schems)
    w.ensure('Hf before = sum_k Hf_k n_k', w.eq(Hf0, formation_flow(data, feed)))
    w.ensure('Hf after = sum_k Hf_k n_k', w.eq(Hf1, formation_flow(data, got)))
    w.ensure('Hnet = H + Hf before and after', w.And(w.eq(Hnet0, H0 + Hf0), w.eq(Hnet1, H1 + Hf1)))
    scalar = all(is_scalar(v) for v in dHs)
    for n, (dh, sp) in enumerate(zip(dHs[:len(dHs) // len(es)], eff_specs)):
        w.ensure(f'reported dH of reaction {n} is a number', is_scalar(dh), shape=str(np.shape(dh)))
        if is_scalar(dh):
            w.ensure(f'reported dH of reaction {n} = X * sum nu_k (Hf_k + latent_k) [/MW_k]', w.eq(dh, spec_dH(sp, data)))
    if scalar:
        heat = sum([(dh - sp.X * spec_sum(sp, data, 'latent')) * fed for dh, sp, fed in zip(dHs, eff_specs, [fed_read] + feds[1:])], 0.)
        w.ensure('(Hnet - H) after - (Hnet - H) before = sum_i (dH_i - latent part) * reactant fed to i',
                 w.Implies(feasible, w.eq((Hnet1 - H1) - (Hnet0 - H0), heat)))
        w.canary('canary: formation enthalpy flow unchanged', w.eq(Hnet1 - H1, Hnet0 - H0))
    if target is not s and isinstance(target, tmo.Stream):
        # the stream that was handed to the reaction tells the same story
        forget(target)
        if entry == 'phase-view':
            mine = {k: v for k, v in got.items() if k[0] == view}
            w.ensure('view: Hf after = sum_k Hf_k n_k of that phase', w.eq(target.Hf, formation_flow(data, mine)))
            w.ensure('view: Hnet = H + Hf', w.eq(target.Hnet, target.H + target.Hf))
            other_view = memo_off(s[rest])
            w.ensure('Hf of the stream = sum of the Hf of its phase views', w.eq(Hf1, target.Hf + other_view.Hf))
            w.ensure('the phase that was not reacted is unchanged', w.And(*[w.eq(got[k], feed[k]) for k in feed if k[0] == rest]))
        else:
            w.ensure(f'{entry}: Hf, H, Hnet read on it = read on the original',
                     w.And(w.eq(target.Hf, Hf1), w.eq(target.H, H1), w.eq(target.Hnet, Hnet1)))
    w.ensure('reaction object unchanged', same_rxn(w, pre, snapshot_rxn(obj)))
    w.ensure('package Hf array unchanged', w.all_eq(list(s.chemicals.Hf), Hf_arr0))
    w.note(Hnet0=Hnet0, Hnet1=Hnet1, dH=dHs, fed=feds)


# =========================================================================== 3. adiabatic sentence: other entry points, histories

def adia_history_configs(tier):
    out = []
    quick = tier == 'quick'

    def add(entry, pname, tagged, basis='mol', pkg='P', flows='lean', phase='l', **kw):
        prog = _progs(tagged)[pname]
        nm = f'{entry};{"tagged" if tagged else "plain"};{pname};{basis};pkg={pkg};flows={flows}' + ('' if tagged else f';phase={phase}')
        for k, v in kw.items(): nm += f';{k}={v}'
        out.append(dict({'name': nm + ';fixed-nu', 'entry': entry, 'tagged': tagged, 'prog': prog, 'basis': basis, 'pkg': pkg, 'flows': flows,
                         'phase': phase, 'unit': True, 'refs': 'lgs' if tagged else None, 'fail': 0}, **kw))

    single, par, ser, sys2 = 'single[a>bc]', 'parallel[a>b|b>c]', 'series[a>b;b>c]', 'system[a>b;b>c]'
    # the Hnet setter: the other way of giving a stream a total enthalpy
    add('Hnet-setter', single, False); add('Hnet-setter', single, False, phase='g', pkg='Q'); add('Hnet-setter', single, True)
    add('Hnet-setter', single, False, fail=1)
    if not quick: add('Hnet-setter', single, True, pkg='Q'); add('Hnet-setter', single, False, flows='maybe')
    # two operations on the same stream
    # (two temperature solves on one path cost minutes of nonlinear branch-feasibility queries: `twice` runs in the thorough
    #  tier; in the quick tier two adiabatic reactions in a row are covered on real models by C06/gap_real_history)
    add('setter-then-adia', single, False)
    if not quick:
        # (`twice` costs 8-10 min of nonlinear feasibility queries per configuration: one representative is kept in the thorough tier;
        #  the parallel / weight-basis / phase-tagged / failing-solve variants of two adiabatic reactions in a row are bounded only,
        #  C06/gap_real_history)
        add('iso-then-adia', single, False); add('iso-then-adia', single, False, pkg='Q'); add('twice', single, False); add('iso-then-adia', single, True)
        add('iso-then-adia', ser, False)
    # members / slices of sets on their own
    add('item', par, False, n=1, how='indexed'); add('item', ser, False, n=0, how='iterated')
    if not quick:
        add('slice', par, False, cut='1:')
        add('item', par, True, n=0, how='iterated'); add('item', ser, False, 'wt', 'Q', n=1, how='indexed'); add('slice', ser, True, cut='1:')
        add('slice', par, False, cut='0:2')
    # proxies, links, one phase view
    add('proxy', single, False); add('link', single, False, pkg='Q'); add('phase-view', single, False, view='l')
    if not quick: add('proxy', single, True); add('link', single, True); add('phase-view', single, False, view='g'); add('phase-view', par, False, view='l')
    # nothing to react
    add('empty', single, False, flows='none'); add('empty', par, False, flows='none', phase='g'); add('empty', single, True, flows='none')
    return out


@group('C06/gap_adiabatic_history', configs=adia_history_configs, l0=True,
       functions=[RXN + 'Reaction.adiabatic_reaction', STR + 'Stream.Hnet', STR + 'Stream.H', STR + 'Stream.Hf', STR + 'Stream.isempty',
                  MST + 'MultiStream.H', MST + 'MultiStream.__getitem__', STR + 'Stream.proxy', STR + 'Stream.link_with',
                  RXN + 'ReactionItem.__init__', RXN + 'ReactionItem.X', RXN + 'ReactionSet.__getitem__', RXN + 'ReactionSet.__iter__',
                  RXN + 'Reaction.__call__', RXN + 'as_material_array'],
       assumptions=['A-models', 'A-root'])
def adiabatic_history(w, cfg):
    """(S3) Hnet after = Hnet before + Q for the Hnet setter, for the second of two operations on the same stream, for members
    and slices of sets, through proxies and links, and for a stream with nothing in it."""
    W.reset_caches()
    entry, tagged, basis = cfg['entry'], cfg['tagged'], cfg['basis']
    view = cfg.get('view')
    multi = tagged or view is not None
    orders = ['P'] if cfg['pkg'] == 'P' else ['P', cfg['pkg']]
    pk, data = packages(w, orders, refs=cfg.get('refs'))
    rchems, schems = pk['P'], pk[cfg['pkg']]
    th = stub_thermo_on(w, schems)
    prog, obj = make_program(w, cfg['prog'], basis, rchems, tagged, unit_reactant=True)
    specs = all_specs(prog)
    mw = {ID: data[ID]['MW'] for ID in IDS}
    by_mass = basis == 'wt'
    if cfg['flows'] == 'none': present = {}
    else: present = presence(cfg['prog'], tagged, cfg['phase'], cfg['flows'])
    if view is not None:
        rest = 'g' if view == 'l' else 'l'
        present = {(view, ID): kind for (_, ID), kind in present.items()}
        present[rest, specs[0].r[1]] = 'pos'
    s, read, feed = make_stream(w, th, multi, cfg['phase'], present)
    log = failing(th, cfg['fail'])
    target, runner, eff = s, obj, prog
    if entry == 'proxy': target = s.proxy()
    elif entry == 'link':
        target = tmo.MultiStream(None, phases=PH, thermo=th) if multi else tmo.Stream(None, thermo=th)
        target.link_with(s)
        memo_off(target)
    elif entry == 'phase-view': target = memo_off(s[view])
    elif entry == 'item':
        n = cfg['n']
        runner = obj[n] if cfg['how'] == 'indexed' else list(obj)[n]
        eff = {'kind': 'single', 'specs': [specs[n]]}
    elif entry == 'slice':
        lo = int(cfg['cut'].split(':')[0])
        runner = obj[lo:] if cfg['cut'].endswith(':') else obj[lo:2]
        eff = {'kind': prog['kind'], 'specs': specs[lo:]}
    u = _units(feed, mw, by_mass) if view is None else _units({(None, ID): feed[view, ID] for ID in IDS}, mw, by_mass)
    feds = []
    e1 = spec_apply(eff, u, feds)
    e2 = spec_apply(eff, e1, feds) if entry in ('twice', 'iso-then-adia') else None
    Q = w.real('Q')
    Q2 = w.real('Q2') if entry == 'twice' else None
    pre = snapshot_rxn(obj)
    T0, P0 = s.T, s.P
    Hf_arr0 = list(s.chemicals.Hf)
    reacted = target                       # the stream the sentence talks about
    Hnet0 = reacted.Hnet
    negative = w.Or(*[w.lt(x[k], 0.) for x in (e1, e2) if x is not None for k in x])
    Hmid = None
    try:
        if entry == 'Hnet-setter':
            reacted.Hnet = Hnet0 + Q
        elif entry == 'twice':
            runner.adiabatic_reaction(target, Q)
            forget(reacted)
            Hmid = reacted.Hnet
            runner.adiabatic_reaction(target, Q2)
        elif entry == 'iso-then-adia':
            runner(target)
            forget(reacted)
            Hmid = reacted.Hnet
            runner.adiabatic_reaction(target, Q)
        elif entry == 'setter-then-adia':
            reacted.Hnet = Hnet0 + w.real('Q0')
            forget(reacted)
            Hmid = reacted.Hnet
            runner.adiabatic_reaction(target, Q)
        elif entry == 'empty':
            runner.adiabatic_reaction(target)
            Q = 0.
        else:
            runner.adiabatic_reaction(target, Q)
    except InfeasibleRegion:
        w.ensure('InfeasibleRegion only if a flow would be negative', w.And(entry != 'Hnet-setter', negative))
        return
    except SolveFailed:
        w.ensure('solver failure is passed on only where no other phase can be tried', multi)
        return
    forget(reacted)
    Hnet1 = reacted.Hnet
    got = read()
    if entry == 'twice':
        w.lemma('after the first reaction: Hnet = Hnet before + Q', w.eq(Hmid, Hnet0 + Q))
        w.lemma('after the second reaction: Hnet = Hnet before it + Q2', w.eq(Hnet1, Hmid + Q2))
        w.ensure('after both: Hnet = Hnet at the start + Q + Q2', w.eq(Hnet1, Hnet0 + Q + Q2))
        w.canary('canary: the second heat input is lost', w.eq(Hnet1, Hnet0 + Q))
    elif entry == 'iso-then-adia':
        w.ensure('adiabatic reaction after an isothermal one: Hnet after = Hnet before it + Q', w.eq(Hnet1, Hmid + Q))
        w.canary('canary: Hnet after = Hnet before the isothermal reaction + Q', w.eq(Hnet1, Hnet0 + Q))
    elif entry == 'setter-then-adia':
        w.ensure('adiabatic reaction of a stream whose Hnet was set before: Hnet after = Hnet before it + Q', w.eq(Hnet1, Hmid + Q))
        w.canary('canary: the enthalpy that was set is lost', w.eq(Hnet1, Hnet0 + Q))
    else:
        w.ensure('Hnet after = Hnet before + Q', w.eq(Hnet1, Hnet0 + Q))
        if entry != 'empty': w.canary('canary: Hnet after = Hnet before + Q + 1', w.eq(Hnet1, Hnet0 + Q + 1))
    if entry == 'empty':
        w.ensure('nothing to react: T unchanged and the stream still empty', w.And(w.eq(s.T, T0), *[w.eq(v, 0.) for v in got.values()]))
        w.canary('canary: empty stream has a formation enthalpy', w.ne(s.Hf, 0.))
    if entry == 'Hnet-setter':
        w.ensure('setting Hnet leaves the flows alone', w.And(*[w.eq(got[k], feed[k]) for k in feed]))
        if cfg['fail'] and not multi:
            w.ensure('fall-back flips l <-> g', s.phase == {'l': 'g', 'g': 'l'}[cfg['phase']])
    if entry in ('proxy', 'link'):
        forget(s)
        w.ensure(f'{entry}: Hnet and T read on the original = read on the stream that was reacted',
                 w.And(w.eq(s.Hnet, Hnet1), w.eq(s.T, reacted.T)))
    w.ensure('P unchanged', w.eq(s.P, P0))
    w.ensure('reaction object unchanged', same_rxn(w, pre, snapshot_rxn(obj)))
    w.ensure('package Hf array unchanged', w.all_eq(list(s.chemicals.Hf), Hf_arr0))
    if entry != 'empty': w.canary('canary: T never moves', w.eq(s.T, T0))
    w.note(Hnet0=Hnet0, Hnet1=Hnet1, T0=T0, T=s.T, log=list(log))


# =========================================================================== 4. Hf / Hnet read through other channels

def channel_configs(tier):
    out = []
    for kind in ('l', 'g', 'gl'):
        for pkg in ('P', 'Q'):
            if tier == 'quick' and (kind, pkg) in (('g', 'P'), ('l', 'Q')): continue
            for revise in (False, True):
                out.append({'name': f'phases={kind};pkg={pkg}' + (';Hf-revised' if revise else ''), 'kind': kind, 'pkg': pkg, 'revise': revise})
    out.append({'name': 'CompiledChemicals(...)', 'kind': 'compiled', 'pkg': 'Q', 'revise': False})
    return out


@group('C06/gap_Hf_channels', configs=channel_configs, l0=True,
       functions=[STR + 'Stream.Hf', STR + 'Stream.Hnet', STR + 'Stream.H', STR + 'Stream.proxy', STR + 'Stream.link_with', STR + 'Stream.copy',
                  MST + 'MultiStream.__getitem__', MST + 'MultiStream.mol', MST + 'MultiStream.H', 'thermosteam.indexer:MaterialIndexer.get_phase',
                  'thermosteam._chemicals:CompiledChemicals.__new__', 'thermosteam._chemicals:CompiledChemicals._compile',
                  'thermosteam._chemicals:CompiledChemicals.refresh_constants', 'thermosteam._chemicals:chemical_data_array'],
       assumptions=['A-models'])
def Hf_channels(w, cfg):
    """Hf = sum_k Hf_k * (flow of k), Hnet = H + Hf - read on a proxy, on every phase view, on a linked stream and on a copy of
    the stream; package arrays built by CompiledChemicals(...) and rebuilt by refresh_constants."""
    W.reset_caches()
    if cfg['kind'] == 'compiled':
        pk, data = packages(w, ['P'])
        cc = tmo.CompiledChemicals([_PRIV[IDS[i]] for i in ORDERS[cfg['pkg']]])
        w.ensure('CompiledChemicals(...) is a compiled package in the order given', tuple(cc.IDs) == tuple(IDS[i] for i in ORDERS[cfg['pkg']]))
        compile_clauses(w, cc, data, tag=' made by CompiledChemicals(...)')
        w.canary('canary: Hf[0] = Hf[1]', w.eq(cc.Hf[0], cc.Hf[1]))
        return
    multi = len(cfg['kind']) > 1
    pk, data = packages(w, [cfg['pkg']])
    chems = pk[cfg['pkg']]
    th = stub_thermo_on(w, chems)
    keys = [((ph if multi else None), ID) for ph in (PH if multi else (None,)) for ID in IDS]
    present = {k: 'maybe' for k in keys}
    if multi: present['g', IDS[1]] = 'zero'; present['l', IDS[2]] = 'pos'
    s, read, feed = make_stream(w, th, multi, cfg['kind'], present)
    if cfg['revise']:
        for ID in IDS:
            _PRIV[ID]._Hf = data[ID]['Hf'] = w.real(f'Hf2.{ID}')
        chems.refresh_constants()
        compile_clauses(w, chems, data, tag=' after refresh_constants')
    T0, P0 = s.T, s.P
    Hf, H, Hnet = s.Hf, s.H, s.Hnet
    w.ensure('Hf = sum_k Hf_k * total flow of k', w.eq(Hf, formation_flow(data, feed)))
    w.ensure('Hnet = H + Hf', w.eq(Hnet, H + Hf))
    p = s.proxy()
    w.ensure('proxy: Hf, H, Hnet = those of the stream', w.And(w.eq(p.Hf, Hf), w.eq(p.H, H), w.eq(p.Hnet, Hnet)))
    t = tmo.MultiStream(None, phases=PH, thermo=th) if multi else tmo.Stream(None, thermo=th)
    t.link_with(s)
    memo_off(t)
    w.ensure('linked stream: Hf, H, Hnet = those of the stream', w.And(w.eq(t.Hf, Hf), w.eq(t.H, H), w.eq(t.Hnet, Hnet)))
    c = s.copy()
    memo_off(c)
    w.ensure('copy: Hf = sum_k Hf_k * total flow of k, Hnet = H + Hf', w.And(w.eq(c.Hf, formation_flow(data, feed)), w.eq(c.Hnet, c.H + c.Hf)))
    w.ensure('copy: Hnet = Hnet of the stream', w.eq(c.Hnet, Hnet))
    if multi:
        tot = 0.
        for ph in PH:
            v = memo_off(s[ph])
            mine = {k: x for k, x in feed.items() if k[0] == ph}
            w.ensure(f'phase view {ph}: Hf = sum_k Hf_k * flow of k in that phase', w.eq(v.Hf, formation_flow(data, mine)))
            w.ensure(f'phase view {ph}: Hnet = H + Hf', w.eq(v.Hnet, v.H + v.Hf))
            tot = tot + v.Hf
        w.ensure('Hf of the stream = sum of the Hf of its phase views', w.eq(Hf, tot))
        w.canary('canary: the liquid view carries the whole formation enthalpy', w.eq(s['l'].Hf, Hf))
    after = read()
    w.ensure('flows, T, P unchanged by reading', w.And(w.eq(s.T, T0), w.eq(s.P, P0), *[w.eq(after[k], feed[k]) for k in feed]))
    w.canary('canary: Hnet = H', w.eq(Hnet, H))


# =========================================================================== 5. bounded: operation sequences on real chemicals (mode B)

_HIST_IDS = ('CO', 'H2O', 'CO2', 'H2', 'Methanol')
_HIST_ORDERS = {'same': (0, 1, 2, 3, 4), 'other': (4, 2, 0, 3, 1)}
W.preload([_HIST_IDS, tuple(_HIST_IDS[i] for i in _HIST_ORDERS['other'])])
_OPS = ('iso', 'adia+', 'adia-', 'adia0', 'setHnet', 'force', 'proxy-adia', 'member', 'view')
_WRITTEN = [({'CO': -1., 'H2O': -1., 'CO2': 1., 'H2': 1.}, 'CO', 0.10),          # shift
            ({'CO': -1., 'H2': -2., 'Methanol': 1.}, 'CO', 0.05)]                 # methanol synthesis


def real_history_configs(tier):
    out = []
    streams = ('gas;same-package', 'gas;other-package', 'two-phase;tagged')

    def add(cls, stream, basis, seq):
        out.append({'name': f'{cls};{stream};{basis};' + '>'.join(seq), 'cls': cls, 'stream': stream, 'basis': basis, 'seq': list(seq)})

    n = len(_OPS)
    for si, stream in enumerate(streams):
        for a in _OPS:                                  # every ordered pair of operations, single reaction
            for b in _OPS:
                if 'member' in (a, b) or ('view' in (a, b) and si != 2): continue
                add('single', stream, 'mol', (a, b))
        for ci, cls in enumerate(('parallel', 'series', 'system')):
            for k in range(n):                          # every rotation of the full cycle, reaction sets
                if tier == 'quick' and (k + si + ci) % 2: continue
                add(cls, stream, 'wt' if (k + ci) % 3 == 0 else 'mol', _OPS[k:] + _OPS[:k])
    if tier == 'thorough':
        for stream in streams:
            for a in _OPS:
                for b in _OPS:
                    for c in _OPS:
                        add('parallel', stream, 'mol', (a, b, c))
                        if 'member' not in (a, b, c): add('single', stream, 'wt', (a, b, c))
    return out


@group('C06/gap_real_history', configs=real_history_configs, mode='B',
       functions=[RXN + 'Reaction.__call__', RXN + 'Reaction.force_reaction', RXN + 'Reaction.adiabatic_reaction', RXN + 'Reaction.dH',
                  RXN + 'ReactionItem.dH', RXN + 'ReactionSet.__getitem__', STR + 'Stream.Hnet', STR + 'Stream.Hf', STR + 'Stream.H',
                  STR + 'Stream._get_property', MST + 'MultiStream.H', MST + 'MultiStream._get_property', STR + 'Stream.proxy',
                  'thermosteam.mixture.mixture:Mixture.solve_T_at_HP', 'thermosteam.mixture.mixture:Mixture.xsolve_T_at_HP'],
       notes='histories on ONE stream with the real property models, the real temperature solvers and the real property memo '
             '(the mode-S groups switch the memo off): every ordered pair (thorough: triple) of {isothermal call, adiabatic '
             'reaction with Q > 0 / Q < 0 / default, Hnet setter, force_reaction, adiabatic reaction through a proxy, a member of '
             'the set applied on its own, the phase-less twin of the program applied to the gas view of the two-phase stream} for one reaction and every second (thorough: every) rotation of the full cycle for '
             'Parallel-/SeriesReaction/ReactionSystem; water-gas shift + methanol synthesis (X = 0.10, 0.05) on a dilute gas '
             'stream at 420 K (same package / package in another order) and on a two-phase stream with phase-tagged reactions; '
             'Hnet, Hf, H are read before and after every step; steps whose outlet temperature leaves 250-700 K end the sequence')
def real_history(w, cfg):
    tagged = cfg['stream'].startswith('two-phase')
    rth = W.thermo(_HIST_IDS)
    sth = W.thermo(tuple(_HIST_IDS[i] for i in _HIST_ORDERS['other'])) if 'other' in cfg['stream'] else rth
    chems = rth.chemicals
    basis = cfg['basis']
    data = {c.ID: {'Hf': c.Hf, 'MW': c.MW, 'ref': c.phase_ref, 'Hfus': c.Hfus or 0.,
                   'Hvap298': (c.Hvap(T_REF) if not c.locked_state else 0.)} for c in chems}
    mw = {ID: data[ID]['MW'] for ID in _HIST_IDS}
    rxns, specs = [], []
    for nu, r, X in _WRITTEN:
        if basis == 'wt': nu = {ID: v * mw[ID] for ID, v in nu.items()}          # the same reaction written by weight
        ph = 'g' if tagged else None
        sp = Spec({(ph, ID): v for ID, v in nu.items()}, (ph, r), X, basis)
        specs.append(sp)
        rxns.append(tmo.Reaction({ID: ((ph, v) if tagged else v) for ID, v in nu.items()}, reactant=r, X=X, chemicals=chems, basis=basis,
                                 **({'phases': PH} if tagged else {})))
    cls = cfg['cls']

    def combine(rxns, specs):
        if cls == 'single': return rxns[0], {'kind': 'single', 'specs': specs[:1]}
        if cls == 'parallel': return tmo.ParallelReaction(rxns), {'kind': 'parallel', 'specs': specs}
        if cls == 'series': return tmo.SeriesReaction(rxns), {'kind': 'series', 'specs': specs}
        return tmo.ReactionSystem(*rxns), {'kind': 'system', 'members': [{'kind': 'single', 'specs': [sp]} for sp in specs]}

    obj, prog = combine(rxns, specs)
    if tagged:
        pspecs = [Spec({(None, ID): v for (ph, ID), v in sp.nu.items()}, (None, sp.r[1]), sp.X, basis) for sp in specs]
        prxns = [tmo.Reaction({ID: v for (ph, ID), v in sp.nu.items()}, reactant=sp.r[1], X=sp.X, chemicals=chems, basis=basis) for sp in pspecs]
        plain_obj, plain_prog = combine(prxns, pspecs)
    flows = dict(CO=10., H2O=60., CO2=5., H2=40., Methanol=2.)
    if tagged:
        s = tmo.MultiStream(None, phases=PH, thermo=sth, T=420., g=list(flows.items()), l=[('H2O', 25.), ('Methanol', 8.)])
    else:
        s = tmo.Stream(None, thermo=sth, phase='g', T=420., **flows)
    keys = [((ph if tagged else None), ID) for ph in (PH if tagged else (None,)) for ID in _HIST_IDS]

    def state():
        st = {k: float(s.imol[k] if tagged else s.imol[k[1]]) for k in keys}
        return st

    def formation(st):
        return sum(data[ID]['Hf'] * v for (ph, ID), v in st.items())

    for step, op in enumerate(cfg['seq']):
        tag = f'step {step} ({op})'
        st0 = state()
        H0, Hf0, Hnet0, T0 = s.H, s.Hf, s.Hnet, s.T
        w.ensure(f'{tag}: before: Hf = sum_k Hf_k n_k and Hnet = H + Hf', w.And(w.eq(Hf0, formation(st0)), w.eq(Hnet0, H0 + Hf0)))
        runner, eff = obj, prog
        if op == 'member' and cls in ('parallel', 'series'):
            runner, eff = obj[1], {'kind': 'single', 'specs': specs[1:]}
        elif op == 'member' and cls == 'system':
            runner, eff = obj[1], {'kind': 'single', 'specs': specs[1:]}
        target = s
        if op == 'view' and tagged:
            # the same program written without phases, applied to the gas view of the stream (read on the stream)
            runner, eff = plain_obj, plain_prog
            target = s['g']
        feds = []
        u = {k: (v * mw[k[1]] if basis == 'wt' else v) for k, v in st0.items()}
        if target is not s: u = {(None, ID): u['g', ID] for ID in _HIST_IDS}
        spec_apply(eff, u, feds)
        eff_specs = all_specs(eff)
        dHs = [runner.dH] if isinstance(runner, tmo.Reaction) else reported_dHs(runner)
        for n, (dh, sp) in enumerate(zip(dHs, eff_specs)):
            w.ensure(f'{tag}: reported dH of reaction {n} = X * sum nu_k (Hf_k + latent_k) [/MW_k]', w.eq(dh, spec_dH(sp, data)))
        heat = sum((dh - sp.X * spec_sum(sp, data, 'latent')) * fed for dh, sp, fed in zip(dHs, eff_specs, feds))
        Q = None
        try:
            if op in ('iso', 'member', 'view'): runner(target)
            elif op == 'force': runner.force_reaction(s)
            elif op == 'adia+': Q = 2.0e4; runner.adiabatic_reaction(s, Q)
            elif op == 'adia-': Q = -1.5e4; runner.adiabatic_reaction(s, Q)
            elif op == 'adia0': Q = 0.; runner.adiabatic_reaction(s)
            elif op == 'proxy-adia': Q = 5.0e3; runner.adiabatic_reaction(s.proxy(), Q)
            elif op == 'setHnet': Q = 1.0e4; s.Hnet = Hnet0 + Q
            else: raise AssertionError(op)
        except InfeasibleRegion:
            w.ensure(f'{tag}: no InfeasibleRegion on a feasible feed', False)
            return
        if not 250. <= s.T <= 700.:
            w.note(ended=f'{tag}: T = {s.T:.1f} K outside the range of the statement')
            return
        st1 = state()
        H1, Hf1, Hnet1 = s.H, s.Hf, s.Hnet
        w.ensure(f'{tag}: after: Hf = sum_k Hf_k n_k and Hnet = H + Hf', w.And(w.eq(Hf1, formation(st1)), w.eq(Hnet1, H1 + Hf1)))
        if op in ('iso', 'member', 'force', 'view'):
            w.ensure(f'{tag}: vacuity guard: the heat of the step is told apart from none at all', w.Not(w.eq(heat, 0.)))
            w.ensure(f'{tag}: isothermal: T unchanged', w.eq(s.T, T0))
            w.ensure(f'{tag}: (Hnet - H) after - (Hnet - H) before = sum_i (dH_i - latent part) * reactant fed to i',
                     w.eq((Hnet1 - H1) - (Hnet0 - H0), heat))
        else:
            w.ensure(f'{tag}: Hnet after = Hnet before + Q', w.eq(Hnet1, Hnet0 + Q))
            if Q: w.ensure(f'{tag}: vacuity guard: a lost heat input is told apart', w.Not(w.eq(Hnet0 + Q, Hnet0)))
            if op != 'setHnet':
                w.ensure(f'{tag}: formation enthalpy flow changed by sum_i (dH_i - latent part) * reactant fed to i', w.eq(Hf1 - Hf0, heat))
            else:
                w.ensure(f'{tag}: setting Hnet leaves the flows alone', w.And(*[w.eq(st1[k], st0[k]) for k in keys]))
        c = s.copy()
        w.ensure(f'{tag}: a fresh copy of the stream reports the same Hnet (nothing remembered is stale)', w.eq(c.Hnet, Hnet1))
    w.canary('canary (not evaluated in mode B; see the vacuity guards)', False)
    w.note(T=s.T, Hnet=s.Hnet)
