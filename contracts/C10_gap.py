# -*- coding: utf-8 -*-
"""
C10 — gap groups: real functions the keyed-access property depends on that the groups of C10_keyed_access.py /
C10_more.py never enter, and histories / observation channels they never produce.

  gap_units_access     Indexer.get_data / set_data, Stream.get_flow / set_flow, MultiStream.get_flow / set_flow (the
                       unit-carrying entry points of the same lookups) and the multi-phase MASS view (MassFlowIndexer: group
                       writes use the weight composition) read and written with every key form;
  gap_constructors     flows given by name when the object is made: Stream(**flows), MultiStream(**phase_flows),
                       reset_flow, ChemicalIndexer / MaterialIndexer / SplitIndexer (**data), chemicals.iarray / ikwarray /
                       isplit / array / kwarray / split / kwsplit;
  gap_views            lookups through the objects derived from an indexer: copy (shares the class-level cache), the
                       phase proxies of a MultiStream (get_phase), to_chemical_indexer / to_material_indexer, the mass
                       view made before the phase set grew;
  gap_reset_chemicals  lookups after an indexer was re-keyed to another property package (reset_chemicals, round trip
                       with the old container as the reaction code does it), with both caches filled before;
  gap_refused_history  refused lookups (phase the stream lacks, unknown name paired with a phase, malformed keys) change
                       neither the data nor any later lookup;
  gap_name_table       the remaining readers of the name -> position table (available_indices, __contains__,
                       __getitem__, get_index forms, set_synonym, chemical_group_members) and the order independence of
                       alias / group definition versus lookups.

Oracle and helpers are those of C10_keyed_access.py (imported, not modified).
"""
import sys

import numpy as np
import thermosteam as tmo
from thermosteam.exceptions import UndefinedChemicalAlias, UndefinedPhase
from engine.api import group
from engine.sx import tmo_world as W
from contracts import C10_keyed_access as K
from contracts.C10_keyed_access import MKey, ENGINE_EXC, _seqlike, _total

IX = sys.modules['thermosteam.indexer']


# --------------------------------------------------------------------------- small helpers

def scaled(x, f):
    """Oracle value times a conversion factor (nested lists)."""
    if isinstance(x, list):
        return [scaled(i, f) for i in x]
    return x * f


def view_rows(spec, rows, view):
    """Dense rows of the molar data seen as molar / mass flows."""
    if view == 'mol':
        return rows
    return [(p, [m * x for m, x in zip(spec.MW, d)]) for p, d in rows]


def comp_view(view):
    return {'mol': 'mol', 'mass': 'wt'}[view]


def no_stored_zero(w, s):
    """Representation invariant of the sparse rows.  Natively the test is the exact one (a stored entry is a float != 0.0):
    the tolerance of the native `ne` is relative to the largest leaf, and entries here are leaves divided by unit factors
    and molecular weights."""
    if w.symbolic:
        return W.rep_ok(w, s)
    return all(v != 0 and 0 <= i < sv.size for _, sv in W.rows_of(s) for i, v in sv.dct.items())


def make_value(w, spec, key, shape, tag='v'):
    """As K.make_value, but only the first element of an array may be zero (one fork instead of up to three)."""
    if shape == 'scalar':
        return w.real(tag)
    if shape == 'members':
        m = len(spec.groups[key])
    elif key is ...:
        m = spec.n
    else:
        m = len(key)
    vals = [w.real(f'{tag}{i}', nonzero=(i >= 1)) for i in range(m)]
    if shape == 'list':
        return vals
    return np.array(vals, dtype=object if w.symbolic else float)


# user units and their size relative to the units the data is held in (kmol/hr, kg/hr): 1 kmol = 1000 mol, 1 kg = 1000 g
UNITS = {'mol': ('mol/hr', 1000.), 'mass': ('g/hr', 1000.)}


def try_read(w, reader, key, exp):
    try:
        got = reader(key)
    except ENGINE_EXC:
        raise
    except Exception as e:
        return False, f'{key!r}: {type(e).__name__}: {e}'
    return K.same(w, got, exp), None


def check_reads(w, spec, s, items, multi, view, factor, reader, clause, per_label=True):
    """Every item read through `reader` = factor * positional read of the raw molar data (seen in `view`)."""
    rows = view_rows(spec, K.dense_rows(s), view)
    by = {}
    for it in items:
        lab = it.label if multi else it[0]
        key = it.key if multi else it[1]
        exp = K.multi_read(spec, rows, it) if multi else spec.read(rows[0][1], key)
        cond, prob = try_read(w, reader, key, scaled(exp, factor))
        d = by.setdefault(lab if per_label else '*', {'conds': [], 'probs': []})
        d['conds'].append(cond)
        if prob: d['probs'].append(prob)
    for lab, d in by.items():
        w.ensure(clause.format(lab) if per_label else clause, w.And(*d['conds']), keys=len(d['conds']), exceptions=d['probs'][:3])


# =========================================================================== gap_units_access

def _channels(multi):
    # 'item' (plain [] on the mass view) is new only for multi-phase data: C10/write_single covers the single-phase mass view
    return ('flow', 'data', 'item') if multi else ('flow', 'data')


def units_ops(spec, phases):
    if phases is None:
        return [(lab, None, ck, shape) for lab, ck, shape in K.write_ops(spec)]
    return K.mwrite_ops(spec, phases)


def _combos(multi):
    cs = [(view, chan) for view in ('mol', 'mass') for chan in _channels(multi) if not (chan == 'item' and view == 'mol')]
    return cs


def units_configs(tier):
    out = []

    def add(sname, wc, pn, ph, i, op, view, chan, h):
        lab, p, ck, shape = op
        if chan == 'data' and shape == 'list': chan = 'flow'       # set_data takes numbers and arrays
        out.append({'name': f'set={sname};phases={pn};op={i}:{lab}={shape};view={view};via={chan};history={h}',
                    'world': wc, 'phases': None if ph is None else list(ph), 'op': i, 'view': view, 'via': chan,
                    'history': h, 'flows': 'sparse' if i % 2 else 'pos'})

    if tier == 'thorough':
        for sname in (1, 2, 3, 4, 6):
            wc = K.world_cfg(sname); spec = K.Spec(wc)
            for pn, ph in (('l', None), ('gl', ('g', 'l')), ('Ll', ('L', 'l')), ('gls', ('g', 'l', 's'))):
                if pn in ('Ll', 'gls') and sname not in (3, 4): continue
                combos = _combos(ph is not None)
                for i, op in enumerate(units_ops(spec, ph)):
                    grp = 'group' in op[0] or 'mixed' in op[0]
                    for view, chan in (combos if grp else (combos[i % len(combos)], combos[(i + 2) % len(combos)])):
                        for h in (('fresh', 'h101') if i % 3 == 0 and sname == 3 else ('fresh',)):
                            add(sname, wc, pn, ph, i, op, view, chan, h)
        seen = set(); uniq = []
        for c in out:
            if c['name'] not in seen: seen.add(c['name']); uniq.append(c)
        return uniq
    # quick: every write op of set 3 once per phase set, the channel/view combination in rotation; ops that involve a
    # group additionally through the mass view by every channel; the group defined by weight (set 4, G3) through every
    # combination; a few ops after 101 other lookups
    wc3 = K.world_cfg(3); spec3 = K.Spec(wc3)
    for pn, ph in (('l', None), ('gl', ('g', 'l'))):
        combos = _combos(ph is not None)
        for i, op in enumerate(units_ops(spec3, ph)):
            view, chan = combos[i % len(combos)]
            add(3, wc3, pn, ph, i, op, view, chan, 'h101' if i % 9 == 4 else 'fresh')
            if 'G1' in op[0] and op[3] == 'scalar':
                for v2, c2 in combos:
                    if v2 == 'mass' and (v2, c2) != (view, chan): add(3, wc3, pn, ph, i, op, v2, c2, 'fresh')
    wc4 = K.world_cfg(4); spec4 = K.Spec(wc4)
    for pn, ph in (('l', None), ('gl', ('g', 'l')), ('Ll', ('L', 'l'))):
        for i, op in enumerate(units_ops(spec4, ph)):
            if 'G3' not in op[0] or op[3] not in ('scalar', 'array'): continue
            if pn == 'Ll' and not op[0].startswith('(..., group'): continue
            for view, chan in _combos(ph is not None):
                if view == 'mass' and chan in (('flow',) if ph is None else ('item', 'data') if pn == 'gl' else ('item',)):
                    add(4, wc4, pn, ph, i, op, view, chan, 'fresh')
    seen = set(); uniq = []
    for c in out:
        if c['name'] not in seen: seen.add(c['name']); uniq.append(c)
    return uniq


UNITS_FUNCS = ['thermosteam.indexer:Indexer.get_data', 'thermosteam.indexer:Indexer.set_data',
               'thermosteam.indexer:Indexer.get_conversion_factor',
               'thermosteam._stream:Stream.get_flow', 'thermosteam._stream:Stream.set_flow',
               'thermosteam._stream:Stream._get_flow_name_and_factor',
               'thermosteam._multi_stream:MultiStream.get_flow', 'thermosteam._multi_stream:MultiStream.set_flow',
               'thermosteam._stream:Stream.imass', 'thermosteam.indexer:MolarFlowIndexer.by_mass',
               'thermosteam.indexer:ChemicalMolarFlowIndexer.by_mass',
               'thermosteam.indexer:MaterialIndexer.__getitem__', 'thermosteam.indexer:MaterialIndexer.__setitem__',
               'thermosteam.indexer:group_wt_compositions', 'thermosteam.indexer:group_mol_compositions',
               'thermosteam.indexer:set_sparse_chemical_data', 'thermosteam.indexer:get_sparse_chemical_data']


def _star(key, multi):
    """The positional-argument form of a key for get_data / set_data (units, *index)."""
    if isinstance(key, tuple) and len(key) >= 2:
        return key                     # get_data(units, 'l', 'Water') / get_data(units, 'Water', 'Ethanol')
    return (key,)


@group('C10/gap_units_access', configs=units_configs, functions=UNITS_FUNCS)
def gap_units_access(w, cfg):
    wc = cfg['world']
    cs, th, spec = K.build(wc)
    multi = cfg['phases'] is not None
    s = K.new_stream(th, cfg['phases'] if multi else 'l')
    K.plant(w, s, 's', cfg['flows'])
    K.run_history(w, wc, spec, s, cfg['history'], multi)
    view, via = cfg['view'], cfg['via']
    units, f = UNITS[view]
    if via == 'item': units, f = None, 1.
    phases = list(s._imol._phases) if multi else None
    indexer = (lambda: s.imol) if view == 'mol' else (lambda: s.imass)

    def reader(key):
        if via == 'flow': return s.get_flow(units, key)
        if via == 'data': return indexer().get_data(units, *_star(key, multi))
        return indexer()[key]

    def writer(key, value):
        if via == 'flow': s.set_flow(value, units, key)
        elif via == 'data': indexer().set_data(value, units, *_star(key, multi))
        else: indexer()[key] = value

    # ---- reads: every key form, before the write
    items = K.multi_keys(spec, phases) if multi else K.chem_keys(spec)
    check_reads(w, spec, s, items, multi, view, f, reader, 'read[{}] in the requested units = factor * positional read')
    d0 = K.dense_rows(s)
    whole = reader(...) if not multi else None
    if not multi:
        w.ensure('read without a key = all entries in position order', K.same(w, whole, scaled(view_rows(spec, d0, view)[0][1], f)))
    if via == 'data':
        w.ensure('get_data without an index = all the data in the requested units',
                 K.same(w, indexer().get_data(units), scaled([d for _, d in view_rows(spec, d0, view)] if multi
                                                               else view_rows(spec, d0, view)[0][1], f)))
    # ---- one write
    lab, p, ck, shape = units_ops(spec, phases)[cfg['op']]
    before = K.dense_rows(s)
    before_v = view_rows(spec, before, view)
    cv = comp_view(view)
    nrow = len(before)
    if not multi:
        key = ck
        value = make_value(w, spec, ck, shape)
        plain = list(value) if _seqlike(value) else value
        rows_sel = [0]
        want = {0: spec.write(before_v[0][1], ck, scaled(plain, 1 / f) if _seqlike(plain) else plain / f, view=cv)}
        written = spec.written(ck, plain, cv)
        touched = set(spec.positions(ck))
    else:
        rows_sel = list(range(nrow)) if p is ... else [K.phase_row(phases, p)]
        if ck is MKey.ROW:
            key = p
            value = make_value(w, spec, ..., shape)
            plain = list(value) if _seqlike(value) else value
            want = {r: spec.write(before_v[r][1], ..., scaled(plain, 1 / f) if _seqlike(plain) else plain / f) for r in rows_sel}
            written = spec.written(..., plain)
            touched = set(range(spec.n))
        elif shape == 'perphase':
            key = (p, ck)
            value = make_value(w, spec, tuple(phases), 'array')
            plain = list(value)
            want = {r: spec.write(before_v[r][1], ck, plain[r] / f, view=cv) for r in rows_sel}
            written = plain
            touched = set(spec.positions(ck))
        else:
            key = (p, ck)
            value = make_value(w, spec, ck, shape)
            plain = list(value) if _seqlike(value) else value
            want = {r: spec.write(before_v[r][1], ck, scaled(plain, 1 / f) if _seqlike(plain) else plain / f, view=cv) for r in rows_sel}
            written = spec.written(ck, plain, cv)
            if p is ...: written = [written] * nrow
            touched = set(spec.positions(ck))
    if not K.accepted(w, lambda: writer(key, value)): return
    after = K.dense_rows(s)
    after_v = view_rows(spec, after, view)
    for r in range(nrow):
        ph = before[r][0]
        for k in range(spec.n):
            if r in rows_sel and k in touched:
                w.ensure(f'entry [{ph},{k}] (selected by the key) holds the written value (group: value * composition)',
                         w.eq(after_v[r][1][k], want[r][k]))
            else:
                w.ensure(f'entry [{ph},{k}] (not selected by the key) is untouched', w.eq(after[r][1][k], before[r][1][k]))
    cond, prob = try_read(w, reader, key, written)
    w.ensure('reading the key back (same units) returns what was written', cond, exception=prob)
    w.ensure('no stored zeros after the write', no_stored_zero(w, s))
    # the molar indexer and the other key forms still read positionally (same caches underneath)
    K.check_items(w, spec, s, (K.multi_keys(spec, phases)[::4] if multi else K.chem_keys(spec)[::2]), multi,
                  'after the write: key forms of the molar indexer = positional read', per_label=False)
    check_reads(w, spec, s, items[1::5], multi, view, f, reader, 'after the write: reads in the requested units = factor * positional read',
                per_label=False)
    K.ensure_coherent(w, spec, s, 'after write and lookups')
    r0, k0 = rows_sel[0], sorted(touched)[0]
    w.canary('canary: written entry keeps its old value', w.eq(after[r0][1][k0], before[r0][1][k0] + 1))


# =========================================================================== gap_constructors

def assignments(spec, pattern):
    """[(name, shape)]: the names a constructor is given flows for ('v' = any real, 'p' = non-zero)."""
    n = spec.n
    if pattern == 'names':        # ID of the last chemical, an alias of the first
        out = [spec.IDs[n - 1]] + ([spec.name(0, 2)] if n > 1 else [])
    elif pattern == 'group':      # a group and a chemical outside it (named by an alias)
        g = 'G1'
        outside = [k for k in range(n) if k not in spec.groups[g]]
        out = [g] + ([spec.name(outside[0], 1)] if outside else [])
    elif pattern == 'wtgroup':    # the group defined by weight and a chemical outside it
        g = 'G3'
        outside = [k for k in range(n) if k not in spec.groups[g]]
        out = ([spec.IDs[outside[0]]] if outside else []) + [g]
    elif pattern == 'cas':        # CAS number of the first, every other ID in reverse order
        out = [spec.IDs[k] for k in range(n - 1, 0, -1)] + [spec.CASs[0]]
    else:
        raise ValueError(pattern)
    return out


CONSTRUCTORS = {
    # kind: (view, units or None, multi, split semantics, allows groups)
    'Stream': ('mol', None, False), 'Stream[mol/hr]': ('mol', 'mol/hr', False), 'Stream[g/hr]': ('mass', 'g/hr', False),
    'Stream.reset_flow': ('mol', None, False), 'Stream.reset_flow[g/hr]': ('mass', 'g/hr', False),
    'MultiStream': ('mol', None, True), 'MultiStream[g/hr]': ('mass', 'g/hr', True), 'MultiStream[mol/hr]': ('mol', 'mol/hr', True),
    'MultiStream.reset_flow': ('mol', None, True), 'MultiStream.reset_flow[g/hr]': ('mass', 'g/hr', True),
    'MultiStream.reset_flow[mol/hr]': ('mol', 'mol/hr', True),
    'ChemicalMolarFlowIndexer': ('mol', None, False), 'ChemicalMolarFlowIndexer[mol/hr]': ('mol', 'mol/hr', False),
    'ChemicalMassFlowIndexer[g/hr]': ('massdata', 'g/hr', False),
    'MolarFlowIndexer': ('mol', None, True), 'MolarFlowIndexer[mol/hr]': ('mol', 'mol/hr', True),
    'MassFlowIndexer': ('massdata', None, True),
    'SplitIndexer': ('split', None, False), 'isplit(dict)': ('split', None, False), 'isplit(values, order)': ('split', None, False),
    'iarray': ('plain', None, False), 'ikwarray': ('plain', None, False),
    'array': ('array', None, False), 'kwarray': ('array', None, False),
    'split': ('splitarray', None, False), 'kwsplit': ('splitarray', None, False),
}


def constructor_configs(tier):
    out = []
    sets = (3, 4) if tier != 'thorough' else (1, 2, 3, 4, 6)
    for sname in sets:
        wc = K.world_cfg(sname)
        spec = K.Spec(wc)
        for kind, (view, units, multi) in CONSTRUCTORS.items():
            for pat in ('names', 'group', 'wtgroup', 'cas'):
                if pat == 'wtgroup' and 'G3' not in spec.groups: continue
                grp = pat in ('group', 'wtgroup')
                if grp and view in ('plain',): continue            # a unit-less ChemicalIndexer has no group compositions
                if tier != 'thorough':
                    if sname == 4 and pat != 'wtgroup': continue
                    if sname == 3 and pat == 'cas' and view not in ('array', 'plain', 'split') and kind not in ('Stream', 'MultiStream'): continue
                out.append({'name': f'set={sname};via={kind};names={pat}', 'world': wc, 'via': kind, 'names': pat})
    return out


CONSTRUCTOR_FUNCS = ['thermosteam._stream:Stream.__init__', 'thermosteam._stream:Stream._init_indexer', 'thermosteam._stream:Stream.reset_flow',
                     'thermosteam._multi_stream:MultiStream.__init__', 'thermosteam._multi_stream:MultiStream._init_indexer',
                     'thermosteam._multi_stream:MultiStream.reset_flow',
                     'thermosteam.indexer:ChemicalIndexer.__new__', 'thermosteam.indexer:ChemicalIndexer.blank',
                     'thermosteam.indexer:MaterialIndexer.__new__', 'thermosteam.indexer:MaterialIndexer.blank',
                     'thermosteam.indexer:SplitIndexer.__new__', 'thermosteam.indexer:SplitIndexer.blank',
                     'thermosteam._chemicals:CompiledChemicals.isplit', 'thermosteam._chemicals:CompiledChemicals.iarray',
                     'thermosteam._chemicals:CompiledChemicals.ikwarray', 'thermosteam._chemicals:CompiledChemicals.array',
                     'thermosteam._chemicals:CompiledChemicals.kwarray', 'thermosteam._chemicals:CompiledChemicals.split',
                     'thermosteam._chemicals:CompiledChemicals.kwsplit', 'thermosteam.indexer:Indexer.set_data']


def _expected_rows(spec, view, names_by_row, values_by_row, f, nrows):
    """Dense image (in the units the data is held in, seen in `view`) of a new / reset object given flows by name."""
    rows = []
    for r in range(nrows):
        d = [0.] * spec.n
        names, vals = names_by_row.get(r, ()), values_by_row.get(r, ())
        for x, v in zip(names, vals):
            v = v / f
            if x in spec.groups:
                if view in ('split', 'splitarray'):
                    for i in spec.groups[x]: d[i] = v
                else:
                    for i, c in zip(spec.groups[x], spec.comp[comp_view('mass' if view in ('mass', 'massdata') else 'mol')][x]): d[i] = v * c
            else:
                d[spec.pos[x]] = v
        rows.append(d)
    return rows


@group('C10/gap_constructors', configs=constructor_configs, functions=CONSTRUCTOR_FUNCS)
def gap_constructors(w, cfg):
    wc = cfg['world']
    cs, th, spec = K.build(wc)
    kind = cfg['via']
    view, units, multi = CONSTRUCTORS[kind]
    f = 1000. if units else 1.
    names = assignments(spec, cfg['names'])
    unit_interval = view in ('split', 'splitarray')
    vals = [] if unit_interval else [w.real(f'v{i}', nonzero=(i >= 1)) for i in range(len(names))]
    if unit_interval:
        vals = [w.real(f'u{i}', lo=0., hi=1., lo_strict=(i >= 1)) for i in range(len(names))]
    pairs = list(zip(names, vals))
    # second phase of multi-phase objects: one chemical by ID
    g_names, g_vals = [spec.IDs[0]], [w.real('vg', lo=0., lo_strict=True)] if multi else []
    obj = None
    phases = None

    def make():
        nonlocal obj, phases
        base = kind.split('[')[0]
        if base == 'Stream':
            obj = tmo.Stream(None, thermo=th, phase='l', units=units, **dict(pairs))
        elif base == 'Stream.reset_flow':
            obj = K.new_stream(th, 'l'); K.plant(w, obj, 's', 'pos')
            obj.reset_flow(phase='g', units=units, **dict(pairs))
        elif base == 'MultiStream':
            obj = tmo.MultiStream(None, thermo=th, units=units, l=pairs, g=list(zip(g_names, g_vals)))
        elif base == 'MultiStream.reset_flow':
            obj = K.new_stream(th, ('g', 'l')); K.plant(w, obj, 's', 'pos')
            obj.reset_flow(units=units, l=pairs, g=list(zip(g_names, g_vals)))
        elif base == 'ChemicalMolarFlowIndexer':
            obj = IX.ChemicalMolarFlowIndexer('l', units=units, chemicals=cs, **dict(pairs))
        elif base == 'ChemicalMassFlowIndexer':
            obj = IX.ChemicalMassFlowIndexer('l', units=units, chemicals=cs, **dict(pairs))
        elif base == 'MolarFlowIndexer':
            obj = IX.MolarFlowIndexer(units=units, chemicals=cs, l=pairs, g=list(zip(g_names, g_vals)))
        elif base == 'MassFlowIndexer':
            obj = IX.MassFlowIndexer(units=units, chemicals=cs, l=pairs, g=list(zip(g_names, g_vals)))
        elif base == 'SplitIndexer':
            obj = IX.SplitIndexer(cs, **dict(pairs))
        elif base == 'isplit(dict)':
            obj = cs.isplit(dict(pairs))
        elif base == 'isplit(values, order)':
            obj = cs.isplit(vals, order=names)
        elif base == 'iarray':
            obj = cs.iarray(names, vals)
        elif base == 'ikwarray':
            obj = cs.ikwarray(dict(pairs))
        elif base == 'array':
            obj = cs.array(names, vals)
        elif base == 'kwarray':
            obj = cs.kwarray(dict(pairs))
        elif base == 'split':
            obj = cs.split(names, vals)
        elif base == 'kwsplit':
            obj = cs.kwsplit(dict(pairs))
        else:
            raise ValueError(kind)

    has_group = any(x in spec.groups for x in names)
    if view == 'array' and has_group:
        # a plain array has no composition to distribute a group by: refusing (ValueError) is an allowed outcome;
        # what is not allowed is an array that silently puts the value somewhere
        try:
            make()
            refused = False
        except ValueError:
            refused = True
        w.ensure('a group name is refused (ValueError) where no composition applies', refused)
        K.ensure_coherent(w, spec, K.new_stream(th, 'l'), 'after the refused call')
        w.canary('canary: (refused)', False)
        return
    if not K.accepted(w, make): return
    # ---- dense image of the new object, in the units it holds
    if multi:
        imol = obj._imol if hasattr(obj, '_imol') else obj
        phases = list(imol._phases)
        got = [[sv.dct.get(i, 0.) for i in range(spec.n)] for sv in imol.data.rows]
        nrows = len(phases)
        by_row_n = {K.phase_row(phases, 'l'): names, K.phase_row(phases, 'g'): g_names}
        by_row_v = {K.phase_row(phases, 'l'): vals, K.phase_row(phases, 'g'): g_vals}
    else:
        if view in ('array', 'splitarray'):
            got = [list(obj)]
        else:
            data = obj._imol.data if hasattr(obj, '_imol') else obj.data
            got = [[data.dct.get(i, 0.) for i in range(spec.n)]]
        nrows = 1
        by_row_n, by_row_v = {0: names}, {0: vals}
    want = _expected_rows(spec, view, by_row_n, by_row_v, f, nrows)
    if view == 'mass':       # the object holds molar flows
        want = [[x / m for x, m in zip(d, spec.MW)] for d in want]
    named = {r: set(p for x in by_row_n.get(r, ()) for p in spec.positions(x)) for r in range(nrows)}
    for r in range(nrows):
        for k in range(spec.n):
            lab = f'[{phases[r]},{k}]' if multi else f'{k}'
            if k in named[r]:
                w.ensure(f'entry {lab} (named) holds the given value (group: value * composition)', w.eq(got[r][k], want[r][k]))
            else:
                w.ensure(f'entry {lab} (not named) is empty', w.eq(got[r][k], 0.))
    # ---- reading the names back returns what was given (every name of the chemical, in the units it was given in)
    if view not in ('array', 'splitarray'):
        conds, probs = [], []
        for x, v in pairs:
            if x in spec.groups:
                keys = [x]
                # (what was written: value * sum of the stored composition, which floats may leave one ulp off 1)
                exp = [v] * len(spec.groups[x]) if view == 'split' else spec.written(x, v, comp_view('mass' if view in ('mass', 'massdata') else 'mol'))
            else:
                keys = spec.all_names(spec.pos[x])
                exp = v
            for key in keys:
                if multi: key = ('l', key)
                if hasattr(obj, 'get_flow') and units: reader = lambda k: obj.get_flow(units, k)
                elif hasattr(obj, 'imol'): reader = lambda k: obj.imol[k]
                elif units: reader = lambda k: obj.get_data(units, *_star(k, multi))
                else: reader = lambda k: obj[k]
                c, p = try_read(w, reader, key, exp)
                conds.append(c)
                if p: probs.append(p)
        w.ensure('reading a name back returns the value given for it (by every name of the chemical)', w.And(*conds), exceptions=probs[:3])
    if kind.startswith('Stream.reset_flow'):
        w.ensure('reset_flow sets the phase it is given', obj.phase == 'g')
    if hasattr(obj, '_imol'):
        w.ensure('no stored zeros', no_stored_zero(w, obj))
        K.check_items(w, spec, obj, (K.multi_keys(spec, phases)[::3] if multi else K.chem_keys(spec)), multi,
                      'every key form = positional read on the new object', per_label=False)
        K.ensure_coherent(w, spec, obj, 'after construction and lookups')
    else:
        bad = K.chem_cache_incoherent(spec, cs)
        w.ensure('cache coherent: every entry of chemicals._index_cache = what a miss computes', not bad, incoherent=str(bad[:3]))
    k0 = sorted(named[0] or named[1])[0]
    r0 = 0 if named[0] else 1
    w.canary('canary: a named entry is empty', w.eq(got[r0][k0], want[r0][k0] + 1))


# =========================================================================== gap_views

class Holder:
    """Lets the helpers of C10_keyed_access (written for streams) work on a bare indexer."""
    def __init__(self, indexer):
        self._imol = self.imol = indexer
        self.chemicals = indexer._chemicals


def expand_in_place(w, s, new_phase, tag):
    """Grow the phase set of a multi-phase stream in place.  A phase of a new state of matter arrives with mix_from (the
    contents stay); the case twin of an existing phase ('L' next to 'l') is merged by mix_from by design and gets a row of
    its own only through copy_like from data that has both (the contents are then the other stream's)."""
    if new_phase.lower() not in [p.lower() for p in s._imol._phases]:
        src = K.new_stream(s._thermo, new_phase)
        src._imol.data.dct[0] = w.real(f'{tag}.x0', lo=0., lo_strict=True)
        s.mix_from([s, src], energy_balance=False)
        return
    src = K.new_stream(s._thermo, tuple(s._imol._phases) + (new_phase,))
    n = src.chemicals.size
    for r, (p, sv) in enumerate(W.rows_of(src)):
        sv.dct[r % n] = w.real(f'{tag}.x{r}', lo=0., lo_strict=True)
        sv.dct[(r + 1) % n] = w.real(f'{tag}.y{r}', lo=0., lo_strict=True)
    s.copy_like(src)


VIEW_KINDS = ('copy', 'copy-then-original-grows', 'copy-grows', 'stream-copy', 'phase-proxy', 'phase-proxy-write', 'phase-proxy-mass',
              'to_chemical_indexer', 'to_material_indexer', 'phases-setter', 'phase-setter', 'mass-view-then-grow')


def views_configs(tier):
    out = []
    sets = (3,) if tier != 'thorough' else (2, 3, 4, 6)
    for sname in sets:
        wc = K.world_cfg(sname)
        for pn, ph in (('gl', ('g', 'l')), ('Ll', ('L', 'l'))):
            for kind in VIEW_KINDS:
                for h in ('fresh', 'h101'):
                    if tier != 'thorough':
                        if pn == 'Ll' and kind not in ('phase-proxy', 'phase-proxy-write', 'to_material_indexer', 'phase-setter'): continue
                        if h == 'h101' and kind not in ('copy-then-original-grows', 'phase-proxy-write', 'phases-setter', 'mass-view-then-grow'): continue
                    out.append({'name': f'set={sname};phases={pn};view={kind};history={h}', 'world': wc, 'phases': list(ph),
                                'view': kind, 'history': h})
                    if kind in ('phase-proxy-write', 'mass-view-then-grow', 'copy-then-original-grows') and pn == 'gl' and h == 'fresh':
                        # the new phase is the case twin of an existing one: 'L' was an alias of row 'l', now it has its own row
                        out.append({'name': f'set={sname};phases={pn};view={kind};history={h};grow=L', 'world': wc, 'phases': list(ph),
                                    'view': kind, 'history': h, 'grow': 'L'})
    return out


VIEWS_FUNCS = ['thermosteam.indexer:Indexer.copy', 'thermosteam.indexer:MaterialIndexer._copy_without_data',
               'thermosteam.indexer:ChemicalIndexer._copy_without_data', 'thermosteam.indexer:MaterialIndexer.get_phase',
               'thermosteam._multi_stream:MultiStream.__getitem__', 'thermosteam.indexer:MaterialIndexer.to_chemical_indexer',
               'thermosteam.indexer:MaterialIndexer.to_material_indexer', 'thermosteam.indexer:ChemicalIndexer.to_material_indexer',
               'thermosteam.indexer:ChemicalIndexer.from_data', 'thermosteam.indexer:MaterialIndexer.from_data',
               'thermosteam._multi_stream:MultiStream.phases', 'thermosteam._multi_stream:MultiStream.phase',
               'thermosteam._stream:Stream.phases', 'thermosteam.indexer:MaterialIndexer._expand_phases',
               'thermosteam.indexer:MaterialIndexer._set_cache', 'thermosteam.indexer:MolarFlowIndexer.by_mass',
               'thermosteam.indexer:ChemicalMolarFlowIndexer.by_mass', 'thermosteam._phase:PhaseIndexer.__call__']


def _reads_ok(w, spec, holder, multi, clause, step=1, per_label=False):
    phases = holder._imol._phases if multi else None
    items = K.multi_keys(spec, phases)[::step] if multi else K.chem_keys(spec)[::step]
    K.check_items(w, spec, holder, items, multi, clause, per_label=per_label)


@group('C10/gap_views', configs=views_configs, functions=VIEWS_FUNCS)
def gap_views(w, cfg):
    wc = cfg['world']
    cs, th, spec = K.build(wc)
    ms = K.new_stream(th, cfg['phases'])
    K.plant(w, ms, 's', 'pos')
    K.run_history(w, wc, spec, ms, cfg['history'], True)
    kind = cfg['view']
    phases0 = list(ms._imol._phases)
    rows0 = K.dense_rows(ms)
    new_phase = cfg.get('grow', 's')

    def unchanged(rows_now, rows_before):
        return K.same(w, [d for _, d in rows_now], [d for _, d in rows_before])

    if kind in ('copy', 'copy-then-original-grows', 'copy-grows'):
        c = Holder(ms._imol.copy())
        w.ensure('the copy holds the same entries', unchanged(K.dense_rows(c), rows0))
        _reads_ok(w, spec, c, True, 'copy: every key form = positional read of the copy')
        if kind == 'copy-then-original-grows':
            expand_in_place(w, ms, new_phase, 'e')
            w.ensure('the phase set of the original grew', new_phase in ms._imol._phases and new_phase not in c._imol._phases)
            _reads_ok(w, spec, c, True, 'after the original grew a phase: every key form on the copy = positional read of the copy')
            _reads_ok(w, spec, ms, True, 'after the original grew a phase: every key form on the original = positional read', step=2)
            w.ensure('the copy is untouched by the growth of the original', unchanged(K.dense_rows(c), rows0))
            K.ensure_coherent(w, spec, c, 'copy, after the original grew')
        elif kind == 'copy-grows':
            src = IX.ChemicalMolarFlowIndexer.blank(new_phase, cs)
            src.data.dct[0] = w.real('e.x0', lo=0., lo_strict=True)
            c._imol.mix_from([c._imol, src])
            w.ensure('the phase set of the copy grew', new_phase in c._imol._phases and new_phase not in ms._imol._phases)
            _reads_ok(w, spec, c, True, 'after the copy grew a phase: every key form on the copy = positional read')
            _reads_ok(w, spec, ms, True, 'after the copy grew a phase: every key form on the original = positional read', step=2)
            w.ensure('the original is untouched by the growth of the copy', unchanged(K.dense_rows(ms), rows0))
            K.ensure_coherent(w, spec, c, 'copy, after it grew')
        else:
            v = w.real('v', nonzero=True)
            p0 = phases0[0]
            c.imol[p0, 'G1'] = v
            w.ensure('a write through a key of the copy leaves the original untouched', unchanged(K.dense_rows(ms), rows0))
            _reads_ok(w, spec, c, True, 'after a write on the copy: every key form = positional read of the copy', step=2)
            ms.imass                                                     # (the original has its mass view cached)
            check_reads(w, spec, c, K.multi_keys(spec, phases0)[::3], True, 'mass', 1., lambda k: c._imol.by_mass()[k],
                        'mass view of the copy: key forms = MW * positional read of the copy', per_label=False)
            check_reads(w, spec, ms, K.multi_keys(spec, phases0)[::3], True, 'mass', 1., lambda k: ms.imass[k],
                        'mass view of the original: key forms = MW * positional read of the original', per_label=False)
        K.ensure_coherent(w, spec, ms, 'original, at the end')
        w.canary('canary: copy reads another row', K.same(w, c.imol[phases0[0], spec.IDs[0]], K.dense_rows(c)[1][1][0] + 1))
        return
    if kind == 'stream-copy':
        s1 = K.new_stream(th, 'l'); K.plant(w, s1, 't', 'pos')
        K.run_history(w, wc, spec, s1, cfg['history'], False)
        s2 = s1.copy()
        m2 = ms.copy()
        _reads_ok(w, spec, s2, False, 'copy of a single-phase stream: every key form = positional read')
        _reads_ok(w, spec, m2, True, 'copy of a multi-phase stream: every key form = positional read')
        w.ensure('copies hold the same entries', w.And(unchanged(K.dense_rows(s2), K.dense_rows(s1)), unchanged(K.dense_rows(m2), rows0)))
        v = w.real('v', nonzero=True)
        s2.imol['G1'] = v
        m2.imol[phases0[-1], (spec.IDs[0], 'G1')] = v
        w.ensure('writes through keys of the copies leave the originals untouched', unchanged(K.dense_rows(ms), rows0))
        _reads_ok(w, spec, s2, False, 'after the write: every key form = positional read (single-phase copy)', step=2)
        _reads_ok(w, spec, m2, True, 'after the write: every key form = positional read (multi-phase copy)', step=3)
        K.ensure_coherent(w, spec, m2, 'copies, at the end')
        w.canary('canary: copy shares the data', unchanged(K.dense_rows(m2), rows0))
        return
    if kind.startswith('phase-proxy'):
        letters = K.phase_letters(phases0)
        for p in letters:
            r = K.phase_row(phases0, p)
            proxy = ms[p]
            h = Holder(proxy._imol)
            w.ensure(f'proxy of phase {p!r} shows the entries of that phase', K.same(w, K.dense_rows(h)[0][1], rows0[r][1]))
            if kind == 'phase-proxy-mass':
                check_reads(w, spec, proxy, K.chem_keys(spec), False, 'mass', 1., lambda k: proxy.imass[k],
                            f'proxy of phase {p!r}, mass view: every key form = MW * positional read', per_label=False)
            else:
                _reads_ok(w, spec, proxy, False, f'proxy of phase {p!r}: every key form = positional read of that phase')
        if kind == 'phase-proxy-write':
            p = letters[-1]
            r = K.phase_row(phases0, p)
            v = w.real('v')
            key = (spec.name(0, 2), 'G1') if 0 not in spec.groups['G1'] else 'G1'
            before = K.dense_rows(ms)
            ms[p].imol[key] = v
            after = K.dense_rows(ms)
            want = spec.write(before[r][1], key, v)
            for rr in range(len(phases0)):
                for k in range(spec.n):
                    w.ensure(f'write through the proxy: entry [{phases0[rr]},{k}]', w.eq(after[rr][1][k], want[k] if rr == r else before[rr][1][k]))
            w.ensure('write through the proxy is read back through the multi-phase indexer',
                     K.same(w, ms.imol[p, key], spec.written(key, v)))
            # the proxy still shows its phase after the phase set grew in place
            expand_in_place(w, ms, new_phase, 'e')
            ph1 = list(ms._imol._phases)
            rows1 = K.dense_rows(ms)
            for q in letters:
                proxy = ms[q]
                w.ensure(f'after the phase set grew: proxy of phase {q!r} shows the entries of that phase',
                         K.same(w, K.dense_rows(Holder(proxy._imol))[0][1], rows1[K.phase_row(ph1, q)][1]))
                _reads_ok(w, spec, proxy, False, f'after the phase set grew: proxy of phase {q!r}: key forms = positional read', step=3)
            w.ensure('no stored zeros', no_stored_zero(w, ms))
        _reads_ok(w, spec, ms, True, 'multi-phase indexer after using the proxies: every key form = positional read', step=2)
        K.ensure_coherent(w, spec, ms, 'after using the proxies')
        w.canary('canary: proxy shows another phase', K.same(w, ms[letters[0]].imol[spec.IDs[0]], K.dense_rows(ms)[-1][1][0] + 1))
        return
    if kind == 'to_chemical_indexer':
        ci = Holder(ms._imol.to_chemical_indexer('l'))
        tot = [_total([d[i] for _, d in rows0]) for i in range(spec.n)]
        w.ensure('single-phase form holds the total over the phases of every chemical', K.same(w, K.dense_rows(ci)[0][1], tot))
        _reads_ok(w, spec, ci, False, 'single-phase form: every key form = positional read')
        w.ensure('the multi-phase data is untouched', unchanged(K.dense_rows(ms), rows0))
        K.ensure_coherent(w, spec, ms, 'at the end')
        w.canary('canary: one phase only', K.same(w, ci.imol[spec.IDs[0]], rows0[0][1][0] + 1))
        return
    if kind == 'to_material_indexer':
        target = ('g', 'l', 's') if 'g' in phases0 else ('l', 's')     # ('L','l') -> ('l','s'): the L row has to land in l
        mi = Holder(ms._imol.to_material_indexer(target))
        rows1 = K.dense_rows(mi)
        exp = []
        for p in mi._imol._phases:
            src = [d for q, d in rows0 if q == p or (q not in target and q.lower() == p.lower())]
            exp.append([_total([d[i] for d in src]) for i in range(spec.n)])
        w.ensure('every phase row of the new indexer holds the entries of that phase (a phase missing from the new set lands in its case twin)',
                 K.same(w, [d for _, d in rows1], exp))
        _reads_ok(w, spec, mi, True, 'new phase set: every key form = positional read')
        single = K.new_stream(th, 'L'); K.plant(w, single, 't', 'pos')
        m2 = Holder(single._imol.to_material_indexer(('g', 'l')))
        w.ensure("a single phase 'L' cast to ('g', 'l') lands in row 'l'",
                 K.same(w, [d for _, d in K.dense_rows(m2)], [[0.] * spec.n, K.dense_rows(single)[0][1]]))
        _reads_ok(w, spec, m2, True, 'single-phase data cast to phases: every key form = positional read', step=2)
        w.ensure('the original data is untouched', unchanged(K.dense_rows(ms), rows0))
        K.ensure_coherent(w, spec, mi, 'at the end')
        w.canary('canary: rows swapped', K.same(w, mi.imol['l', spec.IDs[0]], rows1[0][1][0] + 1))
        return
    if kind == 'phases-setter':
        single = K.new_stream(th, 'l'); K.plant(w, single, 't', 'pos')
        K.run_history(w, wc, spec, single, cfg['history'], False)
        d1 = K.dense_rows(single)[0][1]
        single.phases = ('g', 'l')
        w.ensure("Stream.phases = ('g','l'): the entries are in row 'l', row 'g' is empty",
                 K.same(w, [d for _, d in K.dense_rows(single)], [[0.] * spec.n, d1]))
        _reads_ok(w, spec, single, True, 'after Stream.phases = ...: every key form = positional read')
        ms.phases = ('g', 'l', 's') if 'g' in phases0 else ('L', 'l', 's')
        rows1 = K.dense_rows(ms)
        w.ensure('MultiStream.phases = (more phases): every row holds the entries of its phase',
                 K.same(w, [d for p, d in rows1 if p in phases0], [d for _, d in rows0]))
        _reads_ok(w, spec, ms, True, 'after MultiStream.phases = ...: every key form = positional read')
        K.ensure_coherent(w, spec, ms, 'after the phase sets were replaced')
        K.ensure_coherent(w, spec, single, 'after the cast to multi-phase')
        w.canary('canary: rows swapped', K.same(w, single.imol['l', spec.IDs[0]], d1[0] + 1))
        return
    if kind == 'phase-setter':
        tot = [_total([d[i] for _, d in rows0]) for i in range(spec.n)]
        ms.phase = 'l'
        w.ensure('MultiStream.phase = p: a single-phase stream holding the totals', type(ms) is tmo.Stream and ms.phase == 'l')
        w.ensure('entries are the totals over the phases', K.same(w, K.dense_rows(ms)[0][1], tot))
        _reads_ok(w, spec, ms, False, 'after MultiStream.phase = p: every key form = positional read')
        ms.phases = tuple(phases0)
        _reads_ok(w, spec, ms, True, 'and back to the phases: every key form = positional read')
        K.ensure_coherent(w, spec, ms, 'after the casts')
        w.canary('canary: one phase only', K.same(w, ms.imol[spec.IDs[0]], rows0[0][1][0] + 1))
        return
    if kind == 'mass-view-then-grow':
        mv = ms.imass                                             # cached on the molar indexer
        check_reads(w, spec, ms, K.multi_keys(spec, phases0)[::2], True, 'mass', 1., lambda k: ms.imass[k],
                    'mass view: key forms = MW * positional read', per_label=False)
        expand_in_place(w, ms, new_phase, 'e')
        ph1 = list(ms._imol._phases)
        check_reads(w, spec, ms, K.multi_keys(spec, ph1), True, 'mass', 1., lambda k: ms.imass[k],
                    'mass view after the phase set grew: read[{}] = MW * positional read')
        v = w.real('v', nonzero=True)
        before = K.dense_rows(ms)
        ms.imass[new_phase, 'G1'] = v
        after = K.dense_rows(ms)
        r = ph1.index(new_phase)
        want = spec.write([m * x for m, x in zip(spec.MW, before[r][1])], 'G1', v, view='wt')
        for rr in range(len(ph1)):
            for k in range(spec.n):
                w.ensure(f'write through the mass view after the growth: entry [{ph1[rr]},{k}]',
                         w.eq(after[rr][1][k] * (spec.MW[k] if rr == r else 1.), want[k] if rr == r else before[rr][1][k]))
        _reads_ok(w, spec, ms, True, 'molar indexer after the growth: key forms = positional read', step=3)
        K.ensure_coherent(w, spec, ms, 'after the growth')
        rk = [(p_, k_) for p_, d_ in K.dense_rows(ms) for k_ in range(spec.n) if d_[k_] is not 0. and not (isinstance(d_[k_], float) and d_[k_] == 0.)][0]
        w.canary('canary: mass view reads the molar value',
                 K.same(w, ms.imass[rk[0], spec.IDs[rk[1]]], dict(K.dense_rows(ms))[rk[0]][rk[1]]))
        return
    raise ValueError(kind)


# =========================================================================== gap_reset_chemicals

def other_world(wcA, how):
    """A second property package holding the chemicals of A: in another order, plus one more chemical ('superset'),
    or fewer ('subset', for split indexers).  It defines the SAME alias for another chemical and the SAME group name with
    other members, so an answer computed from A's tables or caches is visibly wrong."""
    chemsA = list(wcA['chems'])
    extra = next(i for i in K.UNIVERSE[::-1] if i not in chemsA)
    if how == 'superset':
        chems = [chemsA[-1], extra] + chemsA[:-1]
    elif how == 'reversed':
        chems = chemsA[::-1]
    elif how == 'subset':
        chems = [extra] + chemsA[1:][::-1]
    else:
        raise ValueError(how)
    n = len(chems)
    aliases = {ID: [f'b{k}_{ID}'] for k, ID in enumerate(chems)}
    aliases[chems[0]].append('shared_alias')
    groups = {'G1': {'IDs': [chems[0], chems[n - 1]], 'comp': [0.5, 0.5], 'wt': False}}
    return {'set': f"{wcA['set']}/{how}", 'chems': chems, 'aliases': aliases, 'groups': groups}


def build_two(wcA, wcB):
    """Private packages A (as K.build) and B.  B is compiled and given its aliases first: the aliases a package has are
    those present on the Chemical objects when it is compiled plus its own set_alias calls."""
    for i in set(wcA['chems']) | set(wcB['chems']):
        c = W.chemical(i)
        c.aliases.clear(); c.aliases.update(K.ORIG_ALIASES[c.ID])
    csB = tmo.Chemicals([W.chemical(i) for i in wcB['chems']])
    csB.compile()
    thB = tmo.Thermo(csB)
    for ID, als in wcB['aliases'].items():
        for a in als: csB.set_alias(ID, a)
    for g, d in wcB['groups'].items():
        csB.define_group(g, d['IDs'], d['comp'], wt=d['wt'])
    csA, thA, specA = K.build(wcA)           # resets the aliases on the shared Chemical objects, then compiles A
    return (csA, thA, specA), (csB, thB, K.Spec(wcB))


for _i in K.UNIVERSE:
    W.chemical(_i)


def reset_configs(tier):
    out = []
    sets = (3,) if tier != 'thorough' else (1, 2, 3, 4, 6)
    for sname in sets:
        wcA = K.world_cfg(sname)
        wcA = dict(wcA, aliases={k: list(v) for k, v in wcA['aliases'].items()})
        wcA['aliases'][wcA['chems'][-1]].append('shared_alias')          # in B the same alias names another chemical
        for pn, ph in (('l', 'l'), ('gl', ['g', 'l']), ('split', None)):
            for how in (('superset', 'reversed') if ph is not None else ('subset', 'superset')):
                for via in (('reset_thermo', 'round_trip') if ph is not None else ('reset',)):
                    for h in ('fresh', 'h101'):
                        if tier != 'thorough' and h == 'h101' and (how == 'reversed' or ph is None): continue
                        if tier != 'thorough' and h == 'fresh' and how == 'superset' and via == 'round_trip' and pn == 'l': continue
                        out.append({'name': f'set={sname};data={pn};other={how};via={via};history={h}', 'world': wcA,
                                    'other': other_world(wcA, how), 'phases': ph, 'via': via, 'history': h})
    return out


@group('C10/gap_reset_chemicals', configs=reset_configs,
       functions=['thermosteam.indexer:ChemicalIndexer.reset_chemicals', 'thermosteam.indexer:MaterialIndexer.reset_chemicals',
                  'thermosteam.indexer:SplitIndexer.reset_chemicals', 'thermosteam._stream:Stream._reset_thermo',
                  'thermosteam.indexer:MaterialIndexer._set_cache', 'thermosteam.indexer:MaterialIndexer._get_index_data',
                  'thermosteam._chemicals:CompiledChemicals._get_index_and_kind', 'thermosteam.indexer:MaterialIndexer.get_phase'])
def gap_reset_chemicals(w, cfg):
    wcA, wcB = cfg['world'], cfg['other']
    (csA, thA, specA), (csB, thB, specB) = build_two(wcA, wcB)
    posB = {cas: k for k, cas in enumerate(specB.CASs)}
    if cfg['phases'] is None:
        # ---- split indexer: chemicals the new package lacks are dropped, the others keep their value under every name
        sp = IX.SplitIndexer.blank(chemicals=csA)
        for k in range(specA.n):
            sp.data.dct[k] = w.real(f'x{k}', lo=0., hi=1., lo_strict=True)
        old = [sp.data.dct.get(i, 0.) for i in range(specA.n)]
        for lab, key in K.chem_keys(specA): sp[key]                         # fills A's cache
        sp.reset_chemicals(csB)
        new = [sp.data.dct.get(i, 0.) for i in range(specB.n)]
        for k, cas in enumerate(specB.CASs):
            w.ensure(f'position {k} of the new package holds the split of the same chemical (absent before: empty)',
                     w.eq(new[k], old[specA.CASs.index(cas)] if cas in specA.CASs else 0.))
        conds, probs = [], []
        for lab, key in K.chem_keys(specB):
            c, p = try_read(w, lambda k_: sp[k_], key, K.split_read(specB, new, key))
            conds.append(c)
            if p: probs.append(p)
        w.ensure('after the re-keying: every key form of the new package = entries at its positions', w.And(*conds), exceptions=probs[:3])
        bad = K.chem_cache_incoherent(specB, csB) + K.chem_cache_incoherent(specA, csA)
        w.ensure('caches of both packages coherent', not bad, incoherent=str(bad[:3]))
        w.canary('canary: positions of the old package', w.eq(new[0], old[0] + 2))
        return
    multi = not isinstance(cfg['phases'], str)
    s = K.new_stream(thA, cfg['phases'])
    K.plant(w, s, 's', 'pos')
    K.run_history(w, wcA, specA, s, cfg['history'], multi)
    K.check_items(w, specA, s, (K.multi_keys(specA, s._imol._phases)[::2] if multi else K.chem_keys(specA)), multi,
                  'before: key forms = positional read', per_label=False)
    if multi:
        proxy = s[s._imol._phases[-1]]                                       # a phase proxy made before the re-keying
    rowsA = K.dense_rows(s)
    if cfg['via'] == 'reset_thermo':
        s._reset_thermo(thB)
    else:
        container = s._imol.reset_chemicals(csB)
    rowsB = K.dense_rows(s)
    w.ensure('the indexer now belongs to the new package', s._imol._chemicals is csB and len(rowsB[0][1]) == specB.n)
    for r, (p, d) in enumerate(rowsB):
        for k, cas in enumerate(specB.CASs):
            w.ensure(f'entry [{p},{k}] of the new package holds the flow of the same chemical (absent before: empty)',
                     w.eq(d[k], rowsA[r][1][specA.CASs.index(cas)] if cas in specA.CASs else 0.))
    hB = Holder(s._imol)
    itemsB = K.multi_keys(specB, s._imol._phases) if multi else K.chem_keys(specB)
    K.check_items(w, specB, hB, itemsB, multi, 'after the re-keying: read[{}] = positional read in the new package')
    K.check_items(w, specB, hB, itemsB[::3], multi, 'after the re-keying: repeated lookups = positional read', per_label=False)
    K.ensure_coherent(w, specB, hB, 'after the re-keying (new package)')
    # write through a key of the new package (the alias that named another chemical in the old package)
    v = w.real('v', nonzero=True)
    key = ('shared_alias', 'G1') if specB.pos['shared_alias'] not in specB.groups['G1'] else ('shared_alias',)
    val = np.array([v, 2 * v], dtype=object if w.symbolic else float)[:len(key)]
    before = K.dense_rows(s)
    p0 = s._imol._phases[0] if multi else None
    s._imol[(p0, key) if multi else key] = val
    after = K.dense_rows(s)
    want = specB.write(before[0][1], key, list(val))
    for r in range(len(after)):
        for k in range(specB.n):
            w.ensure(f'write through names of the new package: entry [{after[r][0]},{k}]', w.eq(after[r][1][k], want[k] if r == 0 else before[r][1][k]))
    if cfg['via'] == 'reset_thermo':
        if multi:
            pr = s[s._imol._phases[-1]]
            w.ensure('phase proxy after the re-keying shows the entries of its phase in the new package',
                     w.And(K.same(w, K.dense_rows(Holder(pr._imol))[0][1], after[-1][1]), pr is proxy, pr.chemicals is csB))
            K.check_items(w, specB, Holder(pr._imol), K.chem_keys(specB)[::2], False, 'phase proxy after the re-keying: key forms = positional read',
                          per_label=False)
        w.canary('canary: positions of the old package', w.eq(rowsB[0][1][0], rowsA[0][1][0] + 2))
        return
    # ---- back to the old package, handing the old container back (as the reaction code does); an entry emptied meanwhile
    kz = next((k for k in range(specB.n) if specB.CASs[k] in specA.CASs and k not in specB.positions(key)), None)
    if kz is not None:
        s._imol[(p0, specB.CASs[kz]) if multi else specB.CASs[kz]] = 0.
        after = K.dense_rows(s)
        w.ensure('an entry written as zero is empty', w.eq(after[0][1][kz], 0.))
    s._imol.reset_chemicals(csA, container)
    rowsA2 = K.dense_rows(s)
    for r, (p, d) in enumerate(rowsA2):
        for k, cas in enumerate(specA.CASs):
            w.ensure(f'round trip: entry [{p},{k}] of the old package holds the flow of the same chemical',
                     w.eq(d[k], after[r][1][posB[cas]]))
    itemsA = K.multi_keys(specA, s._imol._phases) if multi else K.chem_keys(specA)
    K.check_items(w, specA, s, itemsA, multi, 'round trip: read[{}] = positional read in the old package')
    K.ensure_coherent(w, specA, s, 'after the round trip (old package)')
    bad = K.chem_cache_incoherent(specB, csB)
    w.ensure('cache of the other package still coherent', not bad, incoherent=str(bad[:3]))
    w.canary('canary: positions of the new package', w.eq(rowsA2[0][1][0], after[0][1][0] + 2))


# =========================================================================== gap_refused_history

def refused_configs(tier):
    out = []
    sets = (2, 3) if tier != 'thorough' else (1, 2, 3, 4, 6)
    for sname in sets:
        for pn, ph in (('l', 'l'), ('gl', ['g', 'l']), ('Ll', ['L', 'l'])):
            if tier != 'thorough' and pn == 'Ll' and sname != 3: continue
            for h in ('fresh', 'h501'):
                if tier != 'thorough' and h == 'h501' and (sname != 3 or pn == 'Ll'): continue
                out.append({'name': f'set={sname};phases={pn};history={h}', 'world': K.world_cfg(sname), 'phases': ph, 'history': h})
    return out


def refused_probes(spec, phases):
    """[(label, key, is_write_only)] keys that name nothing: a phase the data lacks, a name no chemical has, keys that are
    not of the documented shape."""
    ID0, IDn = spec.IDs[0], spec.IDs[-1]
    probes = [('unknown name', 'Nope'), ('unknown name in a tuple', (ID0, 'Nope')), ('unknown name in a list', ['G1', 'Nope']),
              ('unordered collection', frozenset([ID0])), ('number', 5)]
    if phases is not None:
        lack = next(p for p in 'slg' if p not in [q.lower() for q in phases])
        p0 = phases[-1]
        probes += [('phase the data lacks', lack), ('phase the data lacks (upper case)', lack.upper()),
                   ('(phase the data lacks, ID)', (lack, ID0)), ('(phase the data lacks, group)', (lack, 'G1')),
                   ('[phase the data lacks, tuple]', [lack, (ID0, IDn)]),
                   ('(phase, unknown name)', (p0, 'Nope')), ('(phase, tuple with unknown name)', (p0, (IDn, 'Nope'))),
                   ('(..., unknown name)', (..., 'Nope')), ('(phase, ID, ID)', (p0, ID0, IDn)),
                   ('(number, ID)', (0, ID0))]
    return probes


@group('C10/gap_refused_history', configs=refused_configs,
       functions=['thermosteam.indexer:MaterialIndexer._get_index_data', 'thermosteam.indexer:MaterialIndexer._get_index_and_kind',
                  'thermosteam.indexer:raise_material_indexer_index_error', 'thermosteam._phase:PhaseIndexer.__call__',
                  'thermosteam._chemicals:CompiledChemicals._get_index_and_kind', 'thermosteam._chemicals:CompiledChemicals.index',
                  'thermosteam._chemicals:CompiledChemicals.indices', 'thermosteam.indexer:MaterialIndexer.__setitem__',
                  'thermosteam.indexer:ChemicalIndexer.__setitem__', 'thermosteam.utils.cache:trim_cache'])
def gap_refused_history(w, cfg):
    wc = cfg['world']
    cs, th, spec = K.build(wc)
    multi = not isinstance(cfg['phases'], str)
    s = K.new_stream(th, cfg['phases'])
    K.plant(w, s, 's', 'pos')
    K.run_history(w, wc, spec, s, cfg['history'], multi)
    phases = list(s._imol._phases) if multi else None
    rows0 = K.dense_rows(s)
    probes = refused_probes(spec, phases)
    answered, wrote = [], []
    for rnd in (0, 1):                                     # a refusal must not turn into an answer the second time
        for lab, key in probes:
            try:
                s.imol[key]
                answered.append((rnd, lab))
            except ENGINE_EXC:
                raise
            except Exception:
                pass
            try:
                s.imol[key] = 1.5
                wrote.append((rnd, lab))
            except ENGINE_EXC:
                raise
            except Exception:
                pass
    w.ensure('a key that names nothing in the data is refused (no value returned), also when asked again', not answered, answered=answered[:4])
    w.ensure('a write through a key that names nothing is refused', not wrote, accepted=wrote[:4])
    if multi:
        try:
            s.imol[spec.IDs[0]] = 1.5
            ok = False
        except IndexError:
            ok = True
        w.ensure('a write without a phase on multi-phase data is refused', ok)
    w.ensure('refused lookups and writes leave the data untouched', K.same(w, [d for _, d in K.dense_rows(s)], [d for _, d in rows0]))
    K.ensure_coherent(w, spec, s, 'after the refused lookups')
    items = K.multi_keys(spec, phases) if multi else K.chem_keys(spec)
    K.check_items(w, spec, s, items, multi, 'after refused lookups: read[{}] = positional read')
    K.check_items(w, spec, s, items[::2], multi, 'after refused lookups: repeated lookups = positional read', per_label=False)
    # a write through a valid key still lands where it should
    v = w.real('v')
    key = 'G1'
    before = K.dense_rows(s)
    s.imol[(phases[0], key) if multi else key] = v
    after = K.dense_rows(s)
    want = spec.write(before[0][1], key, v)
    for r in range(len(after)):
        for k in range(spec.n):
            w.ensure(f'write after refused lookups: entry [{after[r][0]},{k}]', w.eq(after[r][1][k], want[k] if r == 0 else before[r][1][k]))
    K.ensure_coherent(w, spec, s, 'at the end')
    w.canary('canary: the data changed', K.same(w, [d for _, d in after], [d for _, d in rows0]))


# =========================================================================== gap_name_table

def name_table_configs(tier):
    out = []
    for sname in ((2, 3, 4) if tier != 'thorough' else (1, 2, 3, '3r', 4, 5, 6, 8)):
        for h in ('fresh', 'h101'):
            if tier != 'thorough' and h == 'h101' and sname != 3: continue
            out.append({'name': f'set={sname};history={h};case=names', 'world': K.world_cfg(sname), 'history': h, 'case': 'names'})
        out.append({'name': f'set={sname};history=fresh;case=group-named-like-a-chemical', 'world': K.world_cfg(sname), 'history': 'fresh',
                    'case': 'collision'})
    return out


def _resolves(cs, x, k):
    """Every reader of the name -> position table agrees that name x is position k."""
    return (cs.index(x) == k and cs.indices([x]) == [k] and cs.get_index(x) == k and cs.get_index((x,)) == [k] and cs.get_index([x]) == [k]
            and cs.available_indices([x, 'Nope']) == [k] and cs.available_indices(('Nope', x, x)) == [k, k]
            and (x in cs) and cs[x] is cs.tuple[k] and cs[[x]] == [cs.tuple[k]] and cs[(x, x)] == [cs.tuple[k]] * 2
            and cs.__dict__.get(x) is cs.tuple[k] and cs._get_index_and_kind(x) == (k, 0) and cs._get_index_and_kind((x,)) == ([k], 3))


@group('C10/gap_name_table', configs=name_table_configs,
       functions=['thermosteam._chemicals:CompiledChemicals.available_indices', 'thermosteam._chemicals:CompiledChemicals.__contains__',
                  'thermosteam._chemicals:Chemicals.__getitem__', 'thermosteam._chemicals:CompiledChemicals.get_index',
                  'thermosteam._chemicals:CompiledChemicals.set_alias', 'thermosteam._chemicals:CompiledChemicals.define_group',
                  'thermosteam._chemicals:CompiledChemicals.chemical_group_members', 'thermosteam._chemicals:Chemicals.__new__',
                  'thermosteam._chemicals:Chemicals.compile', 'thermosteam._chemicals:CompiledChemicals._compile',
                  'thermosteam._chemicals:CompiledChemicals.get_aliases'])
def gap_name_table(w, cfg):
    wc = cfg['world']
    cs, th, spec = K.build(wc)
    s = K.new_stream(th, 'l')
    K.plant(w, s, 's', 'pos')
    K.run_history(w, wc, spec, s, cfg['history'], False)
    leaf = K.dense_rows(s)[0][1]
    n = spec.n
    if cfg['case'] == 'collision':
        # a user-defined group under a name that a chemical already has: either refused, or the chemical keeps its position
        k = 0
        taken = spec.name(k, 2)                                 # an alias of chemical 0
        members = [spec.IDs[n - 1]]
        before = K.same(w, s.imol[taken], leaf[k])
        try:
            cs.define_group(taken, members)
            refused = False
        except ValueError:
            refused = True
        try:
            still = _resolves(cs, taken, k)
            val = s.imol[taken]
        except ENGINE_EXC:
            raise
        except Exception:
            still, val = False, None
        w.ensure('every name of a chemical resolves to its single position, also after a group was defined under that name '
                 '(the definition may be refused)', w.And(before, refused or still, K.same(w, val, leaf[k])), refused=refused)
        w.ensure('the names of the chemical are unchanged', sorted(cs.get_aliases(spec.IDs[k])) == sorted(set(spec.all_names(k))))
        # the converse is refused by set_alias: a chemical cannot take the name of a group
        tbl = dict(cs._index)
        try:
            cs.set_alias(spec.IDs[k], 'G1')
            ok = False
        except ValueError:
            ok = dict(cs._index) == tbl
        w.ensure('an alias that is the name of a group is rejected (ValueError), table unchanged', ok)
        w.ensure('the group still reads as the sum of its members', K.same(w, s.imol['G1'], spec.read(leaf, 'G1')))
        w.canary('canary: alias reads another position', K.same(w, s.imol[spec.name(k, 1)], leaf[k] + 1))
        return
    for k in range(n):
        nm = spec.all_names(k)
        w.ensure(f'chemical {k}: every name resolves to position {k} through every reader of the name table',
                 all(_resolves(cs, x, k) for x in nm), names=nm)
    # names added late (after the lookups of the history), through the alternative spellings of the call
    late = {}
    for k in range(n):
        via = [spec.IDs[k], spec.CASs[k], spec.name(k, 2)][k % 3]       # the chemical may be named by ID, CAS or alias
        a = f'late{k}'
        (cs.set_synonym if k % 2 else cs.set_alias)(via, a)
        spec.pos[a] = k; spec.names[k]['alias'].append(a); late[a] = k
    for a, k in late.items():
        w.ensure(f'late alias of chemical {k}: resolves to position {k} through every reader', _resolves(cs, a, k))
        w.ensure(f'late alias of chemical {k}: reads the entry at position {k}, alone and in a tuple with an older name',
                 w.And(K.same(w, s.imol[a], leaf[k]), K.same(w, s.imol[a, spec.IDs[k]], [leaf[k], leaf[k]])))
    for k in range(n):
        w.ensure(f'chemical {k}: its names are exactly ID, CAS, aliases and unambiguous database names (after the late aliases)',
                 sorted(cs.get_aliases(spec.IDs[k])) == sorted(set(spec.all_names(k))))
    # group members by any name; members reported by ID in definition order
    gdef = {'IDs': [f'late{n - 1}', spec.CASs[0]] if n > 1 else ['late0'], 'comp': None, 'wt': False}
    cs.define_group('LateG', gdef['IDs'], gdef['comp'])
    spec.define('LateG', gdef)
    w.ensure('late group: members are the chemicals its names resolve to, in definition order',
             cs.chemical_group_members('LateG') == [spec.IDs[i] for i in spec.groups['LateG']] and cs.get_index('LateG') == spec.groups['LateG']
             and 'LateG' in cs and cs['LateG'] == [cs.tuple[i] for i in spec.groups['LateG']]
             and cs.available_indices(['LateG', 'Nope']) == [spec.groups['LateG']])
    K.check_items(w, spec, s, K.chem_keys(spec), False, 'after the late names: read[{}] = positional read')
    K.ensure_coherent(w, spec, s, 'after the late names')
    # the same chemical given twice when the package is made takes one position
    chems = [W.chemical(i) for i in wc['chems']]
    dup = tmo.Chemicals(chems + [chems[0]])
    dup.compile()
    w.ensure('a chemical listed twice takes one position; every name resolves to it',
             dup.IDs == spec.IDs and dup.size == n and all(dup.index(x) == k for k in range(n) for x in spec.all_names(k) if x in dup))
    w.canary('canary: late alias reads another position', K.same(w, s.imol['late0'], leaf[0] + 1))


# =========================================================================== gap_cross_package

CROSS_OPS = {
    # target kind: [(label, other's phases, operation)]
    'l': [('mix<-multi', ('g', 'l'), 'mix'), ('mix<-single', 'l', 'mix'), ('copy<-single', 'g', 'copy'),
          ('sep<-single', 'l', 'sep'), ('sep<-multi', ('g', 'l'), 'sep')],
    'gl': [('mix<-multi', ('g', 'l'), 'mix'), ('mix<-multi-twin', ('L', 'g'), 'mix'), ('mix<-single', 'g', 'mix'),
           ('copy<-single', 'l', 'copy'), ('copy<-multi', ('g', 'l'), 'copy'), ('copy<-multi-twin', ('L', 'g'), 'copy'),
           ('copy<-multi-other', ('l', 's'), 'copy'), ('sep<-single', 'l', 'sep'), ('sep<-multi', ('g', 'l'), 'sep'),
           ('sep<-multi-other', ('l',), 'sep')],
    # phase sets that differ only by case: the rows correspond one to one ("compatible")
    'ls': [('copy<-multi-compatible', ('L', 'S'), 'copy'), ('mix<-multi-compatible', ('L', 'S'), 'mix'),
           ('sep<-multi-compatible', ('L', 'S'), 'sep')],
}


def cross_configs(tier):
    out = []
    for sname in ((3,) if tier != 'thorough' else (1, 2, 3, 4, 6)):
        for tk, ops in CROSS_OPS.items():
            for i, (lab, oph, op) in enumerate(ops):
                for order in ('cold', 'warm', 'twice'):
                    if tier != 'thorough' and order != ('cold', 'warm', 'twice')[i % 3] and not (op == 'mix' and order != 'cold'): continue
                    if order == 'twice' and op == 'copy' and tier != 'thorough': continue
                    out.append({'name': f'set={sname};target={tk};op={lab};order={order}', 'world': K.world_cfg(sname), 'target': tk,
                                'op': i, 'order': order})
    return out


def _twin(p):
    return p.lower() if p.isupper() else p.upper()


def _by_cas(s):
    return {(p, cas): v for p, sv in W.rows_of(s) for cas, v in zip(s.chemicals.CASs, [sv.dct.get(i, 0.) for i in range(sv.size)])}


@group('C10/gap_cross_package', configs=cross_configs,
       functions=['thermosteam.indexer:index_overlap', 'thermosteam.indexer:ChemicalIndexer.mix_from', 'thermosteam.indexer:MaterialIndexer.mix_from',
                  'thermosteam.indexer:ChemicalIndexer.copy_like', 'thermosteam.indexer:MaterialIndexer.copy_like',
                  'thermosteam.indexer:ChemicalIndexer.separate_out', 'thermosteam.indexer:MaterialIndexer.separate_out',
                  'thermosteam.indexer:MaterialIndexer._expand_phases', 'thermosteam._chemicals:CompiledChemicals._get_index_and_kind',
                  'thermosteam.indexer:MaterialIndexer._get_index_data'])
def gap_cross_package(w, cfg):
    wc = cfg['world']
    cs, th, spec = K.build(wc)
    multi = cfg['target'] != 'l'
    s = K.new_stream(th, tuple(cfg['target']) if multi else 'l')
    K.plant(w, s, 's', 'pos')
    lab, oph, op = CROSS_OPS[cfg['target']][cfg['op']]
    oth = W.thermo(K.other_package(wc['chems']))
    o = K.new_stream(oth, oph if isinstance(oph, str) else tuple(oph))
    shared = [c for c in o.chemicals.CASs if c in spec.CASs]
    for p, sv in W.rows_of(o):
        for k, cas in enumerate(o.chemicals.CASs):
            if cas in shared:
                sv.dct[k] = w.real(f'o.{p}.{k}', lo=0., lo_strict=True)
    if op == 'sep':
        # requires of separate_out as used here: what is taken out is less than what is there (no entry is emptied, so
        # the kernels' "did this cancel to zero" tests do not fork; emptied entries are C09's / C01's subject)
        for p, sv in W.rows_of(s):
            for k, cas in enumerate(spec.CASs):
                if cas in shared:
                    w.assume(w.gt(sv.dct[k], 2 * _total([ov.dct[o.chemicals.CASs.index(cas)] for _, ov in W.rows_of(o)])))
    order = cfg['order']
    ckeys = K.cross_keys(wc, spec)
    total0 = _total([d[spec.CASs.index(shared[0])] for _, d in K.dense_rows(s)])
    if order == 'warm':
        # the user looked the same chemicals up by CAS numbers first: the cross-package code then finds its key in the cache
        if multi:
            warm = [MKey(l_, k_, None, k_) for l_, k_ in ckeys] + K.multi_keys(spec, s._imol._phases)[::5]
        else:
            warm = ckeys + K.chem_keys(spec)[::3]
        K.check_items(w, spec, s, warm, multi, 'before: lookups by CAS tuple = positional read', per_label=False)

    def run():
        if op == 'mix': s._imol.mix_from([s._imol, o._imol])
        elif op == 'copy': s._imol.copy_like(o._imol)
        else: s._imol.separate_out(o._imol)

    def expected(T):
        """The state by (phase, CAS) after the operation, from the state before and the other stream's state."""
        O = _by_cas(o)
        tph = [p for p, _ in W.rows_of(s)] if multi else None

        def row_of(q):
            if not multi: return W.rows_of(s)[0][0] if op != 'copy' else q
            return q if q in tph else (_twin(q) if _twin(q) in tph else q)
        if op == 'copy':
            new = {}
            for (q, cas), v in O.items():
                if cas in spec.CASs:
                    new[row_of(q), cas] = new.get((row_of(q), cas), 0.) + v
            return new
        new = dict(T)
        for (q, cas), v in O.items():
            if cas in spec.CASs:
                key = (row_of(q), cas)
                new[key] = new.get(key, 0.) + (v if op == 'mix' else -v)
        return new

    for rnd in range(2 if order == 'twice' else 1):
        T = _by_cas(s)
        try:
            run()
        except ENGINE_EXC:
            raise
        except Exception as e:
            w.ensure('the cross-package operation is accepted (all chemicals of the other stream are known here)', False,
                     exception=f'{type(e).__name__}: {e}')
            w.canary('canary: (refused)', False)
            return
        want = expected(T)
        got = _by_cas(s)
        conds = []
        for key in sorted(set(got) | set(want), key=str):
            conds.append(w.eq(got.get(key, 0.), want.get(key, 0.)))
        w.ensure(f'round {rnd}: every entry, found by phase and CAS number, holds what the operation defines (mix: sum, copy: the other\'s, '
                 'separate: difference); chemicals the other package lacks keep / lose their flow accordingly', w.And(*conds),
                 phases=[p for p, _ in W.rows_of(s)])
    K.ensure_coherent(w, spec, s, 'after the cross-package traffic')
    phases = s._imol._phases if multi else None
    items = (K.multi_keys(spec, phases) + [MKey(l_, k_, None, k_) for l_, k_ in ckeys] + [MKey(f'(phase, {l_})', (phases[0], k_), phases[0], k_) for l_, k_ in ckeys]) \
        if multi else K.chem_keys(spec) + ckeys
    K.check_items(w, spec, s, items, multi, 'after cross-package traffic: read[{}] = positional read')
    K.check_items(w, spec, s, items[::3], multi, 'after cross-package traffic: repeated lookups = positional read', per_label=False)
    K.ensure_coherent(w, spec, s, 'after the lookups')
    w.ensure('no stored zeros', no_stored_zero(w, s))
    w.canary('canary: the operation moved nothing', K.same(w, s.imol[shared[0]], total0))


# =========================================================================== gap_phase_indexer

def phase_indexer_configs(tier):
    return [{'name': 'all phase sets'}]


@group('C10/gap_phase_indexer', configs=phase_indexer_configs, loop_free=False,
       functions=['thermosteam._phase:PhaseIndexer.__new__', 'thermosteam._phase:PhaseIndexer.__call__', 'thermosteam._phase:PhaseIndexer.__contains__',
                  'thermosteam._phase:PhaseIndexer.__reduce__',
                  'thermosteam._phase:phase_tuple', 'thermosteam._phase:check_phase', 'thermosteam.indexer:MaterialIndexer._set_phases'])
def gap_phase_indexer(w, cfg):
    """Exhaustive over the 31 non-empty subsets of the five phase letters, created in two orders (the class keeps every
    PhaseIndexer it ever made, keyed by the set of phases)."""
    import itertools, pickle
    from thermosteam._phase import PhaseIndexer, phase_tuple
    W.reset_caches()
    letters = 'slgSL'
    subsets = [c for r in range(1, 6) for c in itertools.combinations(letters, r)]
    bad = []
    made = {}
    for rnd, seq in enumerate((subsets, subsets[::-1])):
        for sub in seq:
            want = tuple(sorted(sub))
            for arg in (list(sub), tuple(reversed(sub)), ''.join(sub), set(sub)):
                pi = PhaseIndexer(arg)
                if pi.phases != want: bad.append(('phases', sub, pi.phases))
                if made.setdefault(want, pi) is not pi: bad.append(('not unique', sub))
            if phase_tuple(list(sub) + [sub[0]]) != want: bad.append(('phase_tuple', sub))
            for p in letters:
                t = p.lower() if p.isupper() else p.upper()
                exp = want.index(p) if p in want else (want.index(t) if t in want else None)
                try:
                    got = pi(p)
                except UndefinedPhase:
                    got = None
                if got != exp or type(got) is not type(exp): bad.append(('row', sub, p, got, exp))
                if (p in pi) != (exp is not None): bad.append(('contains', sub, p))
            if pi(...) != slice(None): bad.append(('ellipsis', sub))
            for q in ('x', 'v', 'll', ''):
                try:
                    pi(q); bad.append(('invalid letter answered', sub, q))
                except UndefinedPhase:
                    pass
            if pickle.loads(pickle.dumps(pi)) is not pi: bad.append(('pickle', sub))
    w.ensure('every phase letter maps to its own row, else to the row of its case twin, else is refused; phases are sorted; one '
             'indexer per phase set whatever was created before', not bad, bad=str(bad[:4]))
    # a multi-phase indexer on each of a few sets uses it: reads by phase letter = positional row
    th = W.thermo(('Water', 'Ethanol'))
    for sub in (('g', 'l'), ('L', 'l'), ('S', 'g', 's'), tuple(sorted(letters))):
        s = K.new_stream(th, sub)
        for r, (p, sv) in enumerate(W.rows_of(s)):
            sv.dct[r % 2] = w.real(f'x.{"".join(sub)}.{p}', lo=0., lo_strict=True)
        rows = K.dense_rows(s)
        conds = []
        for p in letters:
            t = p.lower() if p.isupper() else p.upper()
            if p in sub or t in sub:
                r = sub.index(p) if p in sub else sub.index(t)
                conds.append(K.same(w, s.imol[p], rows[r][1]))
                conds.append(K.same(w, s.imol[p, 'Water'], rows[r][1][0]))
        w.ensure(f'phases {"".join(sub)}: reading by a phase letter returns the row of that phase', w.And(*conds))
    w.canary('canary: rows swapped', K.same(w, s.imol['g', 'Water'], rows[0][1][0] + 1))
