# -*- coding: utf-8 -*-
"""
C05 -- reactions conserve mass and atoms and convert exactly X of the reactant.

Contracts (sidecar) on the real functions of thermosteam/reaction/_reaction.py, _parse.py, _xparse.py
(executed, never re-implemented).  Every `ensures` is a sentence of the property:

  * stoichiometric update: a single reaction consumes exactly X * feed of its reactant and produces the
    others in stoichiometric proportion (nu_k / |nu_r|); parallel reactions take every extent from the feed,
    series reactions (and the members of a reaction system) from the running composition;
  * conservation: for a balanced stoichiometry the total mass and every element flow are unchanged;
  * mol and wt basis give the same stream;
  * on normal return no flow is negative; InfeasibleRegion is the allowed alternative, and only when a flow
    would be negative.

Balanced stoichiometry is a PRECONDITION (w.assume): an abstract formula matrix F[e,k] >= 0 (2 elements) with
sum_k F[e,k]*nu_k == 0, and the molecular weights are the real database floats with sum_k MW_k*nu_k == 0 assumed
as a separate row (choice stated in the report: MW is not tied to F).  Symbolic: every stoichiometric
coefficient, every conversion X in [0,1], every feed flow >= 0, F.

Round-off cleaning is part of the mechanism the property names (anchor "raises InfeasibleRegion on negative flows
below -1e-12 and zeroes round-off negatives"): under A-real a flow e in [-1e-12, 0) is set to 0 instead of raising,
so the per-chemical clause reads  m' == e  or  (-1e-12 <= e < 0 and m' == 0)  and conservation is exact whenever no
expected flow is negative, within 1e-12 * weight otherwise.
"""
import numpy as np
import thermosteam as tmo
from thermosteam.exceptions import InfeasibleRegion, UndefinedChemicalAlias
from thermosteam.base import SparseVector, SparseArray
from engine.api import group
from engine.sx import tmo_world as W
from engine.sx.sym import SymReal as _SymReal

# ---- engine adaptation, local to C05 runs (reported): SymReal must look like a float to the code under check
#  * float has no __len__: `isinstance(coefficient, Sized)` in _xparse.get_phases must be False
#  * DictionaryView.__setitem__ calls value.__float__() explicitly (mass-flow views); identity on symbolic reals,
#    the builtin float(SymReal) still raises TypeError (-> EngineUnsupported)
if '__len__' in _SymReal.__dict__:
    del _SymReal.__len__
if '__float__' not in _SymReal.__dict__:
    _SymReal.__float__ = lambda self: self

P3 = ('Water', 'Ethanol', 'Methanol')            # the reaction's package
P4 = ('Water', 'Ethanol', 'Methanol', 'Octane')
Q3 = ('Methanol', 'Water', 'Ethanol')            # same chemicals, other order (another package object)
Q4 = ('Octane', 'Methanol', 'Water', 'Ethanol')  # reordered superset of P3
PKG = {'P3': P3, 'P4': P4, 'Q3': Q3, 'Q4': Q4}
W.preload([P3, P4, Q3, Q4])
PH = ('g', 'l')
N_ELEM = 2
TOL = 1e-12        # the round-off threshold of Reaction.__call__ (property anchor)
ASSUME = ['requires: balanced stoichiometry (sum_k MW_k nu_k == 0 with the database MW, sum_k F[e,k] nu_k == 0 for an abstract F >= 0)',
          'requires: conversions in [0,1], feed flows >= 0, reactant coefficient < 0',
          'A-L0: sparse kernels at contract level (C09)',
          'C05-local engine adaptation: SymReal.__len__ removed (float has none), SymReal.__float__() is the identity']


# --------------------------------------------------------------------------- specification side (the statement)

class Spec:
    """One written reaction: coefficients nu[(phase|None, ID)], reactant key, conversion, basis."""
    def __init__(self, nu, r, X, basis):
        self.nu, self.r, self.X, self.basis = nu, r, X, basis


def spec_single(sp, u):
    ext = u[sp.r] * sp.X / (-sp.nu[sp.r])
    return {k: u[k] + ext * sp.nu[k] if k in sp.nu else u[k] for k in u}


def spec_parallel(sps, u):
    new = dict(u)
    for sp in sps:                      # every extent from the FEED composition u
        ext = u[sp.r] * sp.X / (-sp.nu[sp.r])
        for k in sp.nu:
            new[k] = new[k] + ext * sp.nu[k]
    return new


def spec_series(sps, u):
    for sp in sps:                      # running composition
        u = spec_single(sp, u)
    return u


def spec_apply(prog, u):
    kind = prog['kind']
    if kind == 'single': return spec_single(prog['specs'][0], u)
    if kind == 'parallel': return spec_parallel(prog['specs'], u)
    if kind == 'series': return spec_series(prog['specs'], u)
    if kind == 'system':
        for m in prog['members']: u = spec_apply(m, u)
        return u
    raise AssertionError(kind)


def all_specs(prog):
    if prog['kind'] == 'system':
        return [s for m in prog['members'] for s in all_specs(m)]
    return prog['specs']


# --------------------------------------------------------------------------- building the real objects

def _mw(IDs):
    chems = W.thermo(IDs).chemicals
    return {ID: float(x) for ID, x in zip(chems.IDs, chems.MW)}


def weights(w, IDs):
    """Conservation rows per mol of chemical: real MW, abstract formula rows F[e, k] >= 0."""
    rows = {'mass': _mw(IDs)}
    for e in range(N_ELEM):
        rows[f'element{e}'] = {ID: w.real(f'F{e}.{ID}', lo=0.) for ID in IDs}
    return rows


def make_spec(w, tag, desc, basis, rows, mw, unit_reactant=False):
    """
    desc = {'nu': [[ID, phase|None], ...], 'reactant': ID}.  Plants the coefficients (reactant < 0, others any real),
    the conversion in [0,1], and ASSUMES that the stoichiometry is balanced for every conservation row.
    For basis 'wt' the coefficients are per mass, i.e. the molar coefficient is nu_k / MW_k.
    """
    nu = {}
    r = None
    for ID, ph in desc['nu']:
        if ID == desc['reactant']:
            r = (ph, ID)
            nu[ph, ID] = w.real(f'{tag}.nu.{ID}', hi=0., hi_strict=True)
            if unit_reactant:       # written per unit of reactant; kept as a leaf so that all arithmetic stays exact (A-real)
                w.assume(w.eq(nu[ph, ID], -1.))
        else:
            nu[ph, ID] = w.real(f'{tag}.nu.{ID}')
    X = w.real(f'{tag}.X', lo=0., hi=1.)
    for name, c in rows.items():
        w.assume(w.eq(w.total([(c[ID] / mw[ID] if basis == 'wt' else c[ID]) * v for (ph, ID), v in nu.items()]), 0.))
    return Spec(nu, r, X, basis)


def make_rxn(sp, chems, tagged):
    if tagged:
        d = {ID: (ph, v) for (ph, ID), v in sp.nu.items()}
        return tmo.Reaction(d, reactant=sp.r[1], X=sp.X, chemicals=chems, basis=sp.basis, phases=PH)
    d = {ID: v for (ph, ID), v in sp.nu.items()}
    return tmo.Reaction(d, reactant=sp.r[1], X=sp.X, chemicals=chems, basis=sp.basis)


def make_program(w, cfgprog, basis, rows, mw, chems, tagged, tag='rx', unit_reactant=False):
    """cfgprog = {'kind':..., 'rxns': [desc...]} or {'kind':'system','members':[cfgprog...]} -> (program, real object)."""
    kind = cfgprog['kind']
    if kind == 'system':
        members, objs = [], []
        for n, m in enumerate(cfgprog['members']):
            p, o = make_program(w, m, basis, rows, mw, chems, tagged, f'{tag}{n}', unit_reactant)
            members.append(p); objs.append(o)
        return {'kind': 'system', 'members': members}, tmo.ReactionSystem(*objs)
    specs = [make_spec(w, f'{tag}{n}' if len(cfgprog['rxns']) > 1 else tag, d, basis, rows, mw, unit_reactant)
             for n, d in enumerate(cfgprog['rxns'])]
    rxns = [make_rxn(sp, chems, tagged) for sp in specs]
    if kind == 'single': obj = rxns[0]
    elif kind == 'parallel': obj = tmo.ParallelReaction(rxns)
    elif kind == 'series': obj = tmo.SeriesReaction(rxns)
    else: raise AssertionError(kind)
    return {'kind': kind, 'specs': specs}, obj


def _put(sv, i, v):
    """Plant a possibly-zero flow without a presence fork (contract level) / as the real code stores it (native)."""
    d = sv.dct
    if hasattr(d, 'put'): d.put(i, v)
    elif v: d[i] = v


def make_material(w, kind, pkg, tagged, name='m', values=None, pattern=None):
    """
    Returns (material, read, keys, stream) with read() -> {(phase|None, ID): value in the material's own units,
    mol for streams} and the feed as the same kind of dict.  values: reuse the leaves of another material.
    """
    IDs = PKG[pkg]
    phases = PH if tagged else (None,)
    keys = [(ph, ID) for ph in phases for ID in IDs]
    pattern = pattern or {}
    if values is None:
        values = {}
        for k in keys:
            p = pattern.get(k, pattern.get('default', 'maybe'))
            values[k] = 0. if p == 'zero' else w.real(f'{name}.{k[0] or "x"}.{k[1]}', lo=0., lo_strict=(p == 'pos'))
    feed = dict(values)
    if kind in ('sv', 'nd'):
        table = [[values[ph, ID] for ID in IDs] for ph in phases]
        if kind == 'nd':
            arr = np.array(table if tagged else table[0], dtype=object if w.symbolic else float)
            mat = arr
            def read():
                a = arr if tagged else [arr]
                return {(ph, ID): a[i][j] for i, ph in enumerate(phases) for j, ID in enumerate(IDs)}
        else:
            mat = SparseArray(table) if tagged else SparseVector(table[0])
            def read():
                rws = mat.rows if tagged else [mat]
                return {(ph, ID): rws[i].dct.get(j, 0.) for i, ph in enumerate(phases) for j, ID in enumerate(IDs)}
        return mat, read, feed, None
    th = W.thermo(IDs)
    if tagged:
        s = tmo.MultiStream(None, phases=PH, thermo=th)
    else:
        s = tmo.Stream(None, thermo=th, phase='l')
    for ph, sv in W.rows_of(s):
        for j, ID in enumerate(IDs):
            k = ((ph if tagged else None), ID)
            if pattern.get(k, pattern.get('default', 'maybe')) == 'pos': sv.dct[j] = values[k]     # known present
            else: _put(sv, j, values[k])

    def read():
        out = {}
        cur = s.chemicals.IDs
        for ph, sv in W.rows_of(s):
            for j, ID in enumerate(cur):
                out[(ph if tagged else None), ID] = sv.dct.get(j, 0.)
        return out
    if kind == 'massview':
        return s.imass.data, read, feed, s
    return s, read, feed, s


def sparse_pattern(cfgprog, pkg, tagged):
    """Presence pattern that keeps the number of `if value:` forks small: reactants > 0, the other participating
    entries >= 0 (undecided), one inert entry > 0, everything else empty."""
    descs = []
    def walk(p):
        if p['kind'] == 'system':
            for m in p['members']: walk(m)
        else: descs.extend(p['rxns'])
    walk(cfgprog)
    pat = {'default': 'zero'}
    for d in descs:
        for ID, ph in d['nu']:
            pat.setdefault((ph if tagged else None, ID), 'maybe')
    for d in descs:
        ph = dict(map(tuple, d['nu']))[d['reactant']]
        pat[(ph if tagged else None, d['reactant'])] = 'pos'
    for ph in (PH if tagged else (None,)):
        for ID in PKG[pkg]:
            if (ph, ID) not in pat:
                pat[ph, ID] = 'pos'
                return pat
    return pat


class _Scaled:
    """The world with a NATIVE equality tolerance that follows the conditioning of the update (floats are not reals:
    a path model with flows ~1e13 and coefficients ~1e14 cancels catastrophically).  Symbolically `eq` stays exact."""
    def __init__(self, w):
        self.__dict__['_w'] = w
        self.__dict__['scale'] = 0.

    def __getattr__(self, n): return getattr(self._w, n)

    def __setattr__(self, n, v): self.__dict__[n] = v

    def eq(self, a, b):
        w = self._w
        if w.symbolic or isinstance(a, (str, type(None))) or isinstance(b, (str, type(None))):
            return w.eq(a, b)
        a = float(a); b = float(b)
        return abs(a - b) <= 1e-9 + 1e-7 * max(abs(a), abs(b), self.scale)

    def Implies(self, a, b): return self.Or(self.Not(a), b)


def set_scale(w, prog, u, rows, mw):
    if w.symbolic: return
    s = sum(abs(float(v)) for v in u.values())
    for sp in all_specs(prog):
        s *= 1. + sum(abs(float(v)) for v in sp.nu.values()) / abs(float(sp.nu[sp.r]))
    s *= max(mw.values()) / min(mw.values())
    s *= 1. + max(float(v) for c in rows.values() for v in c.values())
    w.scale = s


def row_total(c, state, mw=None):
    """sum_k c_k * state_k (state in mol), or with mw given state in mass units."""
    return sum([(c[ID] / mw[ID] if mw else c[ID]) * v for (ph, ID), v in state.items() if ID in c], 0.)


def snapshot_rxn(obj):
    """Observable definition of a reaction object (frame clauses)."""
    if isinstance(obj, tmo.ReactionSystem):
        return [snapshot_rxn(i) for i in obj._reactions]
    st = obj._stoichiometry
    sts = st if isinstance(st, list) else [st]
    dense = []
    for a in sts:
        for rw in (a.rows if hasattr(a, 'rows') else [a]):
            dense.append([rw.dct.get(j, 0.) for j in range(rw.size)])
    X = obj._X
    return {'st': dense, 'X': list(X) if hasattr(X, '__iter__') else [X], 'basis': obj._basis,
            'r': str(obj._reactant_index), 'chem': obj.chemicals.IDs}


def same_rxn(w, a, b):
    if isinstance(a, list):
        return w.And(*[same_rxn(w, i, j) for i, j in zip(a, b)])
    if (a['basis'], a['r'], a['chem']) != (b['basis'], b['r'], b['chem']) or len(a['st']) != len(b['st']):
        return w.And(False)
    cs = [w.eq(x, y) for ra, rb in zip(a['st'], b['st']) for x, y in zip(ra, rb)]
    cs += [w.eq(x, y) for x, y in zip(a['X'], b['X'])]
    return w.And(*cs)


# --------------------------------------------------------------------------- structure families

def _desc(ids, reactant, phase_of=None):
    return {'nu': [[i, (phase_of or {}).get(i)] for i in ids], 'reactant': reactant}


def _ph(ids, pattern):
    return {i: p for i, p in zip(ids, pattern)}


def programs(tier, tagged, pkg='P3'):
    """Named reaction structures: which chemicals carry a coefficient, which is the reactant, how they are combined."""
    a, b, c = P3
    pho = (lambda ids, pat: _ph(ids, pat)) if tagged else (lambda ids, pat: None)
    out = {}
    # every choice of reactant, reactions touching 2 and 3 chemicals
    for r in P3:
        out[f'single3[{r}]'] = {'kind': 'single', 'rxns': [_desc(P3, r, pho(P3, 'lgg' if r == a else 'glg'))]}
    out[f'single2[{a}>{b}]'] = {'kind': 'single', 'rxns': [_desc((a, b), a, pho((a, b), 'lg'))]}
    out[f'single2[{c}>{a}]'] = {'kind': 'single', 'rxns': [_desc((c, a), c, pho((c, a), 'll'))]}
    d1 = _desc((a, b), a, pho((a, b), 'lg'))
    d2 = _desc((b, c), b, pho((b, c), 'gl'))
    d3 = _desc(P3, a, pho(P3, 'lgg'))
    d4 = _desc((a, c), c, pho((a, c), 'll'))
    out['parallel[a>b|b>c]'] = {'kind': 'parallel', 'rxns': [d1, d2]}
    out['series[a>b;b>c]'] = {'kind': 'series', 'rxns': [d1, d2]}
    out['parallel[a>b|a>bc]'] = {'kind': 'parallel', 'rxns': [d1, d3]}       # same reactant twice
    out['series[a>b;a>bc]'] = {'kind': 'series', 'rxns': [d1, d3]}
    out['system[a>b;b>c]'] = {'kind': 'system', 'members': [{'kind': 'single', 'rxns': [d1]}, {'kind': 'single', 'rxns': [d2]}]}
    out['system[par(a>b|b>c);c>a]'] = {'kind': 'system', 'members': [{'kind': 'parallel', 'rxns': [d1, d2]},
                                                                     {'kind': 'single', 'rxns': [d4]}]}
    if tier == 'thorough':
        out['parallel3'] = {'kind': 'parallel', 'rxns': [d1, d2, d4]}
        out['series3'] = {'kind': 'series', 'rxns': [d1, d2, d4]}
        out['series4'] = {'kind': 'series', 'rxns': [d1, d2, d4, d3]}
        out['parallel4'] = {'kind': 'parallel', 'rxns': [d1, d2, d4, d3]}
        out['system[ser(a>b;b>c);par(a>b|c>a);a>bc]'] = {'kind': 'system', 'members': [
            {'kind': 'series', 'rxns': [d1, d2]}, {'kind': 'parallel', 'rxns': [d1, d4]}, {'kind': 'single', 'rxns': [d3]}]}
    return out


def programs4(tier, tagged):
    """Structures on the 4-chemical package: reactions touching 4 chemicals (every reactant), 2+2, chains of 3."""
    a, b, c, d = P4
    pho = (lambda ids, pat: _ph(ids, pat)) if tagged else (lambda ids, pat: None)
    out = {}
    for r in (P4 if tier == 'thorough' else (d,)):
        out[f'single4[{r}]'] = {'kind': 'single', 'rxns': [_desc(P4, r, pho(P4, 'lggl'))]}
    e1 = _desc((a, b), a, pho((a, b), 'lg'))
    e2 = _desc((c, d), c, pho((c, d), 'gl'))
    e3 = _desc((b, c, d), b, pho((b, c, d), 'ggl'))
    out['parallel[a>b|c>d]'] = {'kind': 'parallel', 'rxns': [e1, e2]}
    if tier == 'thorough':
        out['series[a>b;b>cd;c>d]'] = {'kind': 'series', 'rxns': [e1, e3, e2]}
        out['parallel[a>b|b>cd|c>d]'] = {'kind': 'parallel', 'rxns': [e1, e3, e2]}
        out['system[a>b;par(b>cd|c>d)]'] = {'kind': 'system', 'members': [{'kind': 'single', 'rxns': [e1]},
                                                                         {'kind': 'parallel', 'rxns': [e3, e2]}]}
    return out


# --------------------------------------------------------------------------- 1. the arithmetic kernels

def _unit(tier, prog, symbolic_ok=True, light=True):
    """Whether the reactant coefficient is pinned to -1 (leaf with nu_r == -1 assumed) instead of any negative real.
    The division by a symbolic |nu_r| (Reaction._rescale) is what makes the VCs expensive (measured: 0.2 s pinned,
    10 s - 12 min free for the same structure).  C05/kernel discharges the free form for every structure with <= 2
    reactions; the other groups use it where the budget allows: quick = the designated configurations, thorough =
    every single reaction, and two distinct-reactant reactions on the light materials (`light`)."""
    n = _n_rxns(prog)
    if n >= 3: return True
    if tier == 'thorough':
        if n == 1: return False
        return _same_reactant(prog) or not light
    return not symbolic_ok


def _same_reactant(prog):
    if prog['kind'] == 'system':
        ds = [d for m in prog['members'] for d in m['rxns']]
    else:
        ds = prog['rxns']
    rs = [d['reactant'] for d in ds]
    return len(set(rs)) < len(rs)


def _heavy_skip(tier, prog, mat, pkg, basis):
    """Thorough-tier pruning (measured; the quick tier lists its configurations explicitly): with the feasibility
    disjunctions of __call__ the VCs of long chains cost minutes to tens of minutes each even with pinned reactants
    (series4 on a stream: 22 min), while C05/kernel discharges the same chains as exact algebra in < 1 s.  Kept:
    4 reactions only in parallel on s:P3 / sparse data (mol); 3 reactions on the molar basis for s:P3, s:Q3 and sparse
    data (+ parallel on s:P3 by weight); two reactions with the same reactant on the reaction's own package."""
    if tier != 'thorough': return False
    n = _n_rxns(prog)
    if n >= 4:
        return not (prog['kind'] == 'parallel' and basis == 'mol' and (mat, pkg) in (('s', 'P3'), ('sv', 'P3')))
    if n == 3:
        if basis == 'wt': return not (prog['kind'] == 'parallel' and (mat, pkg) == ('s', 'P3'))
        return (mat, pkg) not in (('s', 'P3'), ('s', 'Q3'), ('sv', 'P3'))
    if n == 2 and _same_reactant(prog):
        return (mat, pkg, basis) not in (('s', 'P3', 'mol'), ('s', 'P3', 'wt'), ('sv', 'P3', 'mol'), ('nd', 'P3', 'mol'))
    return False


def _n_rxns(prog):
    return sum(_n_rxns(m) for m in prog['members']) if prog['kind'] == 'system' else len(prog['rxns'])


def kernel_configs(tier):
    out = []
    for tagged in (False, True):
        for pname, prog in programs(tier, tagged).items():
            for fn in ('_reaction', '_conversion'):
                if tier == 'quick' and fn == '_conversion' and not pname.startswith(('single3[Water', 'parallel[a>b|b', 'series[a>b;b', 'system[par')):
                    continue
                unit = _n_rxns(prog) >= 3 or 'a>b;a>bc' in pname
                out.append({'name': f'{"tagged" if tagged else "plain"};{pname};{fn}' + (';unit' if unit else ''), 'tagged': tagged, 'prog': prog, 'fn': fn, 'unit': unit})
        for pname, prog in programs4(tier, tagged).items():
            unit = _n_rxns(prog) >= 3
            out.append({'name': f'{"tagged" if tagged else "plain"};P4;{pname};_reaction' + (';unit' if unit else ''), 'tagged': tagged,
                        'prog': prog, 'fn': '_reaction', 'unit': unit, 'rpkg': 'P4'})
    return out


@group('C05/kernel', configs=kernel_configs, l0=True, assumptions=ASSUME,
       functions=['thermosteam.reaction._reaction:Reaction._reaction', 'thermosteam.reaction._reaction:Reaction._conversion',
                  'thermosteam.reaction._reaction:Reaction._rescale', 'thermosteam.reaction._reaction:Reaction.__init__',
                  'thermosteam.reaction._reaction:ParallelReaction._reaction', 'thermosteam.reaction._reaction:ParallelReaction._conversion',
                  'thermosteam.reaction._reaction:SeriesReaction._reaction', 'thermosteam.reaction._reaction:SeriesReaction._conversion',
                  'thermosteam.reaction._reaction:ReactionSystem._reaction', 'thermosteam.reaction._reaction:ReactionSystem._conversion',
                  'thermosteam.reaction._reaction:ReactionSet.__init__',
                  'thermosteam.reaction._parse:get_stoichiometric_array', 'thermosteam.reaction._xparse:get_stoichiometric_array'])
def kernel(w, cfg):
    """_reaction / _conversion on a bare sparse vector (phase-less) or sparse array (phase-tagged): exact algebra."""
    W.reset_caches()
    w = _Scaled(w)
    tagged = cfg['tagged']
    rpkg = cfg.get('rpkg', 'P3')
    RP = PKG[rpkg]
    chems = W.thermo(RP).chemicals
    mw = _mw(RP)
    rows = weights(w, RP)
    prog, obj = make_program(w, cfg['prog'], 'mol', rows, mw, chems, tagged, unit_reactant=cfg.get('unit', False))
    mat, read, feed, _ = make_material(w, 'sv', rpkg, tagged)
    pre = snapshot_rxn(obj)
    expected = spec_apply(prog, feed)
    set_scale(w, prog, feed, rows, mw)
    if cfg['fn'] == '_reaction':
        obj._reaction(mat)
        got = read()
    else:
        conv = obj._conversion(mat)
        after = read()
        w.ensure('material unchanged by _conversion', w.And(*[w.eq(after[k], feed[k]) for k in feed]))
        rws = conv.rows if tagged else [conv]
        phases = PH if tagged else (None,)
        got = {(ph, ID): feed[ph, ID] + rws[i].dct.get(j, 0.) for i, ph in enumerate(phases) for j, ID in enumerate(RP)}
    for k in feed:
        w.ensure(f'flow[{k[0]},{k[1]}] = stoichiometric update', w.eq(got[k], expected[k]))
    sp0 = all_specs(prog)[0]
    if cfg['prog']['kind'] == 'single':
        w.ensure('reactant consumed = X * feed', w.eq(feed[sp0.r] - got[sp0.r], sp0.X * feed[sp0.r]))
        for k in sp0.nu:
            w.ensure(f'produced[{k[1]}] * |nu_r| = X * feed_r * nu', w.eq((got[k] - feed[k]) * (-sp0.nu[sp0.r]), sp0.X * feed[sp0.r] * sp0.nu[k]))
    for name, c in rows.items():
        w.ensure(f'{name} conserved', w.eq(row_total(c, got), row_total(c, feed)))
    w.ensure('reaction object unchanged', same_rxn(w, pre, snapshot_rxn(obj)))
    w.canary('canary: reactant consumed = X * feed + 1', w.eq(feed[sp0.r] - got[sp0.r], sp0.X * feed[sp0.r] + 1))
    w.note(expected=expected, got=got)


# --------------------------------------------------------------------------- 2. __call__ on every kind of material

def call_configs(tier):
    out = []
    for tagged in (False, True):
        progs = programs(tier, tagged)
        if tier == 'quick':
            keep = ('single3[Water]', 'single3[Ethanol]', 'single2[Methanol>Water]', 'parallel[a>b|b>c]', 'series[a>b;b>c]',
                    'parallel[a>b|a>bc]', 'system[par(a>b|b>c);c>a]')
            progs = {k: v for k, v in progs.items() if k in keep}
        mats = [('s', 'P3'), ('s', 'Q3'), ('sv', 'P3'), ('nd', 'P3')]
        if not tagged: mats += [('s', 'Q4'), ('massview', 'P3')]
        elif tier == 'thorough': mats += [('s', 'Q4')]
        for pname, prog in progs.items():
            for mat, pkg in mats:
                for basis in ('mol', 'wt'):
                    if mat == 'massview' and basis == 'mol':
                        continue        # a mass view is data in kg/hr: only a wt-basis stoichiometry is meaningful on it
                    if tier == 'quick':
                        full = pname in ('single3[Water]', 'parallel[a>b|b>c]')
                        if not full and (mat, pkg, basis) not in (('s', 'P3', 'mol'), ('s', 'Q3', 'wt')):
                            continue
                        if not full and pkg == 'Q3' and pname not in ('series[a>b;b>c]', 'system[par(a>b|b>c);c>a]', 'single3[Ethanol]'):
                            continue
                    if _heavy_skip(tier, prog, mat, pkg, basis):
                        continue
                    unit = _unit(tier, prog, symbolic_ok=(pname.startswith('single2') or (not tagged and pname == 'single3[Water]' and (mat, pkg, basis) in (
                        ('s', 'P3', 'mol'), ('s', 'Q3', 'wt'), ('sv', 'P3', 'mol'), ('nd', 'P3', 'wt')))),
                                 light=((mat, pkg, basis) in (('s', 'P3', 'mol'), ('sv', 'P3', 'mol'))))
                    flows = 'sparse' if (tagged and mat == 's') or (_n_rxns(prog) >= 2 and mat in ('s', 'massview')) else 'all'
                    out.append({'name': f'{"tagged" if tagged else "plain"};{pname};{mat}:{pkg};{basis};{flows}' + (';unit' if unit else ''),
                                'tagged': tagged, 'prog': prog, 'mat': mat, 'pkg': pkg, 'basis': basis, 'unit': unit, 'flows': flows})
    return out


def _array_units(state, mw, by_mass):
    return {k: (v * mw[k[1]] if by_mass else v) for k, v in state.items()}


@group('C05/call', configs=call_configs, l0=True, assumptions=ASSUME,
       functions=['thermosteam.reaction._reaction:Reaction.__call__', 'thermosteam.reaction._reaction:as_material_array',
                  'thermosteam.reaction._reaction:Reaction._reaction', 'thermosteam.reaction._reaction:ParallelReaction._reaction',
                  'thermosteam.reaction._reaction:SeriesReaction._reaction', 'thermosteam.reaction._reaction:ReactionSystem._reaction',
                  'thermosteam.indexer:ChemicalIndexer.reset_chemicals', 'thermosteam.indexer:MaterialIndexer.reset_chemicals',
                  'thermosteam.base.dictionary_view:MassFlowDict'])
def call(w, cfg):
    """reaction(material): stoichiometric update, conservation, no negative flow on normal return, InfeasibleRegion only
    when a flow would be negative; streams (same / other package), MultiStreams, sparse data, ndarrays, mass views."""
    W.reset_caches()
    w = _Scaled(w)
    tagged, basis, kind, pkg = cfg['tagged'], cfg['basis'], cfg['mat'], cfg['pkg']
    IDs = PKG[pkg]
    chems = W.thermo(P3).chemicals
    mw = _mw(IDs)
    rows = weights(w, IDs)
    prog, obj = make_program(w, cfg['prog'], basis, rows, mw, chems, tagged, unit_reactant=cfg.get('unit', False))
    pattern = sparse_pattern(cfg['prog'], pkg, tagged) if cfg.get('flows') == 'sparse' else None
    mat, read, feed, stream = make_material(w, kind, pkg, tagged, pattern=pattern)
    pre = snapshot_rxn(obj)
    # units of the data the reaction acts on: mass for a stream reacted by a wt-basis reaction and for mass views,
    # otherwise the material's own numbers (mol for streams; arrays are reacted "regardless of basis")
    stream_by_mass = (kind == 's' and basis == 'wt') or kind == 'massview'
    u = _array_units(feed, mw, stream_by_mass)
    e = spec_apply(prog, u)
    set_scale(w, prog, u, rows, mw)
    try:
        obj(mat)
        outcome = 'ok'
    except InfeasibleRegion:
        outcome = 'infeasible'
    except UndefinedChemicalAlias:
        outcome = 'undefined'
    w.note(outcome=outcome)
    w.ensure('reaction object unchanged', same_rxn(w, pre, snapshot_rxn(obj)))
    extra = [k for k in feed if k[1] not in P3]
    if outcome == 'infeasible':
        w.ensure('InfeasibleRegion only if a flow would be negative', w.Or(*[w.lt(e[k], 0.) for k in e]))
        return
    if outcome == 'undefined':
        w.ensure('UndefinedChemical only if the stream holds a chemical unknown to the reaction',
                 w.Or(*[w.ne(feed[k], 0.) for k in extra]))
        return
    got = read()
    if stream is not None:
        w.ensure('stream keeps its package', (stream.chemicals.IDs == IDs and stream._imol._chemicals is stream.chemicals
                                              and all(sv.size == len(IDs) for _, sv in W.rows_of(stream))))
    gu = _array_units(got, mw, stream_by_mass)
    w.ensure('no negative flow on normal return', w.And(*[w.ge(got[k], 0.) for k in got]))
    for k in e:
        w.ensure(f'flow[{k[0]},{k[1]}] = stoichiometric update (round-off negatives >= -1e-12 zeroed)',
                 w.Or(w.eq(gu[k], e[k]), w.And(w.lt(e[k], 0.), w.ge(e[k], -TOL), w.eq(gu[k], 0.))))
    feasible = w.And(*[w.ge(e[k], 0.) for k in e])
    by_mass_units = stream_by_mass or (basis == 'wt')      # weights per unit of the reacted data
    for name, c in rows.items():
        before = row_total(c, u, mw if by_mass_units else None)
        after = row_total(c, gu, mw if by_mass_units else None)
        w.ensure(f'{name} conserved', w.Implies(feasible, w.eq(after, before)))
        if name == 'mass':
            bound = TOL * sum([(c[ID] / mw[ID] if by_mass_units else c[ID]) for (ph, ID) in e], 0.)
            w.ensure('mass within the round-off threshold otherwise', w.And(w.ge(after, before), w.le(after, before + bound)))
    sp0 = all_specs(prog)[0]
    w.canary('canary: reactant consumed = X * feed + 1', w.eq(u[sp0.r] - gu[sp0.r], sp0.X * u[sp0.r] + 1))


# --------------------------------------------------------------------------- 3. force_reaction

def force_configs(tier):
    out = []
    for tagged in (False, True):
        progs = programs(tier, tagged)
        if tier == 'quick':
            sel = [('single3[Water]', 's', 'mol'), ('single3[Water]', 'sv', 'mol'), ('single3[Water]', 'nd', 'mol'),
                   ('single2[Water>Ethanol]', 's', 'wt'), ('single3[Ethanol]', 's', 'mol'), ('parallel[a>b|b>c]', 's', 'mol'),
                   ('parallel[a>b|b>c]', 'sv', 'mol')]
        else:
            # |e| terms of the negligibility test make chains expensive here (measured 5-12 min per configuration):
            # single reactions on every material, two distinct-reactant reactions on streams and sparse data, parallel3
            sel = [(pn, m, b) for pn in progs for m, b in (('s', 'mol'), ('sv', 'mol'), ('s', 'wt'), ('nd', 'mol'))
                   if _n_rxns(progs[pn]) == 1
                   or (_n_rxns(progs[pn]) == 2 and not _same_reactant(progs[pn]) and (m, b) in (('s', 'mol'), ('sv', 'mol')))
                   or (pn == 'parallel3' and (m, b) == ('s', 'mol'))]
        for pname, mat, basis in sel:
            prog = progs[pname]
            unit = _unit(tier, prog, symbolic_ok=(pname.startswith('single2') or (not tagged and (pname, mat) == ('single3[Water]', 's'))),
                         light=((mat, basis) == ('s', 'mol')))
            flows = 'sparse' if (tagged or (mat == 's' and (basis == 'wt' or _n_rxns(prog) >= 2))) else 'all'
            out.append({'name': f'{"tagged" if tagged else "plain"};{pname};{mat}:P3;{basis};{flows}' + (';unit' if unit else ''),
                        'tagged': tagged, 'prog': prog, 'mat': mat, 'pkg': 'P3', 'basis': basis, 'unit': unit, 'flows': flows})
    return out


@group('C05/force_reaction', configs=force_configs, l0=True, assumptions=ASSUME,
       functions=['thermosteam.reaction._reaction:Reaction.force_reaction', 'thermosteam.functional:remove_negligible_negative_values',
                  'thermosteam.reaction._reaction:as_material_array'])
def force_reaction(w, cfg):
    """force_reaction ignores feasibility (negative flows may remain) but must still be the stoichiometric update; the only
    licence is to zero *negligible* negatives (|e| <= 1e-16 * max(sum|e|, 1))."""
    W.reset_caches()
    w = _Scaled(w)
    tagged, basis, kind, pkg = cfg['tagged'], cfg['basis'], cfg['mat'], cfg['pkg']
    IDs = PKG[pkg]
    chems = W.thermo(P3).chemicals
    mw = _mw(IDs)
    rows = weights(w, IDs)
    prog, obj = make_program(w, cfg['prog'], basis, rows, mw, chems, tagged, unit_reactant=cfg.get('unit', False))
    pattern = sparse_pattern(cfg['prog'], pkg, tagged) if cfg.get('flows') == 'sparse' else None
    mat, read, feed, stream = make_material(w, kind, pkg, tagged, pattern=pattern)
    pre = snapshot_rxn(obj)
    stream_by_mass = kind == 's' and basis == 'wt'
    u = _array_units(feed, mw, stream_by_mass)
    e = spec_apply(prog, u)
    set_scale(w, prog, u, rows, mw)
    obj.force_reaction(mat)
    got = read()
    gu = _array_units(got, mw, stream_by_mass)
    S = sum([abs(e[k]) for k in e], 0.)
    for k in e:
        negligible = w.And(w.lt(e[k], 0.), w.eq(gu[k], 0.), w.Or(w.le(-e[k], 1e-16 * S), w.le(-e[k], 1e-16)))
        w.ensure(f'flow[{k[0]},{k[1]}] = stoichiometric update (negligible negatives zeroed)', w.Or(w.eq(gu[k], e[k]), negligible))
    feasible = w.And(*[w.ge(e[k], 0.) for k in e])
    by_mass_units = stream_by_mass or (basis == 'wt')
    for name, c in rows.items():
        before = row_total(c, u, mw if by_mass_units else None)
        after = row_total(c, gu, mw if by_mass_units else None)
        w.ensure(f'{name} conserved', w.Implies(feasible, w.eq(after, before)))
    w.ensure('reaction object unchanged', same_rxn(w, pre, snapshot_rxn(obj)))
    sp0 = all_specs(prog)[0]
    w.canary('canary: reactant consumed = X * feed + 1', w.eq(u[sp0.r] - gu[sp0.r], sp0.X * u[sp0.r] + 1))


# --------------------------------------------------------------------------- 4. mol and wt basis give the same stream

def basis_configs(tier):
    out = []
    for tagged in (False, True):
        progs = programs(tier, tagged)
        if tier == 'quick':
            names = ['single3[Water]', 'single3[Methanol]', 'single2[Water>Ethanol]', 'parallel[a>b|b>c]', 'series[a>b;b>c]',
                     'system[a>b;b>c]']
        else:
            names = list(progs)
        for pname in names:
            prog = progs[pname]
            hows = ['copy']
            if prog['kind'] == 'single': hows.append('setter')
            for how in hows:
                for direction in ('mol->wt', 'wt->mol'):
                    for pkg in ('P3', 'Q3'):
                        if pkg == 'Q3' and (tier == 'quick' and pname not in ('single3[Water]',)):
                            continue
                        if tier == 'quick' and how == 'setter' and direction == 'wt->mol':
                            continue
                        if tier == 'thorough' and (_n_rxns(prog) >= 3 or _same_reactant(prog)) and (
                                pkg != 'P3' or prog['kind'] != 'parallel' or _n_rxns(prog) > 3):
                            continue
                        unit = _unit(tier, prog, symbolic_ok=pname.startswith('single2'), light=False)
                        out.append({'name': f'{"tagged" if tagged else "plain"};{pname};{how};{direction};{pkg}' + (';unit' if unit else ''),
                                    'tagged': tagged, 'prog': prog, 'how': how, 'dir': direction, 'pkg': pkg, 'unit': unit})
    return out


def _rebase(obj, basis, how):
    """The same reaction on the other basis, made by the real API."""
    if isinstance(obj, tmo.ReactionSystem):
        return tmo.ReactionSystem(*[_rebase(i, basis, how) for i in obj._reactions])
    if how == 'setter':
        new = obj.copy()
        new.basis = basis
        return new
    return obj.copy(basis)


@group('C05/basis', configs=basis_configs, l0=True, assumptions=ASSUME,
       functions=['thermosteam.reaction._reaction:set_reaction_basis', 'thermosteam.reaction._reaction:Reaction.copy',
                  'thermosteam.reaction._reaction:Reaction.basis', 'thermosteam.reaction._reaction:as_material_array',
                  'thermosteam.reaction._reaction:Reaction._rescale', 'thermosteam.reaction._reaction:ReactionSet._rescale',
                  'thermosteam.base.dictionary_view:MassFlowDict'])
def basis(w, cfg):
    """A reaction and its copy on the other basis give the same stream; making the copy does not change the original;
    converting back gives the original stoichiometry."""
    W.reset_caches()
    w = _Scaled(w)
    tagged, pkg = cfg['tagged'], cfg['pkg']
    b0, b1 = cfg['dir'].split('->')
    IDs = PKG[pkg]
    chems = W.thermo(P3).chemicals
    mw = _mw(IDs)
    rows = weights(w, IDs)
    prog, obj = make_program(w, cfg['prog'], b0, rows, mw, chems, tagged, unit_reactant=cfg.get('unit', False))
    pre = snapshot_rxn(obj)
    obj2 = _rebase(obj, b1, cfg['how'])
    w.ensure('original unchanged by making the copy on the other basis', same_rxn(w, pre, snapshot_rxn(obj)))
    back = _rebase(obj2, b0, 'copy')
    w.ensure('converting back gives the original stoichiometry', same_rxn(w, pre, snapshot_rxn(back)))
    pattern = sparse_pattern(cfg['prog'], pkg, tagged)
    s1, read1, feed, _ = make_material(w, 's', pkg, tagged, name='m', pattern=pattern)
    s2, read2, _, _ = make_material(w, 's', pkg, tagged, values=feed, pattern=pattern)
    u = _array_units(feed, mw, b0 == 'wt')
    e = spec_apply(prog, u)          # expected flows in the units of the original basis (same sign as in mol)
    set_scale(w, prog, u, rows, mw)
    outcomes = []
    for o, s in ((obj, s1), (obj2, s2)):
        try:
            o(s); outcomes.append('ok')
        except InfeasibleRegion:
            outcomes.append('infeasible')
    w.note(outcomes=outcomes)
    negative = w.Or(*[w.lt(e[k], 0.) for k in e])
    if outcomes[0] != outcomes[1]:
        w.ensure('outcomes differ only when a flow would be negative', negative)
    elif outcomes[0] == 'ok':
        g1, g2 = read1(), read2()
        for k in g1:
            w.ensure(f'flow[{k[0]},{k[1]}] same on both bases', w.Or(w.eq(g1[k], g2[k]), negative))
        gu = _array_units(g1, mw, b0 == 'wt')
        for k in e:
            w.ensure(f'flow[{k[0]},{k[1]}] = stoichiometric update', w.Or(w.eq(gu[k], e[k]), negative))
        k0 = all_specs(prog)[0].r
        w.canary('canary: wt-basis result differs by 1', w.eq(g1[k0], g2[k0] + 1))
    else:
        w.ensure('InfeasibleRegion only if a flow would be negative', negative)
        w.canary('canary: never infeasible', False)


# --------------------------------------------------------------------------- 5. parsers: string form -> the written coefficients

PARSE_CASES = [
    # (text, reactant argument, written coefficients {(phase|None, ID): nu}, expected reactant)
    ('Water + 2Ethanol -> 1.5Methanol', 'Ethanol', {(None, 'Water'): -1., (None, 'Ethanol'): -2., (None, 'Methanol'): 1.5}, 'Ethanol'),
    ('0.5 Water -> 0.25 Ethanol + 1e-1 Methanol', None, {(None, 'Water'): -.5, (None, 'Ethanol'): .25, (None, 'Methanol'): .1}, 'Water'),
    ('2.5e-1Water + Ethanol -> 3Methanol', 'Water', {(None, 'Water'): -.25, (None, 'Ethanol'): -1., (None, 'Methanol'): 3.}, 'Water'),
    ('Methanol -> Water', None, {(None, 'Methanol'): -1., (None, 'Water'): 1.}, 'Methanol'),
    ('Water,l + 2Ethanol,g -> 1.5Methanol,g', 'Ethanol', {('l', 'Water'): -1., ('g', 'Ethanol'): -2., ('g', 'Methanol'): 1.5}, 'Ethanol'),
    ('2Water,l -> 2Ethanol,g + 0.5 Methanol,g', None, {('l', 'Water'): -2., ('g', 'Ethanol'): 2., ('g', 'Methanol'): .5}, 'Water'),
    ('0.125Methanol,g -> Methanol,l', 'Methanol', {('g', 'Methanol'): -.125, ('l', 'Methanol'): None}, 'Methanol'),   # same chemical twice: ValueError
]


def parse_configs(tier):
    return [{'name': f'case{n}: {t[0]}', 'case': n} for n, t in enumerate(PARSE_CASES)]


@group('C05/parse', configs=parse_configs, l0=True, assumptions=ASSUME,
       functions=['thermosteam.reaction._parse:get_stoichiometric_array', 'thermosteam.reaction._parse:str2dct',
                  'thermosteam.reaction._xparse:get_stoichiometric_array', 'thermosteam.reaction._xparse:str2dct',
                  'thermosteam.reaction._xparse:get_phases', 'thermosteam.reaction._reaction:Reaction.__init__',
                  'thermosteam.reaction._reaction:Reaction._rescale'])
def parse(w, cfg):
    """The string form gives the sparse vector/array of the written coefficients; Reaction scales it per unit of reactant
    and reacts accordingly (dict forms with symbolic coefficients are what every other group uses)."""
    from thermosteam.reaction import _parse as prs, _xparse as xprs
    W.reset_caches()
    text, reactant, written, exp_reactant = PARSE_CASES[cfg['case']]
    chems = W.thermo(P3).chemicals
    tagged = ',' in text
    phases = PH if tagged else (None,)
    if any(v is None for v in written.values()):
        try:
            tmo.Reaction(text, reactant=reactant, chemicals=chems)
            w.ensure('a chemical written twice is refused', False)
        except ValueError:
            w.ensure('a chemical written twice is refused', True)
        w.canary('canary', False)
        return
    if tagged:
        w.ensure('phases found in the text', xprs.get_phases(text) == PH)
        arr = xprs.get_stoichiometric_array(text, PH, chems)
        rws = arr.rows
    else:
        w.ensure('no phases found in the text', xprs.get_phases(text) == ())
        rws = [prs.get_stoichiometric_array(text, chems)]
    for i, ph in enumerate(phases):
        for j, ID in enumerate(P3):
            w.ensure(f'parsed[{ph},{ID}] = written coefficient', w.eq(rws[i].dct.get(j, 0.), written.get((ph, ID), 0.)))
    X = w.real('X', lo=0., hi=1.)
    rxn = tmo.Reaction(text, reactant=reactant, X=X, chemicals=chems)
    r = [k for k in written if k[1] == exp_reactant][0]
    w.ensure('reactant', rxn.reactant == ((r[0], r[1]) if tagged else r[1]))
    st = rxn.stoichiometry
    srows = st.rows if tagged else [st]
    for i, ph in enumerate(phases):
        for j, ID in enumerate(P3):
            w.ensure(f'stoichiometry[{ph},{ID}] = written / |nu_r|', w.eq(srows[i].dct.get(j, 0.), written.get((ph, ID), 0.) / -written[r]))
    mat, read, feed, _ = make_material(w, 'sv', 'P3', tagged)
    sp = Spec(written, r, X, 'mol')
    expected = spec_single(sp, feed)
    rxn._reaction(mat)
    got = read()
    for k in feed:
        w.ensure(f'flow[{k[0]},{k[1]}] = stoichiometric update', w.eq(got[k], expected[k]))
    w.canary('canary: reactant consumed = X * feed + 1', w.eq(feed[r] - got[r], X * feed[r] + 1))


# --------------------------------------------------------------------------- 6. Reaction.reset_chemicals

def reset_configs(tier):
    out = []
    for tagged in (False, True):
        for pname in ('single3[Water]', 'single3[Ethanol]', 'single2[Methanol>Water]'):
            out.append({'name': f'{"tagged" if tagged else "plain"};{pname};to=Q4', 'tagged': tagged, 'prog': programs(tier, tagged)[pname]})
    return out


@group('C05/reset_chemicals', configs=reset_configs, l0=True, assumptions=ASSUME,
       functions=['thermosteam.reaction._reaction:Reaction.reset_chemicals', 'thermosteam.reaction._reaction:Reaction.__call__'])
def reset_chemicals(w, cfg):
    """A reaction moved to another package (reordered superset) still is the same reaction, chemical by chemical."""
    W.reset_caches()
    w = _Scaled(w)
    tagged = cfg['tagged']
    chems = W.thermo(P3).chemicals
    new = W.thermo(Q4).chemicals
    mw = _mw(Q4)
    rows = weights(w, Q4)
    prog, obj = make_program(w, cfg['prog'], 'mol', rows, mw, chems, tagged)
    obj.reset_chemicals(new)
    w.ensure('reaction is on the new package', obj.chemicals is new)
    sp = prog['specs'][0]
    w.ensure('reactant kept', obj.reactant == ((sp.r[0], sp.r[1]) if tagged else sp.r[1]))
    pattern = sparse_pattern(cfg['prog'], 'Q4', tagged)
    mat, read, feed, stream = make_material(w, 's', 'Q4', tagged, pattern=pattern)
    e = spec_apply(prog, feed)
    set_scale(w, prog, feed, rows, mw)
    try:
        obj(mat)
    except InfeasibleRegion:
        w.ensure('InfeasibleRegion only if a flow would be negative', w.Or(*[w.lt(e[k], 0.) for k in e]))
        return
    got = read()
    for k in e:
        w.ensure(f'flow[{k[0]},{k[1]}] = stoichiometric update (round-off negatives >= -1e-12 zeroed)',
                 w.Or(w.eq(got[k], e[k]), w.And(w.lt(e[k], 0.), w.ge(e[k], -TOL), w.eq(got[k], 0.))))
    feasible = w.And(*[w.ge(e[k], 0.) for k in e])
    for name, c in rows.items():
        w.ensure(f'{name} conserved', w.Implies(feasible, w.eq(row_total(c, got), row_total(c, feed))))
    w.canary('canary: reactant consumed = X * feed + 1', w.eq(feed[sp.r] - got[sp.r], sp.X * feed[sp.r] + 1))


# --------------------------------------------------------------------------- 7. phase-less reaction, multi-phase stream

def multiphase_configs(tier):
    out = []
    for pname in ('single3[Water]', 'single2[Water>Ethanol]', 'parallel[a>b|b>c]', 'series[a>b;b>c]'):
        for basis in ('mol', 'wt'):
            if tier == 'quick' and basis == 'wt' and pname != 'single3[Water]': continue
            prog = programs(tier, False)[pname]
            out.append({'name': f'{pname};{basis}', 'prog': prog, 'basis': basis, 'unit': _unit(tier, prog, symbolic_ok=False, light=False)})
    return out


@group('C05/phaseless_on_multistream', configs=multiphase_configs, l0=True, assumptions=ASSUME,
       functions=['thermosteam.reaction._reaction:as_material_array', 'thermosteam.reaction._reaction:Reaction.__call__'])
def phaseless_on_multistream(w, cfg):
    """A reaction without phases is documented for single-phase streams.  Handed a MultiStream it may refuse (ValueError);
    if it returns normally the property's sentences hold for the totals over the phases."""
    W.reset_caches()
    w = _Scaled(w)
    chems = W.thermo(P3).chemicals
    mw = _mw(P3)
    rows = weights(w, P3)
    prog, obj = make_program(w, cfg['prog'], cfg['basis'], rows, mw, chems, False, unit_reactant=cfg['unit'])
    pat = {'default': 'zero', ('g', 'Water'): 'pos', ('l', 'Water'): 'pos', ('l', 'Ethanol'): 'maybe', ('g', 'Methanol'): 'maybe'}
    ms, read, feed, _ = make_material(w, 's', 'P3', True, pattern=pat)
    tot = lambda st: {(None, ID): sum([st[ph, ID] for ph in PH], 0.) for ID in P3}
    by_mass = cfg['basis'] == 'wt'
    u = _array_units(tot(feed), mw, by_mass)
    e = spec_apply(prog, u)
    set_scale(w, prog, u, rows, mw)
    try:
        obj(ms)
    except ValueError:
        w.ensure('refused: stream unchanged', w.And(*[w.eq(v, feed[k]) for k, v in read().items()]))
        w.canary('canary: never refused', False)
        return
    except InfeasibleRegion:
        w.ensure('InfeasibleRegion only if a flow would be negative', w.Or(*[w.lt(e[k], 0.) for k in e]))
        return
    got = read()
    gu = _array_units(tot(got), mw, by_mass)
    w.ensure('no negative flow on normal return', w.And(*[w.ge(v, 0.) for v in got.values()]))
    for k in e:
        w.ensure(f'total flow[{k[1]}] = stoichiometric update (round-off negatives >= -1e-12 zeroed)',
                 w.Or(w.eq(gu[k], e[k]), w.And(w.lt(e[k], 0.), w.ge(e[k], -2 * TOL), w.le(gu[k], 2 * TOL))))
    feasible = w.And(*[w.ge(e[k], 0.) for k in e])
    for name, c in rows.items():
        w.ensure(f'{name} conserved', w.Implies(feasible, w.eq(row_total(c, gu, mw if by_mass else None), row_total(c, u, mw if by_mass else None))))
    sp0 = all_specs(prog)[0]
    w.canary('canary: reactant consumed = X * feed + 1', w.eq(u[sp0.r] - gu[sp0.r], sp0.X * u[sp0.r] + 1))
