# -*- coding: utf-8 -*-
"""
C05 -- prototype
"""
import numpy as np
import thermosteam as tmo
from engine.api import group
from engine.sx import tmo_world as W

from engine.sx.sym import SymReal as _SymReal
if '__len__' in _SymReal.__dict__:
    del _SymReal.__len__
P3 = ('Water', 'Ethanol', 'Methanol')
W.preload([P3])


def _rxn_leaves(w, tag, IDs, reactant):
    nu = {}
    for ID in IDs:
        if ID == reactant:
            nu[ID] = w.real(f'{tag}.nu.{ID}', hi=0., hi_strict=True)
        else:
            nu[ID] = w.real(f'{tag}.nu.{ID}')
    return nu


def proto_configs(tier):
    return [{'name': f'r={r}', 'reactant': r} for r in P3]


@group('C05/proto', configs=proto_configs, functions=['thermosteam.reaction._reaction:Reaction._reaction'], l0=True)
def proto(w, cfg):
    W.reset_caches()
    th = W.thermo(P3)
    chems = th.chemicals
    r = cfg['reactant']
    nu = _rxn_leaves(w, 'rx', P3, r)
    X = w.real('X', lo=0., hi=1.)
    MW = dict(zip(P3, chems.MW))
    w.assume(w.eq(w.total([float(MW[i]) * nu[i] for i in P3]), 0.))
    rxn = tmo.Reaction(dict(nu), reactant=r, X=X, chemicals=chems)
    s, leaves = W.make_stream(w, 's', P3, 'l')
    m = {ID: leaves['l', ID] for ID in P3}
    rxn(s)
    got = W.total_by_CAS(s)
    mass0 = w.total([float(MW[i]) * m[i] for i in P3])
    mass1 = w.total([float(MW[i]) * got[chems[i].CAS] for i in P3])
    w.ensure('mass conserved', w.eq(mass0, mass1))
    w.canary('canary', w.eq(mass0, mass1 + 1))
