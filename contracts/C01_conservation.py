# -*- coding: utf-8 -*-
"""
C01 — mixing, splitting, separating, moving and scaling streams conserve every chemical.

Contracts (sidecar) on the real functions; every `ensures` is the sentence of the
property over the whole dense image (totals per chemical matched by CAS), plus the
frame: inlets other than the receiver are unchanged.
"""
import itertools
import thermosteam as tmo
from engine.api import group, CheckAbort
from engine.sx import tmo_world as W

A = ('Water', 'Ethanol', 'Methanol')       # receiver package
B = ('Methanol', 'Water')                   # other package: subset, other order
A4 = ('Water', 'Ethanol', 'Methanol', 'Octane')
B3 = ('Octane', 'Methanol', 'Water')
B2 = ('Water', 'Methanol')                  # the chemicals of B listed the other way round
W.preload([A, B, B2])

KINDS = {'l': 'l', 'g': 'g', 's': 's', 'L': 'L', 'S': 'S', 'gl': ('g', 'l'), 'lL': ('l', 'L'), 'Lls': ('L', 'l', 's'),
         'gls': ('g', 'l', 's')}


def _present(pkg, rows, mode):
    """Presence pattern for planted flows: keeps the number of 2-way presence forks small."""
    if mode == 'all-maybe':
        return None
    p = {'default': 'zero'}
    for ph in rows:
        if mode == 'two-maybe':
            for ID in (pkg[0], pkg[-1]):
                p[ph, ID] = 'maybe'
        elif mode == 'pos+maybe':
            p[ph, pkg[0]] = 'pos'
            p[ph, pkg[-1]] = 'maybe'
        elif mode == 'both-pos':
            p[ph, pkg[0]] = 'pos'
            p[ph, pkg[-1]] = 'pos'
        elif mode == 'empty':
            pass
    return p


def _mk(w, name, kind, pkgname, mode):
    pkg = {'A': A, 'B': B, 'A4': A4, 'B3': B3, 'B2': B2}[pkgname]
    phases = KINDS[kind]
    rows = (phases,) if isinstance(phases, str) else phases
    return W.make_stream(w, name, pkg, phases, present=_present(pkg, rows, mode))


# --------------------------------------------------------------------------- mix_from

def mix_configs(tier):
    recvs = ['l', 'g', 'gl', 'Lls']
    singles = [('l', 'A'), ('g', 'A'), ('s', 'B'), ('L', 'A'), ('S', 'B'), ('l', 'B'), ('g', 'B')]
    multis = [('gl', 'A'), ('lL', 'A'), ('gl', 'B')]
    special = [('SELF', 'A'), ('E', 'A'), ('E', 'B')]
    tuples = [()]
    tuples += [(i,) for i in singles + multis + special]
    pairs = [(('l', 'A'), ('g', 'A')), (('l', 'A'), ('l', 'B')), (('g', 'B'), ('s', 'B')), (('L', 'A'), ('l', 'B')),
             (('SELF', 'A'), ('l', 'A')), (('SELF', 'A'), ('g', 'B')), (('SELF', 'A'), ('SELF', 'A')),
             (('gl', 'A'), ('l', 'A')), (('gl', 'B'), ('g', 'A')), (('lL', 'A'), ('S', 'B')), (('gl', 'A'), ('gl', 'B')),
             (('E', 'A'), ('l', 'B')), (('l', 'A'), ('E', 'B')), (('SELF', 'A'), ('gl', 'A')), (('S', 'B'), ('s', 'B')),
             (('E', 'A'), ('E', 'B')), (('SELF', 'A'), ('E', 'A'))]
    tuples += pairs
    triples = [(('l', 'A'), ('g', 'B'), ('SELF', 'A')), (('SELF', 'A'), ('l', 'A'), ('SELF', 'A')),
               (('l', 'A'), ('l', 'A'), ('l', 'B')), (('gl', 'A'), ('s', 'B'), ('L', 'A')),
               (('E', 'A'), ('g', 'A'), ('l', 'B'))]
    tuples += triples
    if tier == 'thorough':
        allk = singles + multis + special
        tuples = [()] + [(i,) for i in allk] + list(itertools.product(allk, allk)) + triples + [
            (('l', 'A'), ('g', 'A'), ('s', 'B'), ('SELF', 'A')), (('gl', 'A'), ('l', 'A'), ('g', 'B'), ('l', 'B'))]
    out = []
    for r in recvs:
        for t in tuples:
            nm = f"recv={r};in=" + '+'.join(f'{k}{p}' for k, p in t)
            out.append({'name': nm, 'recv': r, 'inlets': [list(i) for i in t]})
    return out


@group('C01/mix_from', configs=mix_configs,
       functions=['thermosteam._stream:Stream.mix_from', 'thermosteam.indexer:ChemicalIndexer.mix_from',
                  'thermosteam.indexer:MaterialIndexer.mix_from', 'thermosteam.indexer:index_overlap',
                  'thermosteam.indexer:MaterialIndexer._expand_phases', 'thermosteam._stream:Stream.copy_flow',
                  'thermosteam.base.sparse:SparseVector.mix_from', 'thermosteam.base.sparse:SparseVector.__setitem__',
                  'thermosteam.base.sparse:SparseVector.__getitem__', 'thermosteam.base.sparse:SparseArray.sum'])
def mix_from(w, cfg):
    W.reset_caches()
    has_self = any(k == 'SELF' for k, _ in cfg['inlets'])
    recv, rleaves = _mk(w, 'r', cfg['recv'], 'A', 'two-maybe' if has_self else 'pos+maybe')
    inlets = []
    pre = []
    for n, (k, p) in enumerate(cfg['inlets']):
        if k == 'SELF':
            inlets.append(recv); pre.append(None)
        elif k == 'E':
            s, lv = _mk(w, f'i{n}', 'l', p, 'empty')
            inlets.append(s); pre.append(W.snapshot(s))
        else:
            s, lv = _mk(w, f'i{n}', k, p, 'two-maybe')
            inlets.append(s); pre.append(W.snapshot(s))
    # expected totals from the *pre-state* (totals read before the call)
    expected = {c: 0. for c in recv.chemicals.CASs}
    for s in inlets:
        for cas, v in W.total_by_CAS(s).items():
            expected[cas] = expected[cas] + v
    recv.mix_from(inlets, energy_balance=False)
    got = W.total_by_CAS(recv)
    for cas in recv.chemicals.CASs:
        w.ensure(f'total[{cas}] = sum of inlet totals', w.eq(got[cas], expected[cas]))
    w.ensure('receiver rep_ok (stored entries non-zero)', W.rep_ok(w, recv))
    for n, (s, p0) in enumerate(zip(inlets, pre)):
        if p0 is not None:
            w.ensure(f'inlet {n} unchanged', W.same_snapshot(w, p0, W.snapshot(s)))
    w.canary('canary: total = sum + 1', w.eq(got[recv.chemicals.CASs[0]], expected[recv.chemicals.CASs[0]] + 1))
    w.note(expected=expected, got=got)


# --------------------------------------------------------------------------- split_to

def split_configs(tier):
    out = []
    for feed in ['l', 'g', 'gl']:
        for outs in [('A', 'A'), ('A', 'B4'), ('B4', 'B4')]:
            for split in ['scalar', 'vector']:
                for eb in [False, True]:
                    if feed == 'gl' and outs != ('A', 'A'):
                        continue   # MultiStream.split_to goes phase by phase through Stream.split_to; other packages covered by single-phase feeds
                    out.append({'name': f'feed={feed};outs={outs[0]}{outs[1]};split={split};eb={eb}', 'feed': feed,
                                'outs': list(outs), 'split': split, 'eb': eb})
    return out


B4 = ('Methanol', 'Ethanol', 'Water', 'Octane')   # superset of A in another order
W.preload([B4])


@group('C01/split_to', configs=split_configs,
       functions=['thermosteam._stream:Stream.split_to', 'thermosteam._multi_stream:MultiStream.split_to',
                  'thermosteam.base.sparse:SparseVector.__mul__', 'thermosteam.base.sparse:SparseVector.__sub__'])
def split_to(w, cfg):
    W.reset_caches()
    feed, fl = _mk(w, 'f', cfg['feed'], 'A', 'all-maybe' if cfg['feed'] != 'gl' else 'two-maybe')
    pk = {'A': A, 'B4': B4}
    outs = []
    for n, p in enumerate(cfg['outs']):
        # outlets hold arbitrary prior contents that must be overwritten
        s, _ = W.make_stream(w, f'o{n}', pk[p], 'l', present={'default': 'zero', ('l', 'Water'): 'pos'})
        outs.append(s)
    s1, s2 = outs
    if cfg['split'] == 'scalar':
        x = w.real('split', lo=0, hi=1)
        split = x
        xs = {cas: x for cas in feed.chemicals.CASs}
    else:
        import numpy as np
        vals = [w.real(f'split.{ID}', lo=0, hi=1) for ID in A]
        split = np.array(vals, dtype=object if w.symbolic else float)
        xs = dict(zip(feed.chemicals.CASs, vals))
    pre = W.snapshot(feed)
    rows = W.rows_of(feed)
    feed_rows = {ph: W.row_by_CAS(feed, ph) for ph, _ in rows}
    feed.split_to(s1, s2, split, energy_balance=cfg['eb'])
    w.ensure('feed unchanged', W.same_snapshot(w, pre, W.snapshot(feed)))
    multi_out = isinstance(s1, tmo.MultiStream)
    for ph, _ in rows:
        if multi_out or len(rows) == 1:
            r1 = W.row_by_CAS(s1, ph) if multi_out else W.total_by_CAS(s1)
            r2 = W.row_by_CAS(s2, ph) if multi_out else W.total_by_CAS(s2)
            f = feed_rows[ph]
        else:
            r1 = W.total_by_CAS(s1); r2 = W.total_by_CAS(s2)
            f = W.total_by_CAS(feed)
        for cas in f:
            w.ensure(f's1[{ph},{cas}] = split*feed', w.eq(r1.get(cas, 0.), xs[cas] * f[cas]))
            w.ensure(f's2[{ph},{cas}] = feed - split*feed', w.eq(r2.get(cas, 0.), f[cas] - xs[cas] * f[cas]))
        # nothing but the feed's chemicals may appear in the outlets
        for r, nm in ((r1, 's1'), (r2, 's2')):
            for cas, v in r.items():
                if cas not in f:
                    w.ensure(f'{nm}[{ph},{cas}] = 0 (not in feed)', w.eq(v, 0.))
        if not (multi_out or len(rows) == 1):
            break
    w.ensure('outlets rep_ok', w.And(W.rep_ok(w, s1), W.rep_ok(w, s2)))
    c0 = feed.chemicals.CASs[0]
    w.canary('canary: s1 = feed', w.eq(W.total_by_CAS(s1)[c0], W.total_by_CAS(feed)[c0] + 1))


# --------------------------------------------------------------------------- separate_out after mix_from

def sep_configs(tier):
    out = []
    for recv in ['l', 'gl']:
        for a, b in [(('l', 'A'), ('l', 'A')), (('l', 'A'), ('l', 'B')), (('g', 'B'), ('l', 'A')), (('gl', 'A'), ('l', 'A')),
                     (('l', 'A'), ('gl', 'A')), (('gl', 'A'), ('gl', 'B')), (('l', 'B'), ('g', 'B')), (('l', 'A'), ('E', 'A'))]:
            out.append({'name': f'recv={recv};a={a[0]}{a[1]};b={b[0]}{b[1]}', 'recv': recv, 'a': list(a), 'b': list(b)})
    return out


@group('C01/separate_out', configs=sep_configs,
       functions=['thermosteam._stream:Stream.separate_out', 'thermosteam.indexer:ChemicalIndexer.separate_out',
                  'thermosteam.indexer:MaterialIndexer.separate_out', 'thermosteam.base.sparse:SparseVector.__isub__',
                  'thermosteam.base.sparse:SparseArray.__isub__'])
def separate_out(w, cfg):
    W.reset_caches()
    recv, _ = _mk(w, 'r', cfg['recv'], 'A', 'empty')
    a, _ = _mk(w, 'a', cfg['a'][0], cfg['a'][1], 'two-maybe')
    kb = cfg['b'][0]
    b, _ = _mk(w, 'b', 'l' if kb == 'E' else kb, cfg['b'][1], 'empty' if kb == 'E' else 'two-maybe')
    ta = W.total_by_CAS(a); tb = W.total_by_CAS(b)
    pre_b = W.snapshot(b)
    recv.mix_from([a, b], energy_balance=False)
    recv.separate_out(b, energy_balance=False)
    got = W.total_by_CAS(recv)
    for cas in recv.chemicals.CASs:
        w.ensure(f'remainder[{cas}] = a', w.eq(got[cas], ta.get(cas, 0.)))
    w.ensure('separated stream unchanged', W.same_snapshot(w, pre_b, W.snapshot(b)))
    w.ensure('rep_ok', W.rep_ok(w, recv))
    c0 = recv.chemicals.CASs[0]
    w.canary('canary: remainder = a + b', w.eq(got[c0], ta.get(c0, 0.) + tb.get(c0, 0.) + 1))


# --------------------------------------------------------------------------- copy_flow(remove=True), scale

def move_configs(tier):
    out = []
    for dst in ['l', 'gl']:
        for src in [('l', 'A'), ('g', 'A'), ('gl', 'A'), ('l', 'B'), ('gl', 'B')]:
            for ids in ['all', 'Water', 'WaterMethanol']:
                if dst == 'gl' and src[1] == 'B':
                    continue  # MultiStream.copy_flow requires identical chemicals (raises ValueError by contract)
                out.append({'name': f'dst={dst};src={src[0]}{src[1]};IDs={ids}', 'dst': dst, 'src': list(src), 'ids': ids})
    return out


@group('C01/copy_flow_remove', configs=move_configs,
       functions=['thermosteam._stream:Stream.copy_flow', 'thermosteam._multi_stream:MultiStream.copy_flow'])
def copy_flow_remove(w, cfg):
    W.reset_caches()
    dst, _ = _mk(w, 'd', cfg['dst'], 'A', 'pos+maybe')
    src, _ = _mk(w, 's', cfg['src'][0], cfg['src'][1], 'two-maybe')
    ids = {'all': ..., 'Water': 'Water', 'WaterMethanol': ('Water', 'Methanol')}[cfg['ids']]
    sel = {'all': None, 'Water': ['Water'], 'WaterMethanol': ['Water', 'Methanol']}[cfg['ids']]
    selcas = None if sel is None else {W.chemical(i).CAS for i in sel}
    t_src = W.total_by_CAS(src)
    t_dst = W.total_by_CAS(dst)
    if isinstance(dst, tmo.MultiStream):
        dst.copy_flow(src, ..., ids, remove=True)
    else:
        dst.copy_flow(src, ids, remove=True)
    a_src = W.total_by_CAS(src); a_dst = W.total_by_CAS(dst)
    for cas in dst.chemicals.CASs:
        moved = (selcas is None or cas in selcas)
        before = t_src.get(cas, 0.) + (0. if moved else 0.)
        # material is neither duplicated nor lost: what the source lost is what the target now holds for moved chemicals
        if moved:
            w.ensure(f'moved[{cas}]: dst = src_before, src = 0',
                     w.And(w.eq(a_dst[cas], t_src.get(cas, 0.)), w.eq(a_src.get(cas, 0.), 0.)))
        else:
            w.ensure(f'kept[{cas}]: src unchanged', w.eq(a_src.get(cas, 0.), t_src.get(cas, 0.)))
            if sel is not None and not isinstance(dst, tmo.MultiStream):
                w.ensure(f'kept[{cas}]: dst unchanged', w.eq(a_dst[cas], t_dst[cas]))
    c0 = dst.chemicals.CASs[0]
    w.canary('canary: source keeps material', w.eq(a_src.get(c0, 0.), t_src.get(c0, 0.) + 1))


def scale_configs(tier):
    return [{'name': f'kind={k};op={op}', 'kind': k, 'op': op}
            for k in ['l', 'gl', 'Lls'] for op in ['scale', 'mul', 'imul', 'rmul', 'neg']]


@group('C01/scale', configs=scale_configs,
       functions=['thermosteam._stream:Stream.scale', 'thermosteam._stream:Stream.__mul__', 'thermosteam._stream:Stream.__imul__',
                  'thermosteam._stream:Stream.__rmul__', 'thermosteam._stream:Stream.__neg__'])
def scale(w, cfg):
    W.reset_caches()
    s, _ = _mk(w, 's', cfg['kind'], 'A', 'two-maybe')
    k = w.real('k')
    pre = W.snapshot(s)
    op = cfg['op']
    if op == 'scale':
        s.scale(k); r = s
    elif op == 'imul':
        s *= k; r = s
    elif op == 'mul':
        r = s * k
    elif op == 'rmul':
        r = k * s
    elif op == 'neg':
        r = -s; k = -1.
    post = W.snapshot(r)
    keys = set(pre['flows']) | set(post['flows'])
    for key in sorted(keys):
        w.ensure(f'flow{list(key)} multiplied by k', w.eq(post['flows'].get(key, 0.), k * pre['flows'].get(key, 0.)))
    if op in ('mul', 'rmul', 'neg'):
        w.ensure('operand unchanged', W.same_snapshot(w, pre, W.snapshot(s)))
    w.ensure('rep_ok', W.rep_ok(w, r))
    if keys:
        key = sorted(keys)[0]
        w.canary('canary: flows unchanged by scaling', w.eq(post['flows'].get(key, 0.), pre['flows'].get(key, 0.) + 1))


# --------------------------------------------------------------------------- copy_flow(remove=True) with an explicit phase (MultiStream target)

def move_phase_configs(tier):
    out = []
    for src in ['l', 'g', 'gl']:
        for phase in ['g', 'l']:
            for ids in ['all', 'Water']:
                out.append({'name': f'dst=gl(empty);src={src}A;phase={phase};IDs={ids}', 'src': src, 'phase': phase, 'ids': ids})
    return out


@group('C01/copy_flow_remove_phase', configs=move_phase_configs,
       functions=['thermosteam._multi_stream:MultiStream.copy_flow'])
def copy_flow_remove_phase(w, cfg):
    """Moving flow with removal: whatever the source loses is exactly what the (initially empty) target holds afterwards."""
    W.reset_caches()
    dst, _ = _mk(w, 'd', 'gl', 'A', 'empty')
    src, _ = _mk(w, 's', cfg['src'], 'A', 'two-maybe')
    ids = {'all': ..., 'Water': 'Water'}[cfg['ids']]
    before = W.total_by_CAS(src)
    dst.copy_flow(src, cfg['phase'], ids, remove=True)
    after = W.total_by_CAS(src)
    held = W.total_by_CAS(dst)
    for cas in dst.chemicals.CASs:
        w.ensure(f'[{cas}] lost by the source = held by the target', w.eq(before[cas] - after[cas], held[cas]))
        w.ensure(f'[{cas}] source never gains', w.le(after[cas], before[cas]))
    other_phase = 'l' if cfg['phase'] == 'g' else 'g'
    for cas, v in W.row_by_CAS(dst, other_phase).items():
        w.ensure(f'[{cas}] nothing lands in the phase that was not requested', w.eq(v, 0.))
    c0 = dst.chemicals.CASs[0]
    w.canary('canary: target stays empty although the source lost material', w.And(w.eq(held[c0], 0.), w.gt(before[c0] - after[c0], 0.)))


# --------------------------------------------------------------------------- histories on one receiver package
# (added after the seeded change C01_3: index_overlap keyed its per-package cache on the SET of CAS numbers, so the index
#  list remembered for one ordering of an inlet's chemicals was reused for another ordering.  Every group above starts
#  from empty caches; here two operations follow each other WITHOUT a reset, with foreign packages that list the same
#  chemicals in different orders.)

def history_configs(tier):
    ops = ['mix', 'mix2', 'sep', 'copy_like']
    out = []
    for recv in (['l', 'gl'] if tier == 'thorough' else ['l']):
        for first, second in itertools.product(ops, ops):
            for p1, p2 in (('B', 'B2'), ('B2', 'B')) + ((('B', 'B'), ('B2', 'B2')) if tier == 'thorough' else ()):
                for k in (['l', 'g', 'gl'] if tier == 'thorough' else ['l']):
                    out.append({'name': f'recv={recv};{first}[{k}{p1}]>{second}[{k}{p2}]', 'recv': recv, 'ops': [first, second],
                                'pkgs': [p1, p2], 'kind': k})
    return out


@group('C01/history', configs=history_configs,
       functions=['thermosteam.indexer:index_overlap', 'thermosteam._stream:Stream.mix_from', 'thermosteam._stream:Stream.separate_out',
                  'thermosteam._stream:Stream.copy_like', 'thermosteam.indexer:ChemicalIndexer.mix_from',
                  'thermosteam.indexer:ChemicalIndexer.separate_out', 'thermosteam.indexer:ChemicalIndexer.copy_like',
                  'thermosteam.indexer:MaterialIndexer.mix_from', 'thermosteam.indexer:MaterialIndexer.separate_out',
                  'thermosteam.indexer:MaterialIndexer.copy_like'],
       notes='two operations in sequence on receivers of one package, caches reset only before the first; inlets on two foreign '
             'packages listing the same chemicals in different orders')
def history(w, cfg):
    W.reset_caches()
    for step, (op, pk) in enumerate(zip(cfg['ops'], cfg['pkgs'])):
        recv, _ = _mk(w, f'r{step}', cfg['recv'], 'A', 'empty')
        own, _ = _mk(w, f'o{step}', 'l', 'A', 'pos+maybe')
        x, _ = _mk(w, f'x{step}', cfg['kind'], pk, 'both-pos')
        tx = W.total_by_CAS(x); to = W.total_by_CAS(own)
        pre = W.snapshot(x)
        if op == 'mix':
            recv.mix_from([x], energy_balance=False); expected = tx
        elif op == 'mix2':
            recv.mix_from([own, x], energy_balance=False); expected = {c: to.get(c, 0.) + tx.get(c, 0.) for c in set(to) | set(tx)}
        elif op == 'sep':
            recv.mix_from([own, x], energy_balance=False); recv.separate_out(x, energy_balance=False); expected = to
        else:
            recv.copy_like(x); expected = tx
        got = W.total_by_CAS(recv)
        for cas in recv.chemicals.CASs:
            w.ensure(f'step {step} ({op}): total[{cas}]', w.eq(got[cas], expected.get(cas, 0.)))
        w.ensure(f'step {step} ({op}): foreign stream unchanged', W.same_snapshot(w, pre, W.snapshot(x)))
        w.ensure(f'step {step} ({op}): rep_ok', W.rep_ok(w, recv))
        if step == 0:
            c0 = recv.chemicals.CASs[0]
            w.canary('canary: total + 1', w.eq(got[c0], expected.get(c0, 0.) + 1))
