# -*- coding: utf-8 -*-
"""
C04 — a vapour-liquid flash honours its specifications and the equilibrium conditions.

Mode S (proved for all real values per enumerated structure), the algebra around the solvers:
  C04/rachford_rice_2N   compute_phase_fraction_2N returns a root of the two-component Rachford-Rice equation (loop-free)
  C04/rr_objective       phase_fraction_objective_function IS the Rachford-Rice residual with forced-phase fractions (loop-free)
  C04/K_posing           xVlogK_iter / xVlogK_iter_2n pose K = pcf*Psat*gamma/(phi*P); a fixed point is an iso-fugacity state
  C04/spec_<pair>        VLE.__call__ dispatch: T' = T_spec, P' = P_spec on every path that returns, solvers havoc'ed
  C04/phase_boundary     set_thermal_condition: all liquid iff P >= P_bubble and no light chemicals, all vapour iff
                         P <= P_dew and no heavy chemicals, otherwise the two-phase result of the equilibrium solver
  C04/PH_correction, C04/PS_correction   the result of set_PH / set_PS reproduces H (S) exactly (A-root, H/S linear in the flows)
  C04/scaling            relational: the outputs for k*feed are k * the outputs for feed (solver stubs = deterministic
                         functions of their normalised inputs)
Mode B (bounded run-time contracts on the REAL solvers and REAL property data; never counted as proved):
  C04/B_rr_solve, C04/B_TP, C04/B_V, C04/B_HS, C04/B_ideal_raoult, C04/B_scaling

Every `ensures` is a sentence of the property; the frame clauses say what a flash must not touch.
"""
import os
import sys
import math
import itertools
import numpy as np
import thermosteam as tmo
from thermosteam import equilibrium as eq
from thermosteam.exceptions import InfeasibleRegion, NoEquilibrium
from thermosteam.mixture.mixture import Mixture
from engine.api import group, CheckAbort
from engine.sx import tmo_world as W

# solver opt-ins of the engine (see engine/sx/sym.py): one-shot solvers for nonlinear VCs / branch conditions
os.environ.setdefault('VERIF_PROVE_FRESH_MS', '5000')
os.environ.setdefault('VERIF_BRANCH_NLSAT_MS', '2000')

vle_mod = sys.modules['thermosteam.equilibrium.vle']
binary_mod = sys.modules['thermosteam.equilibrium.binary_phase_fraction']

# "no result for this specification": the property only speaks about calls that return normally
NOT_NORMAL = (NoEquilibrium, InfeasibleRegion, NotImplementedError, RuntimeError, ZeroDivisionError, AssertionError)


def _arr(w, xs):
    return np.array(list(xs), dtype=object if w.symbolic else float)


# =========================================================================== S (loop-free): Rachford-Rice algebra

def rr2_configs(tier):
    return [{'name': 'z normalised', 'norm': True}, {'name': 'z any positive amounts', 'norm': False}]


@group('C04/rachford_rice_2N', configs=rr2_configs, loop_free=True,
       functions=['thermosteam.equilibrium.binary_phase_fraction:compute_phase_fraction_2N'])
def rachford_rice_2N(w, cfg):
    """requires z_i > 0, K_i > 0, K_i != 1, K_1 != K_2 (otherwise the equation has no isolated root)."""
    z1 = w.real('z1', lo=0., lo_strict=True)
    if cfg['norm']:
        w.assume(w.lt(z1, 1.))
        z2 = 1. - z1
    else:
        z2 = w.real('z2', lo=0., lo_strict=True)
    K1 = w.real('K1', lo=0., lo_strict=True)
    K2 = w.real('K2', lo=0., lo_strict=True)
    w.assume(w.And(w.ne(K1, 1.), w.ne(K2, 1.), w.ne(K1, K2)))
    _skip_if_rounding_dominates(w, [z1, z2, K1, K2, K1 - 1., K2 - 1., K1 - K2])
    zs = _arr(w, [z1, z2]); Ks = _arr(w, [K1, K2])
    V = binary_mod.compute_phase_fraction_2N(zs, Ks)
    d1 = 1. + V * (K1 - 1.)
    d2 = 1. + V * (K2 - 1.)
    w.ensure('denominators of the Rachford-Rice equation are non-zero at the result', w.And(w.ne(d1, 0.), w.ne(d2, 0.)))
    if w.symbolic or (d1 != 0. and d2 != 0.):
        x1 = z1 / d1; x2 = z2 / d2
        y1 = K1 * x1; y2 = K2 * x2
        w.ensure('result is a root of the Rachford-Rice equation: sum z_i (K_i - 1)/(1 + V (K_i - 1)) = 0',
                 _zero_sum(w, [z1 * (K1 - 1.) / d1, z2 * (K2 - 1.) / d2]))
        w.ensure('liquid and vapour compositions both sum to the feed total', w.And(w.eq(x1 + x2, z1 + z2), w.eq(y1 + y2, z1 + z2)))
        w.ensure('component balances close: (1-V) x_i + V y_i = z_i',
                 w.And(w.eq((1. - V) * x1 + V * y1, z1), w.eq((1. - V) * x2 + V * y2, z2)))
        w.ensure('0 < V < 1 exactly when sum K_i z_i > sum z_i (above the bubble point) and sum z_i / K_i > sum z_i (below the dew point)',
                 _iff(w, w.And(w.gt(V, 0.), w.lt(V, 1.)),
                      w.And(w.gt(K1 * z1 + K2 * z2, z1 + z2), w.gt(z1 / K1 + z2 / K2, z1 + z2))))
    w.ensure('frame: arguments unchanged', w.And(w.eq(zs[0], z1), w.eq(zs[1], z2), w.eq(Ks[0], K1), w.eq(Ks[1], K2)))
    w.canary('canary: V = 1/2', w.eq(V, 0.5))
    w.note(V=V)


def _exp(v):
    return v.exp() if hasattr(v, 'exp') and not isinstance(v, (float, np.floating)) else math.exp(v)


def _log(v):
    return v.log() if hasattr(v, 'log') and not isinstance(v, (float, np.floating)) else math.log(v)


def _branch_timeout(w, ms):
    """Shorter time limit for the branch-feasibility queries of this path (an `unknown` counts as feasible both ways, which is
    sound; nonlinear conditions over uninterpreted H/S values otherwise sit out the default 2 s each)."""
    if w.symbolic:
        w.c.solver.set('timeout', ms)


def _zero_sum(w, terms):
    """sum(terms) = 0.  Natively (cross-check of a path model with floats) the test is relative to the size of the terms: solver
    models may put denominators at 1e-17, where the rounding error of the individual quotients dwarfs an absolute tolerance."""
    total = w.total(terms)
    if w.symbolic:
        return w.eq(total, 0.)
    return abs(total) <= 1e-7 * sum(abs(t) for t in terms) + 1e-9


def _skip_if_rounding_dominates(w, leaves, lo=1e-8, hi=1e8):
    """Native runs only (cross-check / replay of a solver model with floats): path models of these purely algebraic groups may
    put leaves at 1e-17 or 1e-33, where float rounding, not the code, decides equalities; such a run is skipped (reported by
    the engine as `cross_checks_skipped_rounding`).  Nothing is assumed in the symbolic run."""
    if not w.symbolic:
        w.assume(all(v == 0. or lo <= abs(v) <= hi for v in leaves))


def _iff(w, a, b):
    return w.And(w.Implies(a, b), w.Implies(b, a))


def rr_obj_configs(tier):
    out = []
    ns = (1, 2, 3) if tier == 'quick' else (1, 2, 3, 4, 5)
    for n in ns:
        for za in (False, True):
            for zb in (False, True):
                out.append({'name': f'N={n};light={za};heavy={zb}', 'n': n, 'za': za, 'zb': zb})
    return out


@group('C04/rr_objective', configs=rr_obj_configs, loop_free=True,
       functions=['thermosteam.equilibrium.binary_phase_fraction:phase_fraction_objective_function'])
def rr_objective(w, cfg):
    """
    Definition check: with x_i = z_i/(1 + phi (K_i - 1)), y_i = K_i x_i (component balances at vapour fraction phi), all of
    the light fraction za in the vapour and all of the heavy fraction zb in the liquid, the function value is
    (sum of liquid mole fractions) - (sum of vapour mole fractions); it vanishes exactly when both sum to the same value.
    """
    n = cfg['n']
    zs = [w.real(f'z{i}', lo=0., lo_strict=True) for i in range(n)]
    Ks = [w.real(f'K{i}', lo=0., lo_strict=True) for i in range(n)]
    za = w.real('za', lo=0., lo_strict=True) if cfg['za'] else 0.
    zb = w.real('zb', lo=0., lo_strict=True) if cfg['zb'] else 0.
    phi = w.real('phi', lo=0., hi=1., lo_strict=True, hi_strict=True)
    _skip_if_rounding_dominates(w, zs + Ks + [za, zb, phi, 1. - phi])
    z = _arr(w, zs); K = _arr(w, Ks)
    K_minus_1 = K - 1.
    a1 = -z * K_minus_1
    a1_0 = list(a1); a2_0 = list(K_minus_1)
    f = binary_mod.phase_fraction_objective_function(phi, a1, K_minus_1, za, zb)
    liquid = zb / (1. - phi)
    vapour = za / phi
    for zi, Ki in zip(zs, Ks):
        xi = zi / (1. + phi * (Ki - 1.))
        liquid = liquid + xi
        vapour = vapour + Ki * xi
    w.ensure('value = sum of liquid fractions - sum of vapour fractions (Rachford-Rice residual with forced-phase fractions)',
             w.eq(f, liquid - vapour))
    total = za + zb
    for zi in zs: total = total + zi
    w.ensure('overall balance (1-phi)*liquid + phi*vapour = feed', w.eq((1. - phi) * liquid + phi * vapour, total))
    w.ensure('frame: arguments unchanged', w.And(w.all_eq(list(a1), a1_0), w.all_eq(list(K_minus_1), a2_0)))
    w.canary('canary: residual is zero for every phi', w.eq(f, 0.))


# =========================================================================== packages and havoc environment (mode S)

# key -> (search ID, locked phase, N_solutes)
CHEMS = {
    'W': ('Water', None, None), 'E': ('Ethanol', None, None), 'M': ('Methanol', None, None),
    'N': ('N2', 'g', None),          # gas-locked (light, non-partitioning)
    'X': ('NaCl', 'l', 2),           # liquid-locked, counts as 2 mol of solutes (F_mol_heavy > 0)
    'G': ('Glucose', 'l', None),     # liquid-locked, N_solutes -> 0 (does not count as heavy solute)
}
_chem_cache = {}
_pkg_cache = {}


def chem(key):
    c = _chem_cache.get(key)
    if c is None:
        ID, phase, nsol = CHEMS[key]
        c = tmo.Chemical(ID, phase=phase) if phase else tmo.Chemical(ID)
        if nsol is not None:
            c.N_solutes = nsol
        _chem_cache[key] = c
    return c


def pkg(keys):
    """Real compiled package for a string of chemical keys, e.g. 'WENX' (cached; registered for W.reset_caches)."""
    t = _pkg_cache.get(keys)
    if t is None:
        cs = tmo.Chemicals([chem(k) for k in keys])
        cs.compile()
        t = _pkg_cache[keys] = tmo.Thermo(cs)
        W._thermo[('C04', keys)] = t
        W._thermo[tuple(c.ID for c in cs)] = t      # W.stub_thermo(w, IDs) finds the package with the locked chemicals
    return t


S_PKGS = ['W', 'WE', 'WN', 'WX', 'NX', 'WEN', 'WEX', 'WENX', 'WEM', 'WEG']
for _k in S_PKGS:
    pkg(_k)

_MISSING = object()


class Env:
    """Per-path source of havoc leaves + registry of the patches to undo."""

    def __init__(self, w, cfg):
        self.w = w
        self.cfg = cfg
        self.n = 0
        self.saved = []
        self.k = cfg.get('k', 1)            # number of callback evaluations a havoc'ed iterative solver makes
        self.calls = {}
        self.rec = {}

    def leaf(self, tag, **kw):
        self.n += 1
        return self.w.real(f'hv{self.n}.{tag}', **kw)

    def pos(self, tag):
        return self.leaf(tag, lo=0., lo_strict=True)

    def unit(self, tag):
        return self.leaf(tag, lo=0., hi=1.)

    def arr(self, xs):
        return _arr(self.w, xs)

    def simplex(self, tag, n):
        """n values >= 0 that sum to 1 (what fn.normalize of a non-negative vector guarantees)."""
        if n == 1:
            return self.arr([1.0])
        vals = [self.leaf(f'{tag}{i}', lo=0., hi=1.) for i in range(n - 1)]
        last = 1.0
        for v in vals:
            last = last - v
        self.w.assume(self.w.ge(last, 0.))
        return self.arr(vals + [last])

    def count(self, what):
        self.calls[what] = self.calls.get(what, 0) + 1

    def patch(self, obj, name, value):
        self.saved.append((obj, name, obj.__dict__.get(name, _MISSING) if hasattr(obj, '__dict__') else getattr(obj, name, _MISSING)))
        setattr(obj, name, value)

    def restore(self):
        for obj, name, old in reversed(self.saved):
            if old is _MISSING:
                try:
                    delattr(obj, name)
                except AttributeError:
                    pass
            else:
                setattr(obj, name, old)
        self.saved = []


class HavocMixture(Mixture):
    """A-models/A-root: energies, entropies and the temperature solvers return arbitrary values; they only READ flows."""
    __slots__ = ('env', 'include_excess_energies')

    def __init__(self, env):
        self.env = env
        self.include_excess_energies = False

    def H(self, phase, mol, T, P): return self.env.leaf('H')
    def S(self, phase, mol, T, P): return self.env.leaf('S')
    def xH(self, phase_mol, T, P): return self.env.leaf('xH')
    def xS(self, phase_mol, T, P): return self.env.leaf('xS')
    def Cn(self, phase, mol, T, P=None): return self.env.pos('Cn')
    def xCn(self, phase_mol, T, P=None): return self.env.pos('xCn')
    def solve_T_at_HP(self, phase, mol, H, T_guess, P): return self.env.pos('T_HP')
    def xsolve_T_at_HP(self, phase_mol, H, T_guess, P): return self.env.pos('xT_HP')
    def solve_T_at_SP(self, phase, mol, S, T_guess, P): return self.env.pos('T_SP')
    def xsolve_T_at_SP(self, phase_mol, S, T_guess, P): return self.env.pos('xT_SP')


def havoc_thermo(env, keys, **kw):
    return tmo.Thermo(pkg(keys).chemicals, mixture=HavocMixture(env), **kw)


def multistream(w, name, th, dist, keys, T=None, P=None):
    """
    Real MultiStream (g, l) with planted flows.  dist: {chemical key: two characters for (g, l),
    '0' = no entry, '+' = stored leaf > 0, '?' = leaf >= 0 whose presence is forked}.
    """
    s = tmo.MultiStream(None, phases=('g', 'l'), thermo=th)
    present = {'default': 'zero'}
    concrete = {}
    for k in keys:
        pat = dist.get(k, '00')
        for ph, c in zip('gl', pat):
            if c in '123456789':       # a concrete amount (cheap configurations of the quick tier)
                concrete[ph, chem(k).ID] = float(c)
                continue
            present[ph, chem(k).ID] = {'0': 'zero', '+': 'pos', '?': 'maybe'}[c]
    leaves = W.plant_flows(w, s, name, present=present)
    for (ph, ID), v in concrete.items():
        s.imol[ph, ID] = v
        leaves[ph, ID] = v
    if T is not None: s.T = T
    if P is not None: s.P = P
    return s, leaves


def flows_now(s):
    """{(phase, ID): value} for every phase and chemical, read from the raw sparse dicts."""
    IDs = s.chemicals.IDs
    out = {}
    for ph, sv in W.rows_of(s):
        for i, ID in enumerate(IDs):
            out[ph, ID] = sv.dct.get(i, 0.)
    return out


def totals(leaves, IDs):
    out = {ID: 0. for ID in IDs}
    for (ph, ID), v in leaves.items():
        out[ID] = out[ID] + v
    return out


def _dist_name(dist, keys):
    return ','.join(f'{k}{dist.get(k, "")}' for k in keys)


class _StubFlx:
    """A-iter: IQ_interpolation evaluates its callback k times at arbitrary positive arguments, returns an arbitrary positive value."""

    def __init__(self, env): self.env = env

    def IQ_interpolation(self, f, x0, x1, y0=None, y1=None, x=None, xtol=0., ytol=5e-8, args=(), **kw):
        env = self.env
        env.count('IQ')
        r = env.pos('iq_x')
        for _ in range(env.k):
            r = env.pos('iq_x')
            f(r, *args)
        return r

    def __getattr__(self, name):
        raise AssertionError(f'unexpected flexsolve call in vle.py: {name}')


def install_vle_stubs(env, P_dew=None, P_bubble=None, interior_v=False, solve_v='real'):
    """
    Assumed contracts of the numerical dependencies of thermosteam.equilibrium.vle (DESIGN 2.6):
      A-bubble/dew  BubblePoint.solve_Py/solve_Ty, DewPoint.solve_Px/solve_Tx return a positive P/T and a composition
                    with entries >= 0 that sums to 1 (P_dew / P_bubble: the given leaves when passed);
      A-iter        flx.IQ_interpolation only evaluates its callback;
      A-fixed-point VLE._solve_v_fixed_point returns an arbitrary real vector (interior_v: strictly between 0 and mol_vle,
                    i.e. a genuine two-phase solution);
      A-models      Psat, Tsat, mixture energies/entropies and T-solvers return arbitrary (positive where physical) values.
    """
    w = env.w

    class StubPoint:
        def __init__(self, chemicals=(), thermo=None):
            self.chemicals = tuple(chemicals)
            self.IDs = tuple(c.ID for c in self.chemicals)
            n = len(self.chemicals)
            self.Psats = [(lambda T: 1e5) for _ in range(n)]      # consumed by the havoc'ed fixed-point solver only
            self.pcf = lambda T, P, Psats: 1.0
            self.gamma = self.phi = None
            self.Tmin = env.pos('Tmin'); self.Tmax = env.pos('Tmax')
            self.Pmin = env.pos('Pmin'); self.Pmax = env.pos('Pmax')

        def _xy(self, tag):
            return env.simplex(tag, len(self.chemicals))

    class StubBubblePoint(StubPoint):
        def solve_Py(self, z, T, liquid_conversion=None):
            env.count('solve_Py'); env.rec['bubble_args'] = (z, T)
            return (env.pos('P_bubble') if P_bubble is None else P_bubble), self._xy('yb')

        def solve_Ty(self, z, P, liquid_conversion=None):
            env.count('solve_Ty')
            return env.pos('T_bubble'), self._xy('yb')

    class StubDewPoint(StubPoint):
        def solve_Px(self, z, T, gas_conversion=None):
            env.count('solve_Px'); env.rec['dew_args'] = (z, T)
            return (env.pos('P_dew') if P_dew is None else P_dew), self._xy('xd')

        def solve_Tx(self, z, P, gas_conversion=None):
            env.count('solve_Tx')
            return env.pos('T_dew'), self._xy('xd')

    def solve_v_fixed_point(self, pcf_Psat_over_P, T, P, gas_conversion, liquid_conversion):
        env.count('fixed_point')
        n = len(self._index)
        self._V = env.leaf('V')
        if interior_v:
            vs = []
            for i in range(n):
                v = env.pos(f'v{i}')
                w.assume(w.lt(v, self._mol_vle[i]))
                vs.append(v)
            env.rec['v'] = list(vs); env.rec['v_args'] = (T, P)
            return env.arr(vs)
        return env.arr([env.leaf(f'v{i}') for i in range(n)])

    def refresh_K(self, V, y_bubble, x_dew, dz_bubble=None, dz_dew=None):
        self._V = V          # initial guess of the havoc'ed solver; writes no flow
        self._K = None

    env.patch(vle_mod, 'BubblePoint', StubBubblePoint)
    env.patch(vle_mod, 'DewPoint', StubDewPoint)
    env.patch(vle_mod, 'flx', _StubFlx(env))
    def solve_v_contract(self, T, P, gas_conversion=None, liquid_conversion=None):
        """Contract of VLE._solve_v (discharged in C03/solve_v_clip): 0 <= v <= mol_vle elementwise; sets self._v, self._T."""
        env.count('solve_v')
        self._T = T
        mol = self._mol_vle
        vs = []
        for i in range(len(self._index)):
            v = env.leaf(f'v{i}', lo=0., lo_strict=interior_v)
            w.assume(w.lt(v, mol[i]) if interior_v else w.le(v, mol[i]))
            vs.append(v)
        env.rec['v'] = list(vs); env.rec['v_args'] = (T, P)
        self._v = v = env.arr(vs)
        return v

    if solve_v == 'real':
        env.patch(vle_mod.VLE, '_solve_v_fixed_point', solve_v_fixed_point)
    else:
        env.patch(vle_mod.VLE, '_solve_v', solve_v_contract)
    env.patch(vle_mod.VLE, '_refresh_K', refresh_K)
    # single-component branches: Psat(T), Tsat(P) of the chemical in equilibrium (deterministic in their argument)
    env.patch(tmo.Chemical, 'Tsat', lambda self, P, *a, **kw: w.fn(f'Tsat.{self.ID}', positive=True)(P))
    for k in env.cfg['pkg']:
        c = chem(k)
        env.patch(c, '_Psat', (lambda T, *a, _ID=c.ID, **kw: w.fn(f'Psat.{_ID}', positive=True)(T)))


# =========================================================================== S: T' = T_spec, P' = P_spec on every path

SPECS = ('TP', 'TV', 'PV', 'PH', 'PS', 'TH', 'TS', 'Tx', 'Px', 'Ty', 'Py')
ITERATIVE = ('TV', 'PV', 'PH', 'PS', 'TH', 'TS')


def spec_kwargs(env, spec):
    kw = {}
    for c in spec:
        if c in 'TP':
            kw[c] = env.w.real(f'spec.{c}', lo=0., lo_strict=True)
        elif c == 'V':
            kw[c] = env.w.real('spec.V', lo=0., hi=1.)
        elif c in 'HS':
            kw[c] = env.w.real(f'spec.{c}')
        else:
            a = env.w.real(f'spec.{c}0', lo=0., hi=1.)
            kw[c] = env.arr([a, 1.0 - a])
    return kw


def spec_configs(spec):
    binary_only = spec[1] in 'xy'

    def configs(tier):
        if binary_only:
            fam = [('WE', {'W': '0+', 'E': '+0'}, 0), ('WEN', {'W': '0+', 'E': '0+', 'N': '+0'}, 0), ('WEX', {'W': '0+', 'E': '+0', 'X': '0+'}, 0)]
            if tier == 'thorough':
                fam += [('WE', {'W': '??', 'E': '++'}, 0), ('WEG', {'W': '0+', 'E': '0+', 'G': '0+'}, 0)]
        else:
            fam = [
                ('W', {'W': '++'}, 1),                              # one volatile chemical (single-component branches)
                ('WE', {'W': '0+', 'E': '+0'}, 1),                  # two volatile chemicals
                ('WN', {'W': '0+', 'N': '+0'}, 1),                  # one volatile chemical + non-condensable gas
                ('WX', {'W': '0+', 'X': '0+'}, 1),                  # one volatile chemical + non-volatile solute
                ('NX', {'N': '+0', 'X': '0+'}, 0),                  # nothing volatile (NoEquilibrium inside)
                ('WE', {'W': '00', 'E': '00'}, 0),                  # empty stream (NoEquilibrium inside)
            ]
            if tier == 'thorough' or spec == 'TP':
                fam += [('WEN', {'W': '0+', 'E': '0+', 'N': '+0'}, 1), ('WEX', {'W': '+0', 'E': '0+', 'X': '0+'}, 1)]
            if tier == 'thorough':
                fam += [
                    ('WENX', {'W': '0+', 'E': '+0', 'N': '+0', 'X': '0+'}, 1),
                    ('WEM', {'W': '0+', 'E': '+0', 'M': '++'}, 1),
                    ('WE', {'W': '??', 'E': '??'}, 1),
                    ('W', {'W': '??'}, 1),
                    ('WE', {'W': '0+', 'E': '+0'}, 2),
                    ('WEN', {'W': '0+', 'E': '0+', 'N': '+0'}, 2),
                ]
        return [{'name': f'{keys}/{_dist_name(d, keys)}/k={k}', 'pkg': keys, 'dist': d, 'k': k} for keys, d, k in fam]
    return configs


def spec_body(spec):
    def body(w, cfg):
        W.reset_caches()
        env = Env(w, cfg)
        keys = cfg['pkg']
        try:
            install_vle_stubs(env, solve_v=cfg.get('solve_v', 'contract'), interior_v=cfg.get('v', 'interior') == 'interior')
            th = havoc_thermo(env, keys)
            T0 = w.real('T0', lo=0., lo_strict=True)
            P0 = w.real('P0', lo=0., lo_strict=True)
            s, before = multistream(w, 'f', th, cfg['dist'], keys, T=T0, P=P0)
            tc = s._thermal_condition
            kw = spec_kwargs(env, spec)
            try:
                s.vle(**kw)
            except NOT_NORMAL as e:
                w.note(outcome=type(e).__name__)
                return
            if 'T' in kw:
                w.ensure('T after the flash = specified T', w.eq(s.T, kw['T']))
            if 'P' in kw:
                w.ensure('P after the flash = specified P', w.eq(s.P, kw['P']))
            w.ensure('frame: the stream keeps its thermal-condition object', s._thermal_condition is tc)
            w.ensure('frame: the specification arrays are not written to',
                     w.And(*[w.eq(kw[c][0] + kw[c][1], 1.0) for c in kw if c in 'xy']))
            if 'T' in kw:
                w.canary('canary: T after the flash = T before + 1 K', w.eq(s.T, T0 + 1.))
            else:
                w.canary('canary: P after the flash = P before + 1 Pa', w.eq(s.P, P0 + 1.))
            w.note(calls=dict(env.calls), T=s.T, P=s.P)
        finally:
            env.restore()
    body.__name__ = f'spec_{spec}'
    return body


_VLE = 'thermosteam.equilibrium.vle:VLE.'
SPEC_FUNCS = {
    'TP': ['set_thermal_condition', '_set_thermal_condition_chemical'],
    'TV': ['set_TV', '_set_TV_chemical', '_V_err_at_P'], 'PV': ['set_PV', '_set_PV_chemical', '_V_err_at_T'],
    'PH': ['set_PH', '_set_PH_chemical', '_H_hat_err_at_T'], 'PS': ['set_PS', '_set_PS_chemical', '_S_hat_err_at_T'],
    'TH': ['set_TH', '_set_TH_chemical', '_H_hat_err_at_P'], 'TS': ['set_TS', '_set_TS_chemical', '_S_hat_err_at_P'],
    'Tx': ['set_Tx', '_lever_rule'], 'Px': ['set_Px', '_lever_rule'], 'Ty': ['set_Ty', '_lever_rule'], 'Py': ['set_Py', '_lever_rule'],
}
_A_VLE = ['A-bubble/dew: solve_Py/Ty/Px/Tx return P,T > 0 and a composition >= 0 summing to 1',
          'A-iter: flx.IQ_interpolation only evaluates its callback (k times, arbitrary positive arguments)',
          'A-solve_v: VLE._solve_v returns 0 <= v <= mol_vle and sets _v, _T (its contract, discharged in C03/solve_v_clip); '
          'configurations with solve_v=real run the real _solve_v on an arbitrary vector from _solve_v_fixed_point',
          'A-models: Psat, Tsat, mixture H/S/xH/xS and T-solvers return arbitrary values and only read the flows']

for _spec in SPECS:
    group(f'C04/spec_{_spec}', configs=spec_configs(_spec),
          functions=[_VLE + f for f in ['__call__', '_setup'] + SPEC_FUNCS[_spec]],
          assumptions=_A_VLE, l0=_spec in ITERATIVE)(spec_body(_spec))


# =========================================================================== S: phase-boundary rule of set_thermal_condition

def boundary_configs(tier):
    fam = [
        ('W', {'W': '++'}),                                   # single volatile chemical: Psat decides
        ('WE', {'W': '0+', 'E': '+0'}),
        ('WE', {'W': '++', 'E': '++'}),
        ('WN', {'W': '0+', 'N': '+0'}),                       # light chemical present: never all liquid
        ('WX', {'W': '+0', 'X': '0+'}),                       # heavy chemical present: never all vapour
        ('WEN', {'W': '0+', 'E': '0+', 'N': '+0'}),
        ('WEX', {'W': '+0', 'E': '+0', 'X': '0+'}),
        ('WENX', {'W': '0+', 'E': '+0', 'N': '+0', 'X': '0+'}),
    ]
    if tier == 'thorough':
        fam += [('WEM', {'W': '0+', 'E': '+0', 'M': '++'}), ('WE', {'W': '+?', 'E': '?+'}), ('WEN', {'W': '++', 'E': '++', 'N': '?+'}),
                ('WEX', {'W': '++', 'E': '++', 'X': '?+'})]
    return [{'name': f'{keys}/{_dist_name(d, keys)}', 'pkg': keys, 'dist': d} for keys, d in fam]


@group('C04/phase_boundary', configs=boundary_configs,
       functions=[_VLE + f for f in ('__call__', 'set_thermal_condition', '_set_thermal_condition_chemical', '_setup', '_solve_v')]
       + ['thermosteam.equilibrium.vle:set_flows'],
       assumptions=['A-bubble/dew: solve_Px / solve_Py return the dew / bubble pressure of the composition they are given, P_dew < P_bubble',
                    'A-fixed-point: inside the two-phase region VLE._solve_v_fixed_point returns a split strictly between 0 and mol_vle',
                    'A-models: Psat(T) of a single volatile chemical is a positive deterministic function of T'])
def phase_boundary(w, cfg):
    """
    requires T below the critical temperature of a single volatile chemical (quantifier: 280-450 K).
    all liquid iff P >= P_bubble and no light chemical, all vapour iff P <= P_dew and no heavy chemical, otherwise the
    two-phase split computed by the equilibrium solver at the specified (T, P).
    """
    W.reset_caches()
    env = Env(w, cfg)
    keys = cfg['pkg']
    try:
        P_dew = w.real('P_dew', lo=0., lo_strict=True)
        P_bubble = w.real('P_bubble', lo=0., lo_strict=True)
        w.assume(w.lt(P_dew, P_bubble))
        install_vle_stubs(env, P_dew=P_dew, P_bubble=P_bubble, interior_v=True, solve_v='real')
        th = havoc_thermo(env, keys)
        T0 = w.real('T0', lo=0., lo_strict=True)
        P0 = w.real('P0', lo=0., lo_strict=True)
        s, before = multistream(w, 'f', th, cfg['dist'], keys, T=T0, P=P0)
        T = w.real('spec.T', lo=0., lo_strict=True)
        P = w.real('spec.P', lo=0., lo_strict=True)
        volatile = [k for k in keys if CHEMS[k][1] is None]
        IDs = [chem(k).ID for k in keys]
        tot = totals(before, IDs)
        if len(keys) == 1:
            w.assume(w.lt(T, chem(keys[0]).Tc))
        try:
            s.vle(T=T, P=P)
        except NOT_NORMAL as e:
            w.note(outcome=type(e).__name__)
            return
        now = flows_now(s)
        w.ensure('T, P after the flash = specified T, P', w.And(w.eq(s.T, T), w.eq(s.P, P)))
        vol_IDs = [chem(k).ID for k in volatile]
        present = [ID for ID in vol_IDs if not (isinstance(tot[ID], float) and tot[ID] == 0.)]
        all_vapour = w.And(*[w.And(w.eq(now['g', ID], tot[ID]), w.eq(now['l', ID], 0.)) for ID in vol_IDs])
        all_liquid = w.And(*[w.And(w.eq(now['l', ID], tot[ID]), w.eq(now['g', ID], 0.)) for ID in vol_IDs])
        some = w.Or(*[w.gt(tot[ID], 0.) for ID in vol_IDs])        # at least one volatile chemical present
        light = w.Or(*[w.gt(tot[chem(k).ID], 0.) for k in keys if CHEMS[k][1] == 'g'])
        heavy = w.Or(*[w.gt(tot[chem(k).ID] * (chem(k).N_solutes or 0), 0.) for k in keys if CHEMS[k][1] == 'l'])
        if len(keys) == 1:
            # single volatile chemical: bubble pressure = dew pressure = Psat(T); resolution of the comparison 1e-3 Pa
            Psat = w.fn(f'Psat.{IDs[0]}', positive=True)(T)
            w.ensure('single chemical: P above Psat(T) => all liquid', w.Implies(w.gt(P, Psat + 1e-3), all_liquid))
            w.ensure('single chemical: P below Psat(T) => all vapour', w.Implies(w.lt(P, Psat - 1e-3), all_vapour))
            w.canary('canary: always all liquid', all_liquid)
            return
        cond_V = w.And(w.le(P, P_dew), w.Not(heavy))
        cond_L = w.And(w.ge(P, P_bubble), w.Not(light))
        w.ensure('all vapour <=> P <= P_dew and no heavy (non-volatile) chemical', w.Implies(some, _iff(w, all_vapour, cond_V)))
        w.ensure('all liquid <=> P >= P_bubble and no light (non-condensable) chemical', w.Implies(some, _iff(w, all_liquid, cond_L)))
        if 'v' in env.rec:
            v = env.rec['v']; vT, vP = env.rec['v_args']
            index = list(s.vle._index)
            all_IDs = s.chemicals.IDs
            split = [w.And(w.eq(now['g', all_IDs[i]], v[n]), w.eq(now['l', all_IDs[i]], tot[all_IDs[i]] - v[n])) for n, i in enumerate(index)]
            w.ensure('otherwise: the two-phase split of the equilibrium solver evaluated at the specified (T, P)',
                     w.Implies(w.Not(w.Or(cond_V, cond_L)), w.And(w.eq(vT, T), w.eq(vP, P), *split)))
        else:
            w.ensure('otherwise: the two-phase split of the equilibrium solver evaluated at the specified (T, P)',
                     w.Implies(some, w.Or(cond_V, cond_L)))
        for nm in ('dew_args', 'bubble_args'):
            if nm in env.rec:
                z, Tz = env.rec[nm]
                index = list(s.vle._index)
                all_IDs = s.chemicals.IDs
                ratios = [w.eq(z[a] * tot[all_IDs[index[b]]], z[b] * tot[all_IDs[index[a]]])
                          for a in range(len(index)) for b in range(a + 1, len(index))]
                w.ensure(f'{nm[:-5]} pressure is asked for the feed composition (ratios of the volatile chemicals) at the specified T',
                         w.And(w.eq(Tz, T), *ratios))
        w.canary('canary: the flash leaves P as it was', w.eq(s.P, P0))
        w.note(calls=dict(env.calls), flows=now)
    finally:
        env.restore()


# =========================================================================== S (loop-free): K = pcf*Psat*gamma/(phi*P) is what the iteration poses

def kpose_configs(tier):
    out = [{'name': 'xVlogK_iter_2n', 'fn': '2n', 'n': 2, 'light': False, 'heavy': False}]
    ns = (2, 3) if tier == 'quick' else (2, 3, 4)
    for n in ns:
        for light, heavy in ((False, False), (True, False), (False, True), (True, True)):
            if (tier == 'quick' and n == 3 or n == 4) and light != heavy:
                continue
            out.append({'name': f'xVlogK_iter N={n};light={light};heavy={heavy}', 'fn': 'N', 'n': n, 'light': light, 'heavy': heavy})
    return out


@group('C04/K_posing', configs=kpose_configs, loop_free=True,
       functions=['thermosteam.equilibrium.vle:xVlogK_iter_2n', 'thermosteam.equilibrium.vle:xVlogK_iter', 'thermosteam.equilibrium.vle:xy'],
       assumptions=['A-models: activity and fugacity coefficients are positive deterministic functions of (composition, T[, P])',
                    'A-root: solve_phase_fraction_Rashford_Rice (N-component form) returns a value in [0, 1]'])
def K_posing(w, cfg):
    """
    One step of the fixed-point map.  ensures: the new K_i = pcf_i Psat_i gamma_i(x) / (phi_i(y) P) (floored at 1e-16), with
    gamma, phi evaluated at the normalised compositions x, y = K x / sum(K x) of the previous iterate; the new V solves the
    Rachford-Rice problem posed with exactly these K (two chemicals: closed form = root; N chemicals: the solver is called
    with z, K, the clipped previous V and the light / heavy fractions); the new x_i = z_i / (1 + V (K_i - 1)).
    Hence a fixed point of the map is an iso-fugacity state: x_i gamma_i pcf_i Psat_i = y_i phi_i P.
    """
    n = cfg['n']
    T = w.real('T', lo=0., lo_strict=True)
    P = w.real('P', lo=0., lo_strict=True)
    za = w.real('z_light', lo=0., lo_strict=True) if cfg['light'] else 0.
    zb = w.real('z_heavy', lo=0., lo_strict=True) if cfg['heavy'] else 0.
    zs = [w.real(f'z{i}', lo=0., lo_strict=True) for i in range(n - 1)]
    last = 1. - za - zb
    for v in zs: last = last - v
    w.assume(w.gt(last, 0.))
    zs.append(last)
    pPoP = [w.real(f'pcfPsat_over_P{i}', lo=0., lo_strict=True) for i in range(n)]
    xin = [w.real(f'x{i}', lo=0., lo_strict=True) for i in range(n)]
    Vin = w.real('V_prev')
    Kin = [w.real(f'K{i}', lo=0., lo_strict=True) for i in range(n)]
    _skip_if_rounding_dominates(w, [T, P, za, zb] + zs + pPoP + xin + Kin, lo=1e-6, hi=1e6)
    logK = [_log(k) for k in Kin]
    xVlogK = _arr(w, xin + [Vin] + logK)
    x0 = list(xVlogK)
    z = _arr(w, zs); pp = _arr(w, pPoP)

    def f_gamma(x, T_, *args):
        return _arr(w, [w.fn(f'gamma{i}', positive=True)(*x, T_) for i in range(n)])

    def f_phi(y, T_, P_):
        return _arr(w, [w.fn(f'phi{i}', positive=True)(*y, T_, P_) for i in range(n)])

    rr_calls = []
    saved = binary_mod.solve_phase_fraction_Rashford_Rice

    def rr_stub(z_, Ks_, guess, za_=0., zb_=0.):
        V = w.real(f'V_rr{len(rr_calls)}', lo=0., hi=1.)
        rr_calls.append((list(z_), list(Ks_), guess, za_, zb_, V))
        return V

    try:
        if cfg['fn'] == '2n':
            out = vle_mod.xVlogK_iter_2n(xVlogK, pp, T, P, z, f_gamma, (), f_phi, n, None, None)
        else:
            binary_mod.solve_phase_fraction_Rashford_Rice = rr_stub
            try:
                out = vle_mod.xVlogK_iter(xVlogK, pp, T, P, z, za, zb, f_gamma, (), f_phi, n, None, None)
            finally:
                binary_mod.solve_phase_fraction_Rashford_Rice = saved
    except (ZeroDivisionError, FloatingPointError):      # K_i exactly 1 in the closed form: no result
        return
    # independent evaluation of the statement
    sx = w.total(xin)
    xt = [x / sx for x in xin]
    sy = w.total([a * k for a, k in zip(xt, Kin)])
    yt = [a * k / sy for a, k in zip(xt, Kin)]
    gam = f_gamma(_arr(w, xt), T)
    ph = f_phi(_arr(w, yt), T, P)
    Kp = [pPoP[i] * gam[i] / ph[i] for i in range(n)]
    _skip_if_rounding_dominates(w, list(gam) + list(ph) + Kp + [k - 1. for k in Kp], lo=1e-6, hi=1e6)
    # the floor at 1e-16 is a case split of the code on Kp < 1e-16; the contract follows the same split
    Kout = [(1e-16 if Kp[i] < 1e-16 else Kp[i]) for i in range(n)]
    Vout = out[n]
    xout = [out[i] for i in range(n)]
    for i in range(n):
        w.ensure(f'ln K[{i}] = ln(pcf Psat gamma(x) / (phi(y) P)), K floored at 1e-16', w.eq(out[n + 1 + i], _log(Kout[i])))
        w.ensure(f'x[{i}] = z / (1 + V (K - 1)) with the new V and K', w.eq(xout[i], zs[i] / (1. + Vout * (Kout[i] - 1.))))
    if cfg['fn'] == '2n':
        w.ensure('new V is a root of the Rachford-Rice equation posed with the new K (K_1 != K_2, else there is no isolated root)',
                 w.Implies(w.ne(Kout[0], Kout[1]),
                           _zero_sum(w, [zs[i] * (Kout[i] - 1.) / (1. + Vout * (Kout[i] - 1.)) for i in range(n)])))
    else:
        w.ensure('the Rachford-Rice solver is called exactly once', len(rr_calls) == 1)
        if len(rr_calls) == 1:
            z_, Ks_, guess, za_, zb_, Vrr = rr_calls[0]
            clipped = w.Or(w.And(w.lt(Vin, 0.), w.eq(guess, 0.)), w.And(w.gt(Vin, 1.), w.eq(guess, 1.)),
                           w.And(w.ge(Vin, 0.), w.le(Vin, 1.), w.eq(guess, Vin)))
            w.ensure('Rachford-Rice problem posed with the feed z, the new K, the clipped previous V and the light / heavy fractions',
                     w.And(w.all_eq(z_, zs), w.all_eq(Ks_, Kout), clipped, w.eq(za_, za), w.eq(zb_, zb), w.eq(Vout, Vrr)))
    fixed = w.And(w.all_eq(xout, xin), w.eq(Vout, Vin), w.all_eq(Kout, Kin), *[w.ge(k, 1e-16) for k in Kp])
    if cfg['fn'] == '2n':
        # fugacities (divided by P) with the normalised compositions the coefficients were evaluated at
        iso = w.And(*[w.eq(xt[i] * gam[i] * pPoP[i], yt[i] * ph[i]) for i in range(n)])
    else:
        # true mole fractions: x_i in the liquid (which also holds the heavy fraction), y_i = K_i x_i in the vapour
        iso = w.And(*[w.eq(xin[i] * gam[i] * pPoP[i], Kin[i] * xin[i] * ph[i]) for i in range(n)])
    w.ensure('a fixed point of the iteration is an iso-fugacity state: x_i gamma_i pcf_i Psat_i = y_i phi_i P', w.Implies(fixed, iso))
    w.ensure('frame: the previous iterate, z and pcf*Psat/P are not written to',
             w.And(w.all_eq(list(xVlogK), x0), w.all_eq(list(z), zs), w.all_eq(list(pp), pPoP)))
    w.canary('canary: K is left unchanged by the step', w.all_eq(Kout, Kin))


# =========================================================================== S: set_PH / set_PS reproduce the specified H / S

def corr_configs(var):
    def configs(tier):
        fam = [('W', {'W': '++'}, 0, 'interior')]
        if var == 'H' or tier == 'thorough':
            fam += [('WE', {'W': '03', 'E': '50'}, 0, 'interior')]          # concrete feed amounts: linear arithmetic, cheap
        if tier == 'thorough':
            fam += [('WE', {'W': '0+', 'E': '+0'}, 0, 'interior'), ('WE', {'W': '0+', 'E': '+0'}, 1, 'interior'),
                    ('WEN', {'W': '0+', 'E': '0+', 'N': '+0'}, 0, 'interior')]
            if var == 'H':      # (the S variant of this configuration alone takes ~8 min: twice the paths, entropy terms in every branch query)
                fam += [('WEX', {'W': '+0', 'E': '0+', 'X': '0+'}, 0, 'interior')]
            fam += [
                    ('WEM', {'W': '03', 'E': '50', 'M': '22'}, 1, 'interior'),
                    ('WENX', {'W': '03', 'E': '50', 'N': '10', 'X': '01'}, 1, 'interior')]
        return [{'name': f'{keys}/{_dist_name(d, keys)}/k={k}/v={v}', 'pkg': keys, 'dist': d, 'k': k, 'v': v} for keys, d, k, v in fam]
    return configs


def corr_body(var):
    def body(w, cfg):
        """
        P and H (S) specified.  ensures: the enthalpy (entropy) of the resulting stream, i.e. mixture.xH (xS) of the final
        flows at the final T and the specified P, equals the specification; the flows of every volatile chemical stay in
        range and add up to what they were.  Pure-component H/S models are uninterpreted functions of (T, P) combined by the
        REAL mixing rule (linear in the flows); the temperature solvers obey A-root.
        """
        from thermosteam.mixture import ideal_mixture_model as imm
        W.reset_caches()
        _branch_timeout(w, 400)
        env = Env(w, cfg)
        keys = cfg['pkg']
        try:
            install_vle_stubs(env, solve_v='contract', interior_v=cfg['v'] == 'interior')
            IDs = tuple(chem(k).ID for k in keys)
            th = W.stub_thermo(w, IDs)
            if var == 'S':     # A-linear-S: the correction step treats S as linear in the flows (no entropy of mixing)
                th.mixture._S = imm.IdealTPMixtureModel(th.mixture._S.models, 'S')
            T0 = w.real('T0', lo=0., lo_strict=True)
            P0 = w.real('P0', lo=0., lo_strict=True)
            s, before = multistream(w, 'f', th, cfg['dist'], keys, T=T0, P=P0)
            P = w.real('spec.P', lo=0., lo_strict=True)
            X = w.real(f'spec.{var}')
            tot = totals(before, IDs)
            try:
                s.vle(P=P, **{var: X})
            except NOT_NORMAL as e:
                w.note(outcome=type(e).__name__)
                return
            mix = th.mixture
            got = (mix.xH if var == 'H' else mix.xS)(s._imol, s.T, s.P)
            if w.symbolic:
                reproduced = w.eq(got, X)
            else:
                # float cross-check of a path model: equality up to rounding relative to the size of the summed terms n_i * h_i
                models = (mix._H if var == 'H' else mix._S).models
                scale = sum(abs(v) * abs(models[i](ph, s.T, s.P)) for ph, sv in W.rows_of(s) for i, v in sv.dct.items())
                reproduced = abs(got - X) <= 1e-7 * max(scale, abs(X)) + 1e-9
            w.ensure(f'{var} of the resulting stream = specified {var}', reproduced)
            w.ensure('P after the flash = specified P', w.eq(s.P, P))
            now = flows_now(s)
            for ID in IDs:
                w.ensure(f'flows of {ID} stay in range and add up to the feed',
                         w.And(w.ge(now['g', ID], 0.), w.ge(now['l', ID], 0.), w.eq(now['g', ID] + now['l', ID], tot[ID])))
            w.canary(f'canary: T after the flash = T before', w.eq(s.T, T0))
            w.note(calls=dict(env.calls), T=s.T, roots=[k for k, _ in mix.roots])
        finally:
            env.restore()
    body.__name__ = f'P{var}_correction'
    return body


_A_CORR = ['A-bubble/dew: solve_Ty / solve_Tx return T > 0 and a composition >= 0 summing to 1',
           'A-iter: flx.IQ_interpolation only evaluates its callback (k times, arbitrary positive arguments)',
           'A-solve_v: VLE._solve_v returns 0 <= v <= mol_vle and sets _v, _T (its contract, discharged in C03/solve_v_clip)',
           'A-models: pure-component H, S, Cn are uninterpreted deterministic functions of (T, P); the mixing rule is the real one',
           'A-root: xsolve_T_at_HP / xsolve_T_at_SP return T* with xH(T*) = H (xS(T*) = S)']
group('C04/PH_correction', configs=corr_configs('H'), l0=True,
      functions=[_VLE + f for f in ('__call__', 'set_PH', '_set_PH_chemical', '_H_hat_err_at_T', '_setup')] + ['thermosteam.mixture.mixture:Mixture.xH'],
      assumptions=_A_CORR)(corr_body('H'))
group('C04/PS_correction', configs=corr_configs('S'), l0=True,
      functions=[_VLE + f for f in ('__call__', 'set_PS', '_set_PS_chemical', '_S_hat_err_at_T', '_setup')] + ['thermosteam.mixture.mixture:Mixture.xS'],
      assumptions=_A_CORR + ['A-linear-S: in the correction step the entropy model is linear in the flows (the entropy of mixing of the real '
                             'IdealEntropyModel is covered by the bounded group C04/B_HS only)'])(corr_body('S'))


# =========================================================================== S (relational): scaling the feed scales the products

class Tape:
    """Solver calls of the first run (name, intensive inputs, outputs); the second run must make the same calls with equal
    inputs and is handed the same outputs (a deterministic function gives equal results on equal arguments)."""

    def __init__(self):
        self.items = []
        self.pos = 0
        self.replaying = False
        self.mismatch = []
        self.conds = []


def _numeric(xs):
    out = []
    for a in xs:
        if a is None or callable(a) or isinstance(a, (int, str, bool)) and not isinstance(a, float):
            continue
        if isinstance(a, (tuple, list, np.ndarray)):
            out.extend(_numeric(list(a)))
        else:
            out.append(a)
    return out


def install_scaling_stubs(env, tape):
    """
    Assumed contracts, as deterministic functions of their (intensive) arguments:
      bubble / dew point solvers (composition, T or P) -> (P or T, composition); Psat_i(T); the fixed-point driver flx.aitken
      (pcf*Psat/P, T, P, z, z_light, z_heavy, initial x and V) -> (x, V, ln K) with x, K > 0 and 0 <= V <= 1; the initial K
      guess of _refresh_K (V); flx.IQ_interpolation (bracket, tolerances) -> root, evaluating its callback k times.
    """
    w = env.w

    def rec(name, inputs, make):
        inputs = _numeric(inputs)
        if not tape.replaying:
            out = make()
            tape.items.append((name, inputs, out))
            return out
        if tape.pos >= len(tape.items) or tape.items[tape.pos][0] != name or len(tape.items[tape.pos][1]) != len(inputs):
            tape.mismatch.append(name)
            return make()
        nm, inp, out = tape.items[tape.pos]
        tape.pos += 1
        tape.conds.append((name, w.all_eq(inputs, inp)))
        return out

    class _Gamma:
        f = None
        args = ()

    class StubPoint:
        def __init__(self, chemicals=(), thermo=None):
            self.chemicals = tuple(chemicals)
            self.IDs = tuple(c.ID for c in self.chemicals)
            n = self.n = len(self.chemicals)
            self.Psats = [(lambda T, i=i: rec(f'Psat{i}', [T], lambda: env.pos('Psat'))) for i in range(n)]
            self.pcf = lambda T, P, Psats: 1.0
            self.gamma = _Gamma()
            self.phi = None
            self.Tmin, self.Tmax, self.Pmin, self.Pmax = rec('point', [], lambda: [env.pos('Tmin'), env.pos('Tmax'), env.pos('Pmin'), env.pos('Pmax')])

        def _solve(self, name, z, X, tag):
            out = rec(name, list(z) + [X], lambda: [env.pos(tag)] + list(env.simplex(tag + '.c', self.n)))
            return out[0], env.arr(out[1:])

    class StubBubblePoint(StubPoint):
        def solve_Py(self, z, T, liquid_conversion=None): return self._solve('solve_Py', z, T, 'P_bubble')
        def solve_Ty(self, z, P, liquid_conversion=None): return self._solve('solve_Ty', z, P, 'T_bubble')

    class StubDewPoint(StubPoint):
        def solve_Px(self, z, T, gas_conversion=None): return self._solve('solve_Px', z, T, 'P_dew')
        def solve_Tx(self, z, P, gas_conversion=None): return self._solve('solve_Tx', z, P, 'T_dew')

    class StubFlx:
        @staticmethod
        def aitken(f, x0, xtol=None, args=(), **kw):
            n = (len(x0) - 1) // 2
            inputs = list(x0[:n + 1]) + list(args)

            def make():
                return [env.pos(f'x{i}') for i in range(n)] + [env.unit('V')] + [env.pos(f'K{i}') for i in range(n)]
            out = rec('aitken', inputs, make)
            return env.arr(out[:n + 1] + [_log(K) for K in out[n + 1:]])

        @staticmethod
        def IQ_interpolation(f, x0, x1, y0=None, y1=None, x=None, xtol=0., ytol=5e-8, args=(), **kw):
            rs = rec('IQ', [x0, x1, y0, y1, xtol, ytol], lambda: [env.pos('iq_x') for _ in range(env.k + 1)])
            for r in rs[:-1]:
                f(r, *args)
            if env.k:
                return rs[-2]          # the solver returns the last point it evaluated (the flows belong to it)
            return rs[-1]

        def __getattr__(self, name):
            raise AssertionError(f'unexpected flexsolve call in vle.py: {name}')

    def refresh_K(self, V, y_bubble, x_dew, dz_bubble=None, dz_dew=None):
        n = len(self._index)
        self._V = V
        lo = 1e-16 if env.cfg.get('kguess', 'floor') == 'floor' else 0.     # 'floor': the guess needs no flooring at 1e-16 (fewer paths)
        self._K = env.arr(rec('refresh_K', [V], lambda: [env.leaf(f'Kguess{i}', lo=lo, lo_strict=True) for i in range(n)]))

    env.patch(vle_mod, 'BubblePoint', StubBubblePoint)
    env.patch(vle_mod, 'DewPoint', StubDewPoint)
    env.patch(vle_mod, 'flx', StubFlx())
    env.patch(vle_mod.VLE, '_refresh_K', refresh_K)


def scaling_configs(tier):
    # (V,P) and (V,T) were tried: 388 paths and ~40 min for one two-chemical configuration (every callback evaluation forks on the
    # zero tests of the flow write-back), so the relational proof covers the (T,P) specification; V/H specifications: C04/B_scaling.
    fam = [('TP', 'WE', {'W': '0+', 'E': '+0'}, 0, 'floor'), ('TP', 'WEN', {'W': '0+', 'E': '0+', 'N': '+0'}, 0, 'floor'),
           ('TP', 'WX', {'W': '0+', 'X': '0+'}, 0, 'floor')]
    if tier == 'thorough':
        fam += [('TP', 'WE', {'W': '0+', 'E': '+0'}, 0, 'any'), ('TP', 'WEX', {'W': '0+', 'E': '+0', 'X': '0+'}, 0, 'floor'),
                ('TP', 'WENX', {'W': '0+', 'E': '+0', 'N': '+0', 'X': '0+'}, 0, 'floor'),
                ('TP', 'W', {'W': '++'}, 0, 'floor'), ('TP', 'WN', {'W': '0+', 'N': '+0'}, 0, 'floor')]
    return [{'name': f'{spec}/{keys}/{_dist_name(d, keys)}/k={k}/Kguess={g}', 'spec': spec, 'pkg': keys, 'dist': d, 'k': k, 'kguess': g}
            for spec, keys, d, k, g in fam]


@group('C04/scaling', configs=scaling_configs,
       functions=[_VLE + f for f in ('__call__', '_setup', 'set_thermal_condition', 'set_TV', 'set_PV', '_V_err_at_P', '_V_err_at_T',
                                     '_solve_v', '_solve_v_fixed_point')] + ['thermosteam.equilibrium.vle:set_flows', 'thermosteam.equilibrium.vle:xy'],
       assumptions=['A-deterministic: bubble/dew solvers, Psat, the fixed-point driver flx.aitken, the initial K guess and flx.IQ_interpolation '
                    'are deterministic functions of their intensive arguments (the equality of these arguments in the two runs is itself an obligation)'])
def scaling(w, cfg):
    """
    Two runs of the real flash, feed m and feed k*m (k > 0), same specification.  ensures: every product flow of the second run
    is k times that of the first, T and P agree, the second run makes the same solver calls with equal intensive arguments.
    """
    W.reset_caches()
    env = Env(w, cfg)
    keys = cfg['pkg']
    tape = Tape()
    try:
        install_scaling_stubs(env, tape)
        th = havoc_thermo(env, keys)
        T0 = w.real('T0', lo=0., lo_strict=True)
        P0 = w.real('P0', lo=0., lo_strict=True)
        a, m = multistream(w, 'a', th, cfg['dist'], keys, T=T0, P=P0)
        kw = spec_kwargs(env, cfg['spec'])
        if 'V' in kw:
            w.assume(w.And(w.gt(kw['V'], 0.), w.lt(kw['V'], 1.)))
        k = w.real('k', lo=0., lo_strict=True)
        b = tmo.MultiStream(None, phases=('g', 'l'), thermo=th)
        b.T = T0; b.P = P0
        IDs = a.chemicals.IDs
        for (ph, ID), v in m.items():
            if not (isinstance(v, float) and v == 0.):
                dict(W.rows_of(b))[ph].dct[IDs.index(ID)] = k * v
        outcome = []
        for s in (a, b):
            try:
                s.vle(**kw)
                outcome.append('returns')
            except NOT_NORMAL as e:
                outcome.append(type(e).__name__)
            tape.replaying = True
        w.ensure('both runs end the same way', outcome[0] == outcome[1])
        w.ensure('the scaled run makes the same sequence of solver calls', not tape.mismatch and tape.pos == len(tape.items),
                 mismatch=tape.mismatch, calls=[i[0] for i in tape.items])
        seen = set()
        for name, cond in tape.conds:
            n = sum(1 for s_ in seen if s_.startswith(name + '#'))
            seen.add(f'{name}#{n}')
            w.ensure(f'intensive arguments of solver call {name}#{n} are unchanged by scaling', cond)
        if outcome[0] != 'returns':
            return
        fa = flows_now(a); fb = flows_now(b)
        for key in sorted(fa):
            w.ensure(f'product flow{list(key)} of the scaled feed = k * product flow of the feed', w.eq(fb[key], k * fa[key]))
        w.ensure('T and P of the two results agree', w.And(w.eq(a.T, b.T), w.eq(a.P, b.P)))
        k0 = chem(keys[0]).ID
        w.canary('canary: scaling the feed leaves the product flows unchanged', w.And(w.eq(fb['g', k0], fa['g', k0]), w.eq(fb['l', k0], fa['l', k0])))
        w.note(calls=[i[0] for i in tape.items])
    finally:
        env.restore()


# =========================================================================== mode B: the real solvers on real property data
#
# Bounded stand-in (never counted as proved).  Input family (deterministic grids, quantifier of the property):
#   near-ideal families  ALC = C1-C4 alcohols, HC = hexane/heptane/octane/benzene/toluene; every subset of 2, 3 and all
#   members; compositions with every mole fraction >= 0.02; T 280-450 K, P 2e4-1e6 Pa, V in (0.02, 0.98);
#   H/S between the all-liquid and all-vapour values; single chemicals; optional small amounts of non-condensable gas (N2)
#   and of a non-volatile solute (glucose); ideal package: any volatile chemicals incl. water with organics.
# Tolerances = the solver's stated resolutions (VLE.T_tol 5e-8 K, P_tol 1 Pa, V_tol 1e-6, K_tol 1e-6) with the slack noted.

ALC = ('Methanol', 'Ethanol', 'Propanol', 'Butanol')
HC = ('Hexane', 'Heptane', 'Octane', 'Benzene', 'Toluene')
IDEAL_SETS = (('Water', 'Ethanol'), ('Water', 'Methanol', 'Octane'), ('Water', 'Ethanol', 'Propanol', 'Hexane', 'Toluene'),
              ('Ethanol', 'Benzene'), ('Water', 'Butanol', 'Heptane'))
_b_chem = {}
_b_thermo = {}

H_REL_TOL = 1e-6          # "reproduced": |H - H_spec| <= 1e-6 * max(|H_spec|, H_all-vapour - H_all-liquid); same for S
V_TOL = 2e-6              # 2 x VLE.V_tol
T_RES = 1e-7              # 2 x VLE.T_tol [K]
P_RES = 1.0               # VLE.P_tol [Pa]
FUG_REL_TOL = 1e-5        # iso-fugacity: |f_l / f_g - 1| (10 x VLE.K_tol)
RAOULT_TOL = 1e-6         # ideal package vs independent Rachford-Rice: |v_i - v_i_ref| / F
SCALE_TOL = 1e-7          # |product(k feed) / k - product(feed)| / F


def b_chem(ID):
    c = _b_chem.get(ID)
    if c is None:
        if ID == 'N2':
            c = tmo.Chemical('N2', phase='g')
        elif ID == 'Glucose':
            c = tmo.Chemical('Glucose', phase='l')
            c.N_solutes = 1
        else:
            c = tmo.Chemical(ID)
        _b_chem[ID] = c
    return c


def b_thermo(IDs, ideal=False):
    key = (tuple(IDs), ideal)
    t = _b_thermo.get(key)
    if t is None:
        if ideal:
            t = b_thermo(IDs).ideal()
        else:
            cs = tmo.Chemicals([b_chem(i) for i in IDs])
            cs.compile()
            t = tmo.Thermo(cs)
        _b_thermo[key] = t
    return t


for _ID in ALC + HC + ('Water', 'N2', 'Glucose'):
    b_chem(_ID)          # created before forking: the worker processes share them


def b_mixtures(tier):
    out = []
    for fam in (ALC, HC):
        sizes = sorted({2, 3, len(fam)})
        for n in sizes:
            for sub in itertools.combinations(fam, n):
                out.append(sub)
    if tier == 'quick':     # every pair of neighbours + the wide-boiling pairs + one ternary per family + both full families
        keep = {('Methanol', 'Ethanol'), ('Ethanol', 'Propanol'), ('Methanol', 'Butanol'), ('Methanol', 'Ethanol', 'Propanol'), ALC,
                ('Hexane', 'Heptane'), ('Hexane', 'Benzene'), ('Octane', 'Benzene'), ('Benzene', 'Toluene'), ('Hexane', 'Octane', 'Toluene'), HC}
        out = [m for m in out if m in keep]
    return out


def b_compositions(n, tier):
    """Deterministic compositions with every mole fraction >= 0.02."""
    out = [[1. / n] * n]
    for i in range(n):
        z = [0.02] * n; z[i] = 1. - 0.02 * (n - 1); out.append(z)          # corners of the admissible simplex
    for i in range(n):
        z = [0.5 / (n - 1)] * n; z[i] = 0.5; out.append(z)
    if tier == 'quick':
        out = [out[0], out[1], out[n], out[n + 1]] if n > 2 else out[:3]
    seen = []
    for z in out:
        if z not in seen: seen.append(z)
    return seen


def b_stream(IDs, z, F=100., phase='l', ideal=False, extras=None, T=298.15, P=101325.):
    th = b_thermo(tuple(IDs) + tuple(e for e in (extras or {})), ideal)
    flows = {phase: [(i, F * x) for i, x in zip(IDs, z)]}
    s = tmo.MultiStream(None, T=T, P=P, thermo=th, **flows)
    for ID, frac in (extras or {}).items():
        s.imol['g' if ID == 'N2' else 'l', ID] = F * frac
    return s


_warmed = False


def b_warm():
    """
    Once per worker process: compile the numba kernels of the flash (both activity models, 2 and N chemicals, every
    specification pair).  numba's on-disk cache index in /repo/.../__pycache__ is shared with concurrently running checks and
    saving to it can fail with `ReferenceError: underlying object has vanished` on the first compilation in a process; the
    compiled kernel is kept in memory, so the call is simply repeated (environment, not behaviour of the code under check).
    """
    global _warmed
    if _warmed:
        return
    _warmed = True
    for ideal in (False, True):
        for IDs, z in ((('Methanol', 'Ethanol', 'Propanol'), [0.3, 0.3, 0.4]), (('Methanol', 'Ethanol'), [0.5, 0.5])):
            for attempt in range(6):
                try:
                    s = b_stream(IDs, z, ideal=ideal)
                    s.vle(T=350., P=101325.); s.vle(V=0.5, P=101325.); s.vle(V=0.5, T=350.)
                    H = s.H; S = s.S
                    s.vle(H=H, P=101325.); s.vle(S=S, P=101325.); s.vle(H=H, T=s.T); s.vle(S=S, T=s.T)
                    break
                except ReferenceError:
                    continue
                except Exception:
                    break


def flash(s, **kw):
    try:
        s.vle(**kw)
    except ReferenceError:      # see b_warm
        s.vle(**kw)


def ref_bubble_dew_P(IDs, z, T):
    """
    Independent reference (written here, numpy only): modified Raoult's law with the package's activity coefficients,
    ideal vapour, no Poynting correction:  P_bubble = sum z_i gamma_i(z) Psat_i ;  P_dew = 1 / sum z_i / (gamma_i(x) Psat_i)
    with x_i = z_i P_dew / (gamma_i(x) Psat_i) iterated to a fixed point.
    """
    th = b_thermo(IDs)
    chems = [b_chem(i) for i in IDs]
    gamma = th.Gamma(chems)
    Psat = np.array([c.Psat(T) for c in chems])
    z = np.asarray(z, float)
    Pb = float((z * gamma(z, T) * Psat).sum())
    x = z.copy()
    Pd = None
    for _ in range(200):
        g = gamma(x, T)
        Pd_new = 1. / (z / (g * Psat)).sum()
        x_new = z * Pd_new / (g * Psat)
        x_new = x_new / x_new.sum()
        if Pd is not None and abs(Pd_new - Pd) <= 1e-13 * Pd_new and np.abs(x_new - x).max() < 1e-14:
            Pd = Pd_new; break
        Pd = Pd_new
        x = 0.5 * x + 0.5 * x_new
    return Pb, float(Pd)


def fugacity_mismatch(s, IDs):
    """max_i |f_i,liquid / f_i,vapour - 1| at the result (LiquidFugacities / GasFugacities of the package)."""
    chems = [b_chem(i) for i in IDs]
    l = s.imol['l', IDs]; g = s.imol['g', IDs]
    x = l / s.imol['l'].sum(); y = g / s.imol['g'].sum()      # true mole fractions of each phase
    fl = eq.LiquidFugacities(chems, s.thermo)(x / x.sum(), s.T, s.P) * x.sum()
    fg = eq.GasFugacities(chems, s.thermo)(y / y.sum(), s.T, s.P) * y.sum()
    return float(np.abs(fl / fg - 1.).max())


def totals_of(s):
    """Total molar flow of every chemical over both phases (dense array)."""
    return np.asarray(s.imol['l'].to_array()) + np.asarray(s.imol['g'].to_array())


T_GRID_QUICK = (300., 350., 400.)
T_GRID_THOROUGH = (285., 300., 325., 350., 375., 400., 425., 445.)
THETAS = (0.05, 0.3, 0.6, 0.95)


def b_extras_configs(tier):
    """Mixtures with small amounts of non-condensable gas and / or non-volatile solute (T, P specified: equilibrium of the volatile part)."""
    out = []
    ex = [({'N2': 0.01}, 'N2'), ({'Glucose': 0.01}, 'Glucose'), ({'N2': 0.005, 'Glucose': 0.01}, 'N2+Glucose')]
    mixes = [('Methanol', 'Ethanol'), ('Hexane', 'Octane', 'Toluene')] if tier == 'quick' else [('Methanol', 'Ethanol'), ALC, ('Hexane', 'Octane', 'Toluene'), HC]
    for IDs in mixes:
        for extras, nm in ex:
            for T in (320., 380.) if tier == 'quick' else (300., 340., 380., 420.):
                n = len(IDs)
                out.append({'name': f"{'+'.join(IDs)}+{nm};z0;T={T:g}", 'IDs': list(IDs), 'z': [1. / n] * n, 'T': T, 'extras': extras})
    return out


def b_base_configs(tier):
    out = []
    for IDs in b_mixtures(tier):
        for ci, z in enumerate(b_compositions(len(IDs), tier)):
            for T in (T_GRID_QUICK if tier == 'quick' else T_GRID_THOROUGH):
                out.append({'name': f"{'+'.join(IDs)};z{ci};T={T:g}", 'IDs': list(IDs), 'z': z, 'T': T})
    return out


# --------------------------------------------------------------------------- B: T, P specified — phase boundary and iso-fugacity

@group('C04/B_TP', configs=lambda tier: b_base_configs(tier) + b_extras_configs(tier), mode='B',
       functions=[_VLE + '__call__', _VLE + 'set_thermal_condition', _VLE + '_solve_v', _VLE + '_solve_v_fixed_point',
                  'thermosteam.equilibrium.vle:xVlogK_iter', 'thermosteam.equilibrium.vle:xVlogK_iter_2n'],
       notes='real solvers; near-ideal families (C1-C4 alcohols; hexane/heptane/octane/benzene/toluene), subsets of 2, 3, all; '
             'compositions with x_i >= 0.02; T grid 285-445 K; P at 0.5 P_dew, P_dew(1 -+ 1e-4), P_dew + theta (P_bubble - P_dew) for '
             'theta in {0.05, 0.3, 0.6, 0.95}, P_bubble (1 +- 1e-4), 2 P_bubble, kept when 2e4 <= P <= 1e6; bubble/dew reference = '
             'independent modified-Raoult computation in the contract; iso-fugacity |f_l/f_g - 1| <= 1e-5; plus equimolar mixtures with 0.5-1 % N2 '
             'and / or 1 % glucose (only T, P, conservation and iso-fugacity of the volatile chemicals with the true mole fractions of each phase)')
def B_TP(w, cfg):
    b_warm()
    IDs = cfg['IDs']; z = np.array(cfg['z']); T = cfg['T']; extras = cfg.get('extras') or {}
    Pb, Pd = ref_bubble_dew_P(IDs, z, T)
    w.ensure('reference: dew pressure <= bubble pressure', Pd <= Pb * (1 + 1e-12), Pb=Pb, Pd=Pd)
    pts = [('0.5*dew', 0.5 * Pd), ('dew-1e-4', Pd * (1 - 1e-4))] + [(f'dew+{t:g}*span', Pd + t * (Pb - Pd)) for t in THETAS] \
        + [('bubble+1e-4', Pb * (1 + 1e-4)), ('2*bubble', 2 * Pb)]
    if extras:
        pts = pts[2:6]      # the boundary sentences are stated for mixtures without non-partitioning chemicals
    reuse = None
    n_run = 0
    for label, P in pts:
        if not 2e4 <= P <= 1e6:
            continue
        # alternate between a fresh all-liquid feed, a fresh all-vapour feed and re-using the previous result (history of the VLE object)
        mode = ('liquid', 'vapour', 'reuse')[n_run % 3]
        n_run += 1
        if mode == 'reuse' and reuse is not None:
            s = reuse
        else:
            s = b_stream(IDs, z, phase='g' if mode == 'vapour' else 'l', extras=extras)
        before = totals_of(s)
        try:
            flash(s, T=T, P=P)
        except NOT_NORMAL as e:
            w.note(**{f'skipped {label}': repr(e)})
            continue
        reuse = s
        tag = f'P={label}: '
        w.ensure(tag + 'T, P after the flash = specified T, P', s.T == T and s.P == P, T=s.T, P=s.P)
        w.ensure(tag + 'frame: total of every chemical unchanged', bool(np.allclose(totals_of(s), before, rtol=1e-12, atol=0.)))
        V = s.vapor_fraction
        if label in ('bubble+1e-4', '2*bubble'):
            w.ensure(tag + 'at or above the bubble pressure: all liquid', V == 0., V=V, P=P, P_bubble=Pb)
        elif label in ('0.5*dew', 'dew-1e-4'):
            w.ensure(tag + 'at or below the dew pressure: all vapour', V == 1., V=V, P=P, P_dew=Pd)
        else:
            if extras:
                two = bool(s.imol['l', IDs].sum() > 0. and s.imol['g', IDs].sum() > 0.)
            else:
                two = 0. < V < 1.
                w.ensure(tag + 'between dew and bubble pressure: two phases', two, V=V, P=P, P_dew=Pd, P_bubble=Pb)
            # with a solute that counts in the liquid mole fractions the statement makes no iso-fugacity claim (and the flows written by
            # the flash are then off by 1/(1 - x_solute): .scratch/C04/observation_heavy_solute_isofugacity.py)
            if two and 'Glucose' not in extras:
                mis = fugacity_mismatch(s, IDs)
                w.ensure(tag + 'liquid and vapour fugacities of every chemical agree', mis <= FUG_REL_TOL, mismatch=mis, V=V)
    w.note(P_bubble=Pb, P_dew=Pd)


# --------------------------------------------------------------------------- B: vapour fraction specified

def b_single_configs(tier):
    Ts = (300., 350., 400.) if tier == 'quick' else (285., 300., 325., 350., 375., 400., 425.)
    out = []
    for ID in ('Water', 'Ethanol', 'Hexane') if tier == 'quick' else ('Water',) + ALC + HC:
        for T in Ts:
            out.append({'name': f'{ID};z0;T={T:g}', 'IDs': [ID], 'z': [1.0], 'T': T})
    return out


def b_V_configs(tier):
    return b_base_configs(tier) + b_single_configs(tier)


@group('C04/B_V', configs=b_V_configs, mode='B',
       functions=[_VLE + f for f in ('__call__', 'set_PV', 'set_TV', '_set_PV_chemical', '_set_TV_chemical', '_V_err_at_T', '_V_err_at_P')],
       notes='real solvers; same mixtures / compositions / T grid as C04/B_TP plus single chemicals; the reference point is the T,P flash at '
             'P = P_dew + theta (P_bubble - P_dew), theta in {0.05, 0.3, 0.6, 0.95}, kept when 2e4 <= P <= 1e6 and 0.02 < V < 0.98; then '
             'V,P and V,T are specified: |V_result - V| <= 2e-6 (2 V_tol) or T within 1e-7 K (2 T_tol) / P within 1 Pa (P_tol) of the reference')
def B_V(w, cfg):
    b_warm()
    IDs = cfg['IDs']; z = np.array(cfg['z']); T = cfg['T']
    single = len(IDs) == 1
    if single:
        Psat = b_chem(IDs[0]).Psat(T)
        pts = [(f'V={V:g}', Psat, V) for V in (0.05, 0.5, 0.95)] if 2e4 <= Psat <= 1e6 else []
    else:
        Pb, Pd = ref_bubble_dew_P(IDs, z, T)
        pts = []
        for t in THETAS:
            P = Pd + t * (Pb - Pd)
            if not 2e4 <= P <= 1e6: continue
            r = b_stream(IDs, z)
            try:
                flash(r, T=T, P=P)
            except NOT_NORMAL:
                continue
            V = r.vapor_fraction
            if 0.02 < V < 0.98:
                pts.append((f'theta={t:g}', P, V))
    for n, (label, P, V) in enumerate(pts):
        for spec in ('PV', 'TV'):
            s = b_stream(IDs, z, phase='lg'[n % 2])
            kw = {'V': V, 'P': P} if spec == 'PV' else {'V': V, 'T': T}
            try:
                flash(s, **kw)
            except NOT_NORMAL as e:
                w.note(**{f'skipped {spec} {label}': repr(e)})
                continue
            tag = f'{spec} {label}: '
            if spec == 'PV':
                w.ensure(tag + 'P after the flash = specified P', s.P == P, P=s.P, spec=P)
                near = abs(s.T - T) <= T_RES
            else:
                w.ensure(tag + 'T after the flash = specified T', s.T == T, T=s.T, spec=T)
                near = abs(s.P - P) <= P_RES
            Vr = s.vapor_fraction
            w.ensure(tag + 'specified vapour fraction met (within V_tol, or T / P within the solver resolution of the point where it is)',
                     abs(Vr - V) <= V_TOL or near, V_result=Vr, V=V, T=s.T, P=s.P, T_ref=T, P_ref=P)
            if not single and 0. < Vr < 1.:
                mis = fugacity_mismatch(s, IDs)
                w.ensure(tag + 'the result is an equilibrium state: liquid and vapour fugacities agree', mis <= FUG_REL_TOL, mismatch=mis)
            if single:
                w.ensure(tag + 'single chemical: the other variable is the saturation value',
                         abs(s.T - T) <= 1e-6 * T and abs(s.P - P) <= 1e-6 * P, T=s.T, P=s.P, T_ref=T, Psat=P)


# --------------------------------------------------------------------------- B: enthalpy / entropy specified

def b_HS_configs(tier):
    out = []
    base = b_base_configs(tier)
    if tier == 'quick':
        base = [c for c in base if c['T'] in (300., 400.)]
    for c in base + b_single_configs(tier):
        out.append(dict(c, extras={}))
    # small amounts of non-condensable gas and / or non-volatile solute
    ex = [({'N2': 0.01}, 'N2'), ({'Glucose': 0.01}, 'Glucose'), ({'N2': 0.005, 'Glucose': 0.01}, 'N2+Glucose')]
    mixes = [('Methanol', 'Ethanol'), ('Hexane', 'Octane', 'Toluene'), ('Water',)] if tier == 'quick' else \
        [('Methanol', 'Ethanol'), ALC, ('Hexane', 'Octane', 'Toluene'), HC, ('Water',), ('Ethanol',)]
    for IDs in mixes:
        for extras, nm in ex:
            for T in (320., 380.) if tier == 'quick' else (300., 340., 380., 420.):
                n = len(IDs)
                out.append({'name': f"{'+'.join(IDs)}+{nm};z0;T={T:g}", 'IDs': list(IDs), 'z': [1. / n] * n, 'T': T, 'extras': extras})
    return out


def _bracket(IDs, z, extras, fixed, value, var):
    """All-liquid and all-vapour values of H or S at fixed P (or T): the boundaries of the two-phase range of the specification."""
    vals = []
    for V in (0., 1.):
        s = b_stream(IDs, z, extras=extras)
        flash(s, **{'V': V, fixed: value})
        vals.append(getattr(s, var))
    return vals[0], vals[1]


@group('C04/B_HS', configs=b_HS_configs, mode='B',
       functions=[_VLE + f for f in ('__call__', 'set_PH', 'set_PS', 'set_TH', 'set_TS', '_set_PH_chemical', '_set_PS_chemical',
                                     '_set_TH_chemical', '_set_TS_chemical', '_H_hat_err_at_T', '_S_hat_err_at_T', '_H_hat_err_at_P', '_S_hat_err_at_P')],
       notes='real solvers; mixtures / compositions of C04/B_TP, single chemicals, and mixtures with 0.5-1 % N2 (gas-locked) and / or 1 % glucose '
             '(liquid-locked); P fixed at the reference bubble pressure of the feed at the grid T (kept when 2e4 <= P <= 1e6) resp. T fixed at the '
             'grid T; H (S) = all-liquid value + theta (all-vapour - all-liquid), theta in {0.05, 0.3, 0.6, 0.95}; reproduced within 1e-6 relative '
             'to max(|spec|, all-vapour - all-liquid)')
def B_HS(w, cfg):
    b_warm()
    IDs = cfg['IDs']; z = np.array(cfg['z']); T = cfg['T']; extras = cfg.get('extras') or {}
    if len(IDs) == 1:
        P = b_chem(IDs[0]).Psat(T)
    else:
        P, _ = ref_bubble_dew_P(IDs, z, T)
    if not 2e4 <= P <= 1e6:
        return
    for fixed, value in (('P', P), ('T', T)):
        for var in ('H', 'S'):
            try:
                lo, hi = _bracket(IDs, z, extras, fixed, value, var)
            except NOT_NORMAL as e:
                w.note(**{f'no bracket {fixed}{var}': repr(e)})
                continue
            span = hi - lo
            w.ensure(f'{fixed}{var}: all-vapour {var} above all-liquid {var}', span > 0., lo=lo, hi=hi)
            for n, t in enumerate(THETAS):
                X = lo + t * span
                s = b_stream(IDs, z, extras=extras, phase='lg'[n % 2])
                try:
                    flash(s, **{fixed: value, var: X})
                except NOT_NORMAL as e:
                    w.note(**{f'skipped {fixed}{var} theta={t:g}': repr(e)})
                    continue
                tag = f'{fixed}{var} theta={t:g}: '
                w.ensure(tag + f'{fixed} after the flash = specified {fixed}', getattr(s, fixed) == value, got=getattr(s, fixed), spec=value)
                got = getattr(s, var)
                scale = max(abs(X), abs(span))
                w.ensure(tag + f'specified {var} reproduced by the resulting stream', abs(got - X) <= H_REL_TOL * scale,
                         got=got, spec=X, rel=(got - X) / scale, T=s.T, P=s.P, V=s.vapor_fraction)


# --------------------------------------------------------------------------- B: ideal package vs independent Raoult's-law Rachford-Rice

def raoult_flash(Psats, z, P):
    """Independent flash: K_i = Psat_i / P, Rachford-Rice solved with scipy's brentq.  Returns the vapour fraction and y, x."""
    from scipy.optimize import brentq
    z = np.asarray(z, float); K = np.asarray(Psats, float) / P
    if (z * K).sum() <= 1.: return 0., z * K / (z * K).sum(), z
    if (z / K).sum() <= 1.: return 1., z, (z / K) / (z / K).sum()
    f = lambda V: (z * (K - 1.) / (1. + V * (K - 1.))).sum()
    V = brentq(f, 0., 1., xtol=1e-15, rtol=8.9e-16, maxiter=500)
    x = z / (1. + V * (K - 1.))
    return V, K * x, x


def b_ideal_configs(tier):
    out = []
    sets = list(IDEAL_SETS) + [ALC, HC]
    if tier == 'quick':
        sets = sets[:4] + [HC]
    for IDs in sets:
        n = len(IDs)
        comps = [[1. / n] * n] + ([[0.02] * (n - 1) + [1. - 0.02 * (n - 1)], [1. - 0.02 * (n - 1)] + [0.02] * (n - 1)] if tier != 'quick' or n <= 3 else [])
        for ci, z in enumerate(comps):
            for T in (300., 350., 400., 440.) if tier == 'quick' else T_GRID_THOROUGH:
                out.append({'name': f"ideal {'+'.join(IDs)};z{ci};T={T:g}", 'IDs': list(IDs), 'z': z, 'T': T})
    return out


@group('C04/B_ideal_raoult', configs=b_ideal_configs, mode='B',
       functions=[_VLE + '__call__', _VLE + 'set_thermal_condition', _VLE + 'set_PV', _VLE + '_solve_v_fixed_point',
                  'thermosteam.equilibrium.binary_phase_fraction:solve_phase_fraction_Rashford_Rice'],
       notes='real solvers, ideal property package (thermo.ideal()): water with organics and the two families; equimolar and corner compositions; '
             'T grid; P = P_dew + theta (P_bubble - P_dew) of Raoult\'s law, theta in {0.05, 0.3, 0.6, 0.95}, 2e4 <= P <= 1e6; vapour flows vs an '
             'independent Rachford-Rice solution (scipy brentq) within 1e-6 of the feed; V,P specification: T reproduces V in the independent flash')
def B_ideal_raoult(w, cfg):
    b_warm()
    IDs = cfg['IDs']; z = np.array(cfg['z']); T = cfg['T']
    Psats = np.array([b_chem(i).Psat(T) for i in IDs])
    Pb = float((z * Psats).sum()); Pd = float(1. / (z / Psats).sum())
    F = 100.
    for n, t in enumerate(THETAS):
        P = Pd + t * (Pb - Pd)
        if not 2e4 <= P <= 1e6:
            continue
        V_ref, y_ref, x_ref = raoult_flash(Psats, z, P)
        s = b_stream(IDs, z, F=F, ideal=True, phase='lg'[n % 2])
        try:
            flash(s, T=T, P=P)
        except NOT_NORMAL as e:
            w.note(**{f'skipped theta={t:g}': repr(e)})
            continue
        tag = f'theta={t:g}: '
        v = s.imol['g', IDs]; l = s.imol['l', IDs]
        err = float(np.abs(v - F * V_ref * y_ref).max() / F)
        w.ensure(tag + 'vapour flows agree with the independent Raoult / Rachford-Rice solution', err <= RAOULT_TOL, err=err, V=s.vapor_fraction, V_ref=V_ref)
        err_l = float(np.abs(l - F * (1. - V_ref) * x_ref).max() / F)
        w.ensure(tag + 'liquid flows agree with the independent Raoult / Rachford-Rice solution', err_l <= RAOULT_TOL, err=err_l)
        w.ensure(tag + 'T, P after the flash = specified T, P', s.T == T and s.P == P)
        if 0.02 < V_ref < 0.98:
            s2 = b_stream(IDs, z, F=F, ideal=True)
            try:
                flash(s2, V=V_ref, P=P)
            except NOT_NORMAL:
                continue
            V2, _, _ = raoult_flash([b_chem(i).Psat(s2.T) for i in IDs], z, P)
            w.ensure(tag + 'V,P specified: the independent flash at the returned T has the specified vapour fraction',
                     abs(V2 - V_ref) <= V_TOL or abs(s2.T - T) <= T_RES, V_at_T=V2, V=V_ref, T=s2.T, T_ref=T)


# --------------------------------------------------------------------------- B: scaling

def b_scaling_configs(tier):
    out = []
    base = [c for c in b_base_configs(tier) if c['name'].endswith(';z0;T=350') or c['name'].endswith(';z1;T=400')]
    for c in base:
        out.append(dict(c, extras={}))
    for IDs, extras in ((('Methanol', 'Ethanol'), {'N2': 0.01}), (('Hexane', 'Octane', 'Toluene'), {'Glucose': 0.01}), (('Water',), {}),
                        (('Ethanol',), {'N2': 0.005, 'Glucose': 0.01})):
        n = len(IDs)
        out.append({'name': f"{'+'.join(IDs)}+{'+'.join(extras) or 'none'};z0;T=350", 'IDs': list(IDs), 'z': [1. / n] * n, 'T': 350., 'extras': extras})
    return out


@group('C04/B_scaling', configs=b_scaling_configs, mode='B',
       functions=[_VLE + '__call__', _VLE + '_setup', _VLE + 'set_thermal_condition', _VLE + 'set_PV', _VLE + 'set_PH', 'thermosteam.equilibrium.vle:set_flows'],
       notes='real solvers; feed of 100 mol/hr vs the same feed times k in {1e-3, 7.3, 1e3}; specifications (T,P), (V,P), (H,P) with H scaled by k; '
             'every product flow / k within 1e-7 of the feed total of the unscaled result, T and P within 1e-7 relative')
def B_scaling(w, cfg):
    b_warm()
    IDs = cfg['IDs']; z = np.array(cfg['z']); T = cfg['T']; extras = cfg.get('extras') or {}
    if len(IDs) == 1:
        P = b_chem(IDs[0]).Psat(T) * (1.2 if extras else 1.0)
    else:
        Pb, Pd = ref_bubble_dew_P(IDs, z, T)
        P = Pd + 0.5 * (Pb - Pd)
    if not 2e4 <= P <= 1e6:
        return
    F = 100.
    all_IDs = list(IDs) + list(extras)

    def run(k, spec, H=None):
        s = b_stream(IDs, z, F=F * k, extras=extras)
        if spec == 'TP': flash(s, T=T, P=P)
        elif spec == 'PV': flash(s, V=0.4, P=P)
        else: flash(s, H=H * k, P=P)
        return s

    for spec in ('TP', 'PV', 'PH'):
        try:
            H = None
            if spec == 'PH':
                r = b_stream(IDs, z, F=F, extras=extras); flash(r, V=0.4, P=P); H = r.H
            base = run(1., spec, H)
        except NOT_NORMAL as e:
            w.note(**{f'skipped {spec}': repr(e)})
            continue
        g0 = base.imol['g', all_IDs]; l0 = base.imol['l', all_IDs]
        for k in (1e-3, 7.3, 1e3):
            try:
                s = run(k, spec, H)
            except NOT_NORMAL as e:
                w.note(**{f'skipped {spec} k={k:g}': repr(e)})
                continue
            err = float(max(np.abs(s.imol['g', all_IDs] / k - g0).max(), np.abs(s.imol['l', all_IDs] / k - l0).max()) / F)
            w.ensure(f'{spec} k={k:g}: all product flows are k times those of the unscaled feed', err <= SCALE_TOL, err=err,
                     V=s.vapor_fraction, V0=base.vapor_fraction)
            w.ensure(f'{spec} k={k:g}: T and P agree with the unscaled result',
                     abs(s.T - base.T) <= 1e-7 * base.T and abs(s.P - base.P) <= 1e-7 * base.P, T=s.T, T0=base.T, P=s.P, P0=base.P)


# --------------------------------------------------------------------------- B: the N-component Rachford-Rice solver

def b_rr_configs(tier):
    out = []
    rng_sets = {
        2: [[3.0, 0.2], [1.5, 0.9], [1.001, 0.5], [40., 0.01]],
        3: [[3.0, 1.2, 0.2], [1.5, 0.9, 0.8], [100., 1.0001, 1e-3]],
        5: [[8.0, 3.0, 1.2, 0.5, 0.1], [1.2, 1.1, 0.95, 0.9, 0.85]],
    }
    for n, Ksets in rng_sets.items():
        for ki, Ks in enumerate(Ksets):
            for ci, z in enumerate(b_compositions(n, 'quick')):
                for za, zb in ((0., 0.), (0.05, 0.), (0., 0.05), (0.02, 0.03)):
                    if n == 2 and za == 0. and zb == 0.:
                        continue       # that case is the closed form (C04/rachford_rice_2N)
                    out.append({'name': f'N={n};K{ki};z{ci};light={za:g};heavy={zb:g}', 'Ks': Ks, 'z': z, 'za': za, 'zb': zb})
    return out


@group('C04/B_rr_solve', configs=b_rr_configs, mode='B',
       functions=['thermosteam.equilibrium.binary_phase_fraction:solve_phase_fraction_Rashford_Rice',
                  'thermosteam.equilibrium.binary_phase_fraction:phase_fraction_objective_function'],
       notes='real flexsolve root finder; 2, 3, 5 partitioning components with fixed K sets (wide, narrow, near-1), 3-4 compositions, '
             'light / heavy non-partitioning fractions in {0, 0.02-0.05}; z scaled to sum 1 - light - heavy; guess 0.5')
def B_rr_solve(w, cfg):
    from scipy.optimize import brentq
    Ks = np.array(cfg['Ks'], float); za = cfg['za']; zb = cfg['zb']
    z = np.array(cfg['z'], float) * (1. - za - zb)
    z0 = z.copy(); K0 = Ks.copy()
    phi = binary_mod.solve_phase_fraction_Rashford_Rice(z, Ks, 0.5, za, zb)
    f = lambda V: float((-z0 * (K0 - 1.) / (1. + V * (K0 - 1.))).sum() - (za / V if za else 0.) + (zb / (1. - V) if zb else 0.))
    w.ensure('result is a fraction in [0, 1]', 0. <= phi <= 1., phi=phi)
    lo = 1e-15 if za else 0.; hi = 1. - 1e-15 if zb else 1.
    if f(lo) < 0. < f(hi):
        ref = brentq(f, lo, hi, xtol=1e-15, rtol=8.9e-16)
        w.ensure('a root of the Rachford-Rice residual exists in (0, 1): the result is that root', abs(phi - ref) <= 1e-9, phi=phi, ref=ref, residual=f(min(max(phi, lo), hi)))
    elif f(lo) >= 0.:
        w.ensure('no vapour can form (residual >= 0 at 0): result 0', phi == 0., phi=phi)
    else:
        w.ensure('no liquid can remain (residual <= 0 at 1): result 1', phi == 1., phi=phi)
    w.ensure('frame: arguments unchanged', bool((z == z0).all() and (Ks == K0).all()))
