# -*- coding: utf-8 -*-
"""
C13 (gap round) -- more of the real code paths behind "copies are independent, links share what they advertise,
pickles round-trip" under contract.  Everything here reuses the observation functions of C13_copy_link_pickle
(`obs`, `by_name_ok`, `views_consistent`, `eq_own`, ...) and adds

  gap_mass_channel      the flows of a stream read and written through its MASS accessors (imass, mass, F_mass) after
                        copy / proxy / flow_proxy / link / RE-link to a third stream / unlink / copy_like / pickle
                        histories, with the views built before or after the operation, on either side first;
  gap_condition_chains  two or three successive copy_like / set_data(get_data()) calls on the SAME target from sources
                        of different kinds and packages (phase sets grown in place, cached index lists and views);
  gap_recast            streams whose class was changed by their history (MultiStream cast down to Stream, and up
                        again) as original / source / target / link partner / pickled object;
  gap_phase_views       the per-phase views ms[phase] (Stream objects with a locked phase) as original of a copy, source
                        of copy_like, original of a proxy / flow proxy, link partner, pickled object;
  gap_stream_data       StreamData snapshots (get_data / set_data / from_data) as a way to copy conditions: snapshot is
                        independent of later changes, set_data onto an existing stream of any kind;
  gap_pickle_more       sibling classes never pickled before: SeriesReaction, ReactionSystem, ReactionItem, weight-basis
                        and phase-resolved reactions; constructors with units= / total_flow=;
  gap_pickle_packages   (mode B, native) chemicals / property packages with user-defined state: groups, aliases,
                        copied / blank chemicals, non-default Gamma/Phi/PCF, IdealThermo; utils.pickle.save/load.
"""
import contextlib
import itertools
import os
import pickle
import tempfile

import numpy

import thermosteam as tmo
from engine.api import group
from engine.sx import tmo_world as W
from contracts.C13_copy_link_pickle import (
    A, PKG, KINDS, _mk, obs, eq_map, same_flows, same_TP, same_obs, rep_ok, shared_roles, views_consistent,
    by_name_ok, eq_own, eq_foreign, load_eq, eq_shared_roles, havoc, _expected_flows, rebuild, unpickled, _by_reference,
    _sv_eq, _sa_eq, LINK_CHOICES)


# =========================================================================== world: more kinds of streams

def mk(w, name, kind, pkg='A', fill='pos+maybe'):
    """Streams of the kinds of C13 plus kinds whose class was changed by their history:
      'd:<p>'        MultiStream(g, l) holding material in phase p only, cast DOWN to a Stream through `s.phase = p`
                     (it keeps the per-phase view table and the equilibrium caches of its multi-phase past);
      'dc:<phases>'  ... and cast UP again through `s.phases = phases`;
      'cd:<p>'       Stream cast up to (g, l) and down again."""
    if kind in KINDS:
        return _mk(w, name, kind, pkg, fill)
    how, _, arg = kind.partition(':')
    th = W.thermo(PKG[pkg])
    if how in ('d', 'dc'):
        s = tmo.MultiStream(None, phases=('g', 'l'), thermo=th)
        for ph in s.phases: s[ph]
        s.vle
        s.phase = arg[-1] if how == 'dc' else arg
        if how == 'dc': s.phases = tuple(arg)
    elif how == 'cd':
        s = tmo.Stream(None, thermo=th, phase=arg)
        s.phases = ('g', 'l')
        s['l']
        s.phase = arg
    else:
        raise ValueError(kind)
    IDs = PKG[pkg]
    rows = s.phases
    present = {'default': 'zero'}
    for n, ph in enumerate(rows):
        present[ph, IDs[0]] = 'pos'
        if n == 0 and fill == 'pos+maybe': present[ph, IDs[-1]] = 'maybe'
    W.plant_flows(w, s, name, present=present)
    s.T = w.real(f'{name}.T', lo=0., lo_strict=True)
    s.P = w.real(f'{name}.P', lo=0., lo_strict=True)
    return s


def is_multi(kind):
    return kind[:2] in ('m:', 'c:') or kind.startswith('dc:')


# =========================================================================== the mass channel

def mass_ok(w, s):
    """The flows a stream reports through its mass accessors are its flows: imass[(phase,) ID], mass[k] and F_mass are
    MW times the molar flow the stream holds for that chemical (in that phase); observable state must not depend on
    the accessor used."""
    o = obs(s)
    ch = s.chemicals
    MW = [float(x) for x in ch.MW]
    multi = isinstance(s, tmo.MultiStream)
    cs = []
    try:
        imass = s.imass
        total = {cas: 0. for cas in ch.CASs}
        F = 0.
        for ph in o['phases']:
            for k, (ID, cas) in enumerate(zip(ch.IDs, ch.CASs)):
                n = o['flows'].get((ph, cas), 0.)
                cs.append(w.eq(imass[(ph, ID) if multi else ID], MW[k] * n))
                total[cas] = total[cas] + MW[k] * n
                F = F + MW[k] * n
        mass = s.mass
        for k, cas in enumerate(ch.CASs):
            cs.append(w.eq(mass[k], total[cas]))
        cs.append(w.eq(s.F_mass, F))
        if multi:
            cs.append(tuple(imass.phases) == tuple(s.phases))
        else:
            cs.append(imass.phase == s.phase)
    except (AttributeError, KeyError, IndexError, ValueError, tmo.exceptions.UndefinedPhase):      # a stream whose mass flows cannot be read does not report them
        return False
    return w.And(*cs)


def all_ok(w, streams, order=None):
    idx = list(range(len(streams))) if order is None else order
    return w.And(*[w.And(mass_ok(w, streams[i]), by_name_ok(w, streams[i])) for i in idx])


MASS_OPS_NOTE = ("ops: L<a><b>:<flags> a.link_with(b, flags); U<a> unlink; C<a>/P<a>/F<a>/R<a> append copy / proxy / "
                 "flow_proxy / unpickled (recipe) of a; K<a><b> a.copy_like(b); M<a> read a's mass views; "
                 "T<a> a.T = fresh value")


def _mass_seqs(tier):
    links = ['all', 'flow', 'TP', 'flow+TP'] if tier != 'thorough' else ['all', 'flow', 'phase', 'TP', 'flow+TP']
    seqs = []
    # one operation, views built before on one side / both / none
    for op in ['C0', 'P0', 'F0', 'R0', 'K01', 'K10', 'U0'] + [f'L01:{f}' for f in links] + [f'L10:{f}' for f in ('all', 'flow')]:
        seqs.append((op,))
    # link, then RE-link the same receiver to a third stream (the first partner must not see any of it)
    for f1 in links:
        for f2 in links:
            if tier != 'thorough' and f1 not in ('all', 'flow+TP') and f2 not in ('all', 'flow'): continue
            seqs.append((f'L01:{f1}', f'L02:{f2}'))
    # link, then the partner links elsewhere / unlinks / is copied / proxied
    for f1 in ('all', 'flow'):
        for op in ['L12:all', 'L12:flow', 'L21:all', 'U0', 'U1', 'C0', 'C1', 'P1', 'F0', 'F1', 'R0', 'K02', 'K20', 'K10', 'T1']:
            seqs.append((f'L01:{f1}', op))
    for op in ['U0', 'U3', 'L01:all', 'L10:all', 'L31:flow', 'K03', 'K30', 'C3', 'F3']:
        seqs.append(('P0', op))
        seqs.append(('F0', op))
    for op in ['L30:all', 'L03:flow', 'K03', 'K30', 'P3', 'F3']:
        seqs.append(('C0', op))
    if tier == 'thorough':
        core = ['L01:all', 'L01:flow', 'L02:flow', 'L02:all', 'L12:all', 'U0', 'U1', 'P0', 'F0', 'C0', 'K20', 'M1']
        for s in itertools.product(core, repeat=3):
            if s[0][0] in 'LPF': seqs.append(s)
    else:
        for s in [('L01:all', 'L02:flow', 'U0'), ('L01:all', 'L02:flow', 'U1'), ('L01:all', 'U0', 'L02:flow'), ('L01:all', 'M1', 'L02:flow'),
                  ('L01:all', 'L02:all', 'L01:all'), ('L01:flow+TP', 'L02:TP', 'L02:flow'), ('L01:all', 'L21:all', 'L02:flow'),
                  ('P0', 'U3', 'L30:all'), ('F0', 'L31:all', 'U0'), ('L01:all', 'C0', 'L32:flow')]:
            seqs.append(s)
    return seqs


def _mass_valid(seq, n0=3):
    n = n0
    aliased = set()
    for op in seq:
        k = op[0]
        idx = [int(c) for c in op[1:3] if c.isdigit()]
        if any(i >= n for i in idx): return False
        if len(idx) == 2 and idx[0] == idx[1]: return False
        if k in 'CPFR':
            if n > n0: return False
            if k == 'P': aliased |= {idx[0], n}
            n += 1
        elif k == 'L':
            if idx[0] in aliased: return False      # (as in C13/sequences: the property does not say what re-linking one of two aliases means)
        elif k == 'U':
            if idx[0] in aliased: aliased.clear()
    return True


def mass_configs(tier):
    out = []
    seen = set()
    relink = lambda seq: sum(1 for op in seq if op[0] == 'L') >= 2
    multi_core = {('C0',), ('P0',), ('F0',), ('R0',), ('U0',), ('K01',), ('L01:all',), ('L01:flow',), ('L01:TP',), ('L01:all', 'U1'), ('L01:all', 'K20'),
                  ('L01:flow', 'C0'), ('P0', 'U3'), ('F0', 'U0'), ('F0', 'K30'), ('P0', 'L31:flow'), ('C0', 'L30:all')}
    for fam in ('single', 'multi'):
        for n, seq in enumerate(_mass_seqs(tier)):
            if not _mass_valid(seq): continue
            if fam == 'multi' and any(':phase' in op for op in seq): continue
            if fam == 'multi' and tier != 'thorough' and not (relink(seq) or seq in multi_core): continue
            combos = [('all', 'fwd'), ('none', 'rev')]
            if tier == 'thorough' and len(seq) <= 2: combos += [('all', 'rev'), ('none', 'fwd')]
            if tier != 'thorough' and not (relink(seq) and fam == 'single' and len(seq) == 2):
                combos = [combos[n % 2]]            # alternate: views built before / after, read in stream order / reversed
            for views, order in combos:
                name = f'{fam};' + ','.join(seq) + f';views={views};read={order}'
                if name in seen: continue
                seen.add(name)
                out.append({'name': name, 'family': fam, 'seq': list(seq), 'views': views, 'order': order})
    return out


@group('C13/gap_mass_channel', configs=mass_configs, assumptions=['A-eq-writes'],
       functions=['thermosteam._stream:Stream.link_with', 'thermosteam._stream:Stream.unlink', 'thermosteam._stream:Stream.proxy',
                  'thermosteam._stream:Stream.flow_proxy', 'thermosteam._stream:Stream.copy', 'thermosteam._stream:Stream.copy_like',
                  'thermosteam._multi_stream:MultiStream.copy_like', 'thermosteam._stream:Stream.imass', 'thermosteam._stream:Stream.mass',
                  'thermosteam._stream:Stream.F_mass', 'thermosteam._multi_stream:MultiStream.mass',
                  'thermosteam.indexer:ChemicalMolarFlowIndexer.by_mass', 'thermosteam.indexer:MolarFlowIndexer.by_mass',
                  'thermosteam.indexer:ChemicalIndexer._copy_without_data', 'thermosteam.indexer:MaterialIndexer._copy_without_data',
                  'thermosteam.indexer:MaterialIndexer._expand_phases', 'thermosteam.base.dictionary_view:MassFlowDict.output',
                  'thermosteam.base.dictionary_view:MassFlowDict.input', 'thermosteam.base.dictionary_view:DictionaryView.__setitem__'],
       notes=MASS_OPS_NOTE)
def mass_channel(w, cfg):
    """After every step of a history every stream reports ITS flows through the mass accessors and by name; a write made
    through the mass view of a stream is a write to that stream's flows: the streams that share its flows (identity of the
    flow container, established by C13/link and C13/sequences) show it, no other stream changes."""
    W.reset_caches()
    multi = cfg['family'] == 'multi'
    kinds = ['m:gl', 'm:gl', 'c:gl'] if multi else ['l', 'g', 'l']
    streams = [_mk(w, f's{i}', k, 'A', 'pos') for i, k in enumerate(kinds)]
    th = W.thermo(A)
    order = (lambda: list(range(len(streams)))) if cfg['order'] == 'fwd' else (lambda: list(reversed(range(len(streams)))))
    if cfg['views'] == 'all':
        w.ensure('before the history: flows read through the mass accessors and by name are the flows of each stream', all_ok(w, streams, order()))
    for step, op in enumerate(cfg['seq'], 1):
        k = op[0]
        idx = [int(c) for c in op[1:3] if c.isdigit()]
        before = [obs(s) for s in streams]
        touched = set()
        if k == 'L':
            a, b = idx
            flags = LINK_CHOICES[op.split(':')[1]]
            streams[a].link_with(streams[b], *flags)
            touched = {i for i, s in enumerate(streams) if s is streams[a] or s._imol is streams[a]._imol}
        elif k == 'U':
            streams[idx[0]].unlink()
        elif k == 'K':
            a, b = idx
            streams[a].copy_like(streams[b])
            touched = {i for i, s in enumerate(streams) if s._imol.data is streams[a]._imol.data or s._thermal_condition is streams[a]._thermal_condition
                       or (not multi and s._imol._phase is streams[a]._imol._phase)}
        elif k == 'M':
            w.ensure(f'step {step}: flows read through the mass accessors are the flows of the stream', mass_ok(w, streams[idx[0]]))
        elif k == 'T':
            s = streams[idx[0]]
            s.T = w.real(f'T{step}', lo=0., lo_strict=True)
            touched = {i for i, x in enumerate(streams) if x._thermal_condition is s._thermal_condition}
        elif k in 'CPFR':
            s = streams[idx[0]]
            new = s.copy() if k == 'C' else s.proxy() if k == 'P' else s.flow_proxy() if k == 'F' else rebuild(s, _by_reference(th, th.chemicals))
            streams.append(new)
            w.ensure(f'step {step}: the new stream has the flows and phase(s) of its original', same_flows(w, before[idx[0]], obs(new)))
        # frame: a stream that is neither the receiver of the operation nor shares a container with it is unchanged
        for i, o in enumerate(before):
            if i not in touched:
                w.ensure(f'step {step}: stream {i} (not the receiver) keeps its flows, phase(s), T and P', same_obs(w, o, obs(streams[i])))
        w.ensure(f'step {step}: flows read through the mass accessors and by name are the flows of each stream', all_ok(w, streams, order()))
    # a second reading (now through whatever was cached by the first) gives the same answer, in the other order
    w.ensure('second reading: flows read through the mass accessors and by name are the flows of each stream', all_ok(w, streams, list(reversed(order()))))
    # writes through the mass view, each stream in turn
    ch = th.chemicals
    kW = ch.IDs.index('Water'); MW = float(ch.MW[kW]); casW = ch.CASs[kW]
    for i in order():
        s = streams[i]
        ph = s.phases[-1]
        key = (ph, 'Water') if isinstance(s, tmo.MultiStream) else 'Water'
        m = w.real(f'mass{i}', lo=0., lo_strict=True)
        before = [obs(x) for x in streams]
        s.imass[key] = m
        after = [obs(x) for x in streams]
        w.ensure(f'write through the mass view of stream {i}: the stream holds mass / MW', w.eq(after[i]['flows'].get((ph, casW), 0.) * MW, m))
        for j, x in enumerate(streams):
            if x._imol.data is s._imol.data:
                w.ensure(f'write through the mass view of stream {i}: visible in stream {j}, which shares its flows',
                         eq_map(w, after[j]['rowflows'], after[i]['rowflows']))
            else:
                w.ensure(f'write through the mass view of stream {i}: not visible in stream {j}, which does not share its flows',
                         same_obs(w, before[j], after[j]))
        w.ensure(f'after the write through the mass view of stream {i}: flows read through the mass accessors and by name are the flows of each stream',
                 all_ok(w, streams, order()))
    w.canary('canary: mass flow of Water = molar flow', w.eq(streams[0].imass[('l', 'Water') if multi else 'Water'], obs(streams[0])['flows'].get(('l', casW), 0.)))


# =========================================================================== chains of copy_like / set_data on the same target

# (kind, package, fill) of the sources of a chain; the target is on package A
CHAINS = [
    [('g', 'A', 'pos+maybe'), ('l', 'P', 'pos')],
    [('s', 'A', 'pos'), ('m:gl', 'A', 'pos+maybe')],
    [('m:Ll', 'A', 'pos'), ('g', 'B', 'pos+maybe')],
    [('m:gls', 'P', 'pos+maybe'), ('l', 'A', 'pos')],
    [('l', 'B', 'pos+maybe'), ('m:gl', 'P', 'pos')],
    [('m:gl', 'A', 'first-row'), ('m:Ll', 'P', 'pos')],
    [('L', 'A', 'pos'), ('s', 'P', 'pos+maybe')],
    [('m:gl', 'P', 'pos'), ('m:gl', 'A', 'last-row')],
    [('m:l', 'P', 'pos'), ('m:L', 'A', 'pos+maybe')],
    [('g', 'P', 'pos'), ('g', 'B', 'pos+maybe')],
]
CHAINS3 = [
    [('s', 'A', 'pos'), ('m:Ll', 'P', 'pos'), ('g', 'B', 'pos+maybe')],
    [('m:gl', 'P', 'pos+maybe'), ('l', 'A', 'pos'), ('m:gls', 'B', 'pos')],
    [('g', 'B', 'pos'), ('L', 'P', 'pos'), ('l', 'A', 'pos+maybe')],
]
# partner families: (target kind, partner, sources)
PARTNERS = [
    ('l', 'link', [('g', 'A', 'pos'), ('s', 'P', 'pos+maybe')]),
    ('l', 'proxy', [('g', 'P', 'pos'), ('l', 'B', 'pos+maybe')]),
    ('l', 'flow_proxy', [('l', 'B', 'pos'), ('l', 'P', 'pos+maybe')]),
    ('m:gl', 'link', [('m:gl', 'P', 'pos+maybe'), ('L', 'A', 'pos')]),
    ('m:gl', 'linked-to', [('l', 'B', 'pos'), ('m:gl', 'A', 'last-row')]),
    ('m:gl', 'proxy', [('s', 'A', 'pos'), ('m:Ll', 'P', 'pos')]),
    ('m:gl', 'flow_proxy', [('g', 'P', 'pos+maybe'), ('m:gl', 'B', 'pos')]),
    # the phase set of the target grows in place while its flows are shared with the partner
    ('m:gl', 'link', [('s', 'A', 'pos')]),
    ('m:gl', 'linked-to', [('m:gls', 'P', 'pos')]),
    ('m:gl', 'flow_proxy', [('s', 'P', 'pos')]),
    ('m:gl', 'flow_proxy-of', [('m:Ll', 'A', 'pos')]),
]


def _src_name(srcs):
    return '>'.join(f'{k}/{p}/{f}' for k, p, f in srcs)


def chain_configs(tier):
    out = []
    targets = ['l', 'm:gl', 'c:gl', 'm:l'] + (['g', 'm:Ll', 'm:gls', 'dc:gl', 'd:l'] if tier == 'thorough' else [])
    n = 0
    for t in targets:
        for chain in CHAINS + CHAINS3:
            opsets = itertools.product(('copy_like', 'set_data'), repeat=len(chain))
            for ops in opsets:
                n += 1
                if tier != 'thorough':
                    # quick: every chain with copy_like only; the mixed ones spread over the targets
                    if len(chain) == 3 and ops not in (('copy_like',) * 3, ('set_data', 'copy_like', 'set_data')): continue
                    if len(chain) == 2 and ops != ('copy_like', 'copy_like') and (n + len(t)) % 3: continue
                mids = ['checked', 'untouched'] if tier == 'thorough' else ['checked' if n % 2 else 'untouched']
                for mid in mids:
                    out.append({'name': f't={t};ops={",".join(ops)};src={_src_name(chain)};mid={mid}', 't': t, 'ops': list(ops),
                                'src': [list(s) for s in chain], 'mid': mid, 'partner': None})
    for t, partner, srcs in PARTNERS:
        for op in ('copy_like', 'set_data'):
            out.append({'name': f't={t};partner={partner};ops={op};src={_src_name(srcs)}', 't': t, 'ops': [op] * len(srcs),
                        'src': [list(s) for s in srcs], 'mid': 'checked', 'partner': partner})
    return out


@group('C13/gap_condition_chains', configs=chain_configs, assumptions=['A-eq-writes'],
       functions=['thermosteam._stream:Stream.copy_like', 'thermosteam._multi_stream:MultiStream.copy_like',
                  'thermosteam._stream:Stream.get_data', 'thermosteam._stream:Stream.set_data', 'thermosteam._stream:StreamData',
                  'thermosteam.indexer:ChemicalIndexer.copy_like', 'thermosteam.indexer:MaterialIndexer.copy_like',
                  'thermosteam.indexer:MaterialIndexer._expand_phases', 'thermosteam.indexer:MaterialIndexer.get_phase',
                  'thermosteam.indexer:ChemicalIndexer.to_material_indexer', 'thermosteam.indexer:MaterialIndexer.to_material_indexer',
                  'thermosteam.indexer:MaterialIndexer.to_chemical_indexer', 'thermosteam.indexer:index_overlap',
                  'thermosteam.indexer:MaterialIndexer._set_cache', 'thermosteam.indexer:MaterialIndexer._get_index_data',
                  'thermosteam._stream:Stream.phases', 'thermosteam._multi_stream:MultiStream.phases', 'thermosteam._multi_stream:MultiStream.phase',
                  'thermosteam._multi_stream:MultiStream.__getitem__', 'thermosteam._multi_stream:MultiStream.reset_cache',
                  'thermosteam._thermal_condition:ThermalCondition.copy_like', 'thermosteam._stream:Stream.empty'])
def condition_chains(w, cfg):
    """Copying the conditions of any stream onto any other makes flows, phase(s), T and P equal -- also when the target
    has been the target of another copy before (its phase set may have grown in place, index lists and views are cached),
    through copy_like or through a StreamData snapshot (get_data / set_data); the sources stay as they were and nothing
    is shared; a partner that shares the flows (and T, P) of the target shows the same flows (T, P)."""
    W.reset_caches()
    t = mk(w, 't', cfg['t'], 'A', 'pos')
    partner = cfg['partner']
    u = None
    if partner:
        if partner == 'link':
            u = mk(w, 'u', cfg['t'], 'A', 'pos'); t.link_with(u)
        elif partner == 'linked-to':
            u = mk(w, 'u', cfg['t'], 'A', 'pos'); u.link_with(t)
        elif partner == 'proxy': u = t.proxy()
        elif partner == 'flow_proxy': u = t.flow_proxy()
        elif partner == 'flow_proxy-of':
            u = t; t = u.flow_proxy()
        shares_TP = u.thermal_condition is t.thermal_condition
        w.ensure('partner shares the flows of the target', u.imol.data is t.imol.data)
    cls_t = type(t)
    intact = True          # the target is still the stream the partner was linked to (no operation changed its class)
    if isinstance(t, tmo.MultiStream):
        for ph in t.phases: t[ph]
        load_eq(t)
    w.ensure('before the chain: flows read by (phase, ID) and through the mass accessors are the flows of the target', w.And(by_name_ok(w, t), mass_ok(w, t)))
    sources = []
    for n, (op, (kind, pkg, fill)) in enumerate(zip(cfg['ops'], cfg['src']), 1):
        s = mk(w, f's{n}', kind, pkg, fill)
        pre = obs(s)
        sources.append((s, pre))
        if op == 'copy_like':
            t.copy_like(s)
        else:
            t.set_data(s.get_data())
        intact = intact and type(t) is cls_t
        last = n == len(cfg['ops'])
        if not (last or cfg['mid'] == 'checked'): continue
        tag = f'step {n} ({op})'
        ot = obs(t)
        w.ensure(f'{tag}: T and P equal to the source', same_TP(w, ot, pre))
        if isinstance(t, tmo.MultiStream):
            exp, missing = _expected_flows(pre, ot['phases'])
            w.ensure(f'{tag}: every source phase is a phase of the target', missing == [], missing=missing, target_phases=ot['phases'])
        else:
            exp = pre['flows']
            w.ensure(f'{tag}: phase(s) equal to the source', ot['phases'] == pre['phases'], target=ot['phases'], source=pre['phases'])
        if op == 'set_data':
            w.ensure(f'{tag}: phases equal to those of the data', set(ot['phases']) == set(pre['phases']), target=ot['phases'], source=pre['phases'])
        w.ensure(f'{tag}: flows equal to the source, phase by phase', eq_map(w, ot['flows'], exp))
        w.ensure(f'{tag}: target rep_ok', rep_ok(w, ot))
        for m, (s_, pre_) in enumerate(sources, 1):
            w.ensure(f'{tag}: source {m} unchanged', same_obs(w, pre_, obs(s_)))
            w.ensure(f'{tag}: target shares no container with source {m}', shared_roles(t, s_) == [], shared=shared_roles(t, s_))
            w.ensure(f'{tag}: flows read by (phase, ID) are the flows of source {m}', by_name_ok(w, s_))
        w.ensure(f'{tag}: flows read by (phase, ID) are the flows of the target', by_name_ok(w, t))
        w.ensure(f'{tag}: flows read through the mass accessors are the flows of the target', mass_ok(w, t))
        w.ensure(f'{tag}: target phase views consistent', views_consistent(w, t))
        w.ensure(f'{tag}: equilibrium methods of the target work on its own flows, T and P', eq_own(w, t), foreign=eq_foreign(t))
        if u is not None:
            ou = obs(u)
            # the operation is a change to the target; while the target is the stream it was (no change of class), the
            # partner that was linked to its flows (and never unlinked) shows them
            if intact:
                w.ensure(f'{tag}: the partner sharing the flows shows the flows of the target, phase by phase',
                         w.And(eq_map(w, ou['flows'], ot['flows']), set(ou['phases']) == set(ot['phases'])),
                         partner_phases=ou['phases'], target_phases=ot['phases'])
                if shares_TP:
                    w.ensure(f'{tag}: the partner sharing T and P shows T and P of the target', same_TP(w, ou, ot))
            w.ensure(f'{tag}: the partner holds one row of flows per phase it reports',
                     len(getattr(u.imol.data, 'rows', [0])) == len(ou['phases']), rows=len(getattr(u.imol.data, 'rows', [0])), phases=ou['phases'])
            w.ensure(f'{tag}: flows read by (phase, ID) and through the mass accessors are the flows of the partner',
                     w.And(by_name_ok(w, u), mass_ok(w, u)))
            w.ensure(f'{tag}: partner phase views consistent', views_consistent(w, u))
    # independence afterwards, both directions, every source
    ot = obs(t)
    for m, (s_, pre_) in enumerate(sources, 1):
        havoc(w, s_, f'ws{m}')
        w.ensure(f'later write to source {m} is not visible in the target', same_obs(w, ot, obs(t)))
    snap = [obs(s_) for s_, _ in sources]
    havoc(w, t, 'wt')
    for m, (s_, _) in enumerate(sources, 1):
        w.ensure(f'later write to the target is not visible in source {m}', same_obs(w, snap[m - 1], obs(s_)))
    w.ensure('after the writes: flows read by (phase, ID) are the flows of each stream', w.And(by_name_ok(w, t), *[by_name_ok(w, s_) for s_, _ in sources]))
    w.canary('canary: T = last source T + 1', w.eq(ot['T'], sources[-1][1]['T'] + 1))
    w.canary('canary: write to the target visible in the last source', same_TP(w, obs(t), obs(sources[-1][0])))


# =========================================================================== StreamData snapshots

def data_configs(tier):
    srcs = ['l', 'g', 'm:gl', 'm:l', 'c:gl', 'd:l'] + (['s', 'L', 'm:Ll', 'm:gls', 'dc:gl', 'cd:l'] if tier == 'thorough' else [])
    tgts = ['l', 'm:gl', 'm:Ll'] + (['g', 'm:l', 'c:gl', 'd:l', 'dc:gl', 'm:gls'] if tier == 'thorough' else [])
    out = []
    n = 0
    for s, t in itertools.product(srcs, tgts):
        for pkg in ('A', 'P'):
            for how in ('direct', 'pickled', 'from_data'):
                n += 1
                if tier != 'thorough' and n % 3: continue            # quick: every third combination
                out.append({'name': f's={s};t={t};pkg={pkg};how={how}', 's': s, 't': t, 'pkg': pkg, 'how': how})
    return out


@group('C13/gap_stream_data', configs=data_configs, assumptions=['A-pickle', 'A-eq-writes'],
       functions=['thermosteam._stream:Stream.get_data', 'thermosteam._stream:Stream.set_data', 'thermosteam._stream:Stream.from_data',
                  'thermosteam._stream:StreamData', 'thermosteam._stream:StreamData (slot recipe)', 'thermosteam.indexer:Indexer.copy',
                  'thermosteam.indexer:MaterialIndexer.get_phase', 'thermosteam.indexer:ChemicalIndexer.copy_like',
                  'thermosteam.indexer:MaterialIndexer.copy_like', 'thermosteam._thermal_condition:ThermalCondition.copy_like',
                  'thermosteam._stream:Stream.phases', 'thermosteam._multi_stream:MultiStream.phases', 'thermosteam._multi_stream:MultiStream.phase'])
def stream_data(w, cfg):
    """A StreamData object is a copy of the conditions of its stream (it is what a pickle carries): no later change to the
    stream is visible in it; setting it onto any stream (or building a stream from it) makes flows, phase(s), T and P
    equal to what the stream had when the data were taken -- every time it is used."""
    W.reset_caches()
    s = mk(w, 's', cfg['s'], cfg['pkg'], 'pos+maybe')
    thA = W.thermo(A)
    snap = obs(s)
    d = s.get_data()
    w.ensure('taking the data leaves the stream unchanged', same_obs(w, snap, obs(s)))
    w.ensure('the data share no flow container with the stream', d._imol is not s._imol and d._imol.data is not s._imol.data
             and all(a is not b for a, b in zip(getattr(d._imol.data, 'rows', [d._imol.data]), getattr(s._imol.data, 'rows', [s._imol.data]))))
    havoc(w, s, 'late')                          # a later change to the stream ...
    if cfg['how'] == 'pickled':
        ths = W.thermo(PKG[cfg['pkg']])
        d = rebuild(d, _by_reference(ths, ths.chemicals))
    def check(tag, x):
        ox = obs(x)
        w.ensure(f'{tag} use: T and P as when the data were taken', same_TP(w, ox, snap))
        w.ensure(f'{tag} use: phases as when the data were taken', set(ox['phases']) == set(snap['phases']), got=ox['phases'], want=snap['phases'])
        w.ensure(f'{tag} use: flows as when the data were taken, phase by phase', eq_map(w, ox['flows'], snap['flows']))
        w.ensure(f'{tag} use: rep_ok', rep_ok(w, ox))
        w.ensure(f'{tag} use: flows read by (phase, ID) and through the mass accessors are the flows of the stream', w.And(by_name_ok(w, x), mass_ok(w, x)))
        w.ensure(f'{tag} use: phase views consistent', views_consistent(w, x))
        w.ensure(f'{tag} use: equilibrium methods work on the stream\'s own flows, T and P', eq_own(w, x), foreign=eq_foreign(x))
        w.ensure(f'{tag} use: nothing shared with the stream the data were taken from', shared_roles(x, s) == [], shared=shared_roles(x, s))
        w.ensure(f'{tag} use: nothing shared with the data',
                 x._imol.data is not d._imol.data and not (set(map(id, getattr(x._imol.data, 'rows', [x._imol.data]))) & set(map(id, getattr(d._imol.data, 'rows', [d._imol.data])))))

    if cfg['how'] == 'from_data':
        price = w.real('price'); cf = {'GWP': w.real('cf.GWP')}
        t = tmo.Stream.from_data(d, None, price, dict(cf), thA)
        w.ensure('from_data: price and characterization factors as given',
                 w.And(w.eq(t.price, price), set(t.characterization_factors) == {'GWP'}, w.eq(t.characterization_factors['GWP'], cf['GWP'])))
        w.ensure('from_data: uses the requested property package', t.thermo is thA)
    else:
        t = mk(w, 't', cfg['t'], 'A', 'pos')
        if isinstance(t, tmo.MultiStream):
            for ph in t.phases: t[ph]
            load_eq(t)
        t.set_data(d)
    check('first', t)
    # ... and the data are used a second time, on a stream of the other family, after the first target was changed
    t2 = mk(w, 't2', 'm:gl' if not is_multi(cfg['t']) else 'g', 'A', 'pos')
    havoc(w, t, 'wt')
    snap_t = obs(t)
    t2.set_data(d)
    w.ensure('using the data again does not change the stream they were set on before', same_obs(w, snap_t, obs(t)))
    check('second', t2)
    w.canary('canary: second use has T + 1', w.eq(obs(t2)['T'], snap['T'] + 1))


# =========================================================================== the contracts of C13 on more kinds of streams
# The bodies of C13/copy, C13/copy_like and C13/link build their streams through the module-level `_mk` / `_is_multi`
# of contracts.C13_copy_link_pickle.  For the time of one call they are pointed to the extended `mk` / `is_multi` of this
# file (run-time rebinding inside the checker process, nothing is written), so that the very same clauses are discharged
# for streams whose class was changed by their history and for per-phase views.

import contracts.C13_copy_link_pickle as _C13

_PARENTS = []
_VIEWS = []


def mk_any(w, name, kind, pkg='A', fill='pos+maybe', TP=True):
    """... plus 'v:<p>' = the per-phase view ms[p] of a MultiStream(g, l) (a Stream object with a locked phase that shares
    the row of flows of that phase and T, P with the multi-phase stream); 'v:<p>/c' the same of a stream cast to (g, l)."""
    if kind.startswith('v:'):
        ph, _, how = kind[2:].partition('/')
        ms = _mk(w, name + '.ms', 'c:gl' if how == 'c' else 'm:gl', pkg, fill)
        _PARENTS.append(ms)
        _VIEWS.append(ms[ph])
        return ms[ph]
    return mk(w, name, kind, pkg, fill)


def havoc_any(w, s, tag, flows=True, TP=True, phase=True):
    """As C13 `havoc`; the phase of a per-phase view is fixed by contract (it is the phase of its row in the multi-phase
    stream), every other quantity is written.  Only the views handed out by `mk_any` are exempt: a copy, flow proxy or
    unpickled image of a view is an ordinary stream whose phase can change."""
    return havoc(w, s, tag, flows=flows, TP=TP, phase=phase and not any(s is v for v in _VIEWS))


@contextlib.contextmanager
def extended_kinds():
    saved = (_C13._mk, _C13._is_multi, _C13.havoc)
    _C13._mk, _C13._is_multi, _C13.havoc = mk_any, is_multi, havoc_any
    try:
        yield
    finally:
        _C13._mk, _C13._is_multi, _C13.havoc = saved
        del _PARENTS[:]
        del _VIEWS[:]


RECAST = ['d:l', 'd:g', 'cd:l', 'dc:gl']
FUNCS_C13 = ['thermosteam._stream:Stream.copy', 'thermosteam._stream:Stream.__copy__', 'thermosteam._stream:Stream.copy_like',
             'thermosteam._multi_stream:MultiStream.copy_like', 'thermosteam._stream:Stream.link_with', 'thermosteam._stream:Stream.unlink',
             'thermosteam._stream:Stream.proxy', 'thermosteam._stream:Stream.flow_proxy', 'thermosteam._stream:Stream.__reduce__',
             'thermosteam._stream:Stream.from_data', 'thermosteam._stream:Stream.get_data', 'thermosteam._stream:Stream.set_data',
             'thermosteam.indexer:Indexer.copy', 'thermosteam.indexer:ChemicalIndexer._copy_without_data',
             'thermosteam.indexer:MaterialIndexer._copy_without_data', 'thermosteam.indexer:ChemicalIndexer.copy_like',
             'thermosteam.indexer:MaterialIndexer.copy_like', 'thermosteam._multi_stream:MultiStream.reset_cache', 'thermosteam._stream:Stream.reset_cache']


def _flagname(fl):
    return '+'.join(n for n, f in zip(('flow', 'phase', 'TP'), fl) if f) or 'none'


def recast_configs(tier):
    out = []
    kinds = RECAST if tier == 'thorough' else ['d:l', 'cd:l', 'dc:gl']
    for k in kinds:
        for how, th in (('copy', 'none'), ('__copy__', 'none'), ('copy', 'P')):
            if tier != 'thorough' and how == '__copy__' and k != 'd:l': continue
            out.append({'name': f'copy;kind={k};how={how};thermo={th}', 'body': 'copy', 'kind': k, 'how': how, 'thermo': th})
        out.append({'name': f'copy;kind={k};how=copy;thermo=none;read=original-first;eq=loaded', 'body': 'copy', 'kind': k, 'how': 'copy',
                    'thermo': 'none', 'read': 'original-first', 'eq': 'loaded'})
    others = ['l', 'g', 'm:gl', 'm:Ll'] + (['s', 'm:gls', 'm:l'] if tier == 'thorough' else [])
    for k in kinds:
        for o in others:
            for p in (['AA', 'AB'] if tier == 'thorough' else ['AA' if (len(o) + len(k)) % 2 else 'AB']):
                out.append({'name': f'copy_like;t={k};s={o};pkg={p};fill=pos+maybe', 'body': 'copy_like', 't': k, 's': o, 'pkg': p, 'fill': 'pos+maybe'})
                if o in ('l', 'm:gl', 'm:Ll') or tier == 'thorough':
                    out.append({'name': f'copy_like;t={o};s={k};pkg={p};fill=pos+maybe', 'body': 'copy_like', 't': o, 's': k, 'pkg': p, 'fill': 'pos+maybe'})
    pairs = [('d:l', 'g'), ('l', 'd:g' if tier == 'thorough' else 'd:l'), ('cd:l', 'd:l'), ('dc:gl', 'm:gl'), ('m:gl', 'dc:gl')]
    flagsets = [(True, True, True), (True, False, False), (False, False, True), (True, False, True)] + ([(False, True, False), (False, False, False)] if tier == 'thorough' else [])
    for ka, kb in pairs:
        for fl in flagsets:
            for un in ('a', 'b'):
                if tier != 'thorough' and un == 'b' and fl != (True, True, True): continue
                out.append({'name': f'link;a={ka};b={kb};op=link:{_flagname(fl)};unlink={un}', 'body': 'link', 'a': ka, 'b': kb, 'op': 'link',
                            'flags': list(fl), 'unlink': un})
        out.append({'name': f'link;a={ka};b={kb};op=link:flow+phase+TP;unlink=a;eq=loaded', 'body': 'link', 'a': ka, 'b': kb, 'op': 'link',
                    'flags': [True, True, True], 'unlink': 'a', 'eq': 'loaded'})
    for kb in kinds:
        for op in ('proxy', 'flow_proxy'):
            for un in ('a', 'b'):
                out.append({'name': f'link;a=new;b={kb};op={op};unlink={un}', 'body': 'link', 'a': None, 'b': kb, 'op': op, 'flags': None, 'unlink': un})
        out.append({'name': f'pickle;kind={kb}', 'body': 'pickle', 'kind': kb})
    return out


def _pickle_body(w, cfg, keep_phase=False):
    """Pickling and unpickling a stream yields a stream with identical observable state (flows, phase(s), T, P, price,
    characterization factors), sharing nothing with the original."""
    W.reset_caches()
    th = W.thermo(A)
    s = mk_any(w, 's', cfg['kind'], 'A', 'pos+maybe')
    cf = {'GWP': w.real('cf.GWP')}
    if cfg['kind'].startswith('v:'):
        price = s.price          # a per-phase view is handed out by its multi-phase stream; it has the price it reports
    else:
        price = w.real('price')
        s.price = price
    s.characterization_factors.update(cf)
    o = obs(s)
    rs = unpickled(w, s, keep=(th, th.chemicals))
    w.ensure('pickle: original unchanged', w.And(same_obs(w, o, obs(s)), w.eq(s.price, price)))
    for r in rs:
        orr = obs(r)
        w.ensure('pickle: same class', type(r) is type(s) or (len(o['phases']) == 1 and isinstance(r, tmo.Stream)), got=type(r).__name__)
        w.ensure('pickle: same ID (an unnamed stream stays unnamed)', (r.ID or '') == (s.ID or ''), got=r.ID, want=s.ID)
        w.ensure('pickle: same flows and phase(s)', w.And(o['phases'] == orr['phases'], eq_map(w, o['flows'], orr['flows'])), got=orr['phases'], want=o['phases'])
        w.ensure('pickle: same T and P', same_TP(w, o, orr))
        w.ensure('pickle: same price', w.eq(r.price, price))
        w.ensure('pickle: same characterization factors',
                 w.And(set(r.characterization_factors) == set(cf), eq_map(w, dict(r.characterization_factors), cf)))
        w.ensure('pickle: rep_ok', rep_ok(w, orr))
        w.ensure('pickle: no container shared with the original',
                 w.And(shared_roles(r, s) == [], r.characterization_factors is not s.characterization_factors))
        w.ensure('pickle: phase views consistent', views_consistent(w, r))
        w.ensure('pickle: flows read by (phase, ID) and through the mass accessors are the flows of the unpickled stream', w.And(by_name_ok(w, r), mass_ok(w, r)))
        w.ensure('pickle: equilibrium methods of the unpickled stream work on its own flows, T and P', eq_own(w, r), foreign=eq_foreign(r))
        w.ensure('pickle: equilibrium methods of either stream write to no container of the other',
                 eq_shared_roles(r, s) + eq_shared_roles(s, r) == [])
    r = rs[0]
    havoc_any(w, r, 'wr')
    w.ensure('pickle: later write to the unpickled stream is not visible in the original', same_obs(w, o, obs(s)))
    o2 = obs(r)
    havoc_any(w, s, 'ws')
    w.ensure('pickle: later write to the original is not visible in the unpickled stream', same_obs(w, o2, obs(r)))
    w.canary('canary: unpickled price + 1', w.eq(rs[0].price, price + 1))


def _dispatch(w, cfg):
    body = cfg['body']
    with extended_kinds():
        if body == 'copy': return _C13.copy_(w, cfg)
        if body == 'copy_like': return _C13.copy_like(w, cfg)
        if body == 'link': return _C13.link(w, cfg)
        if body == 'pickle': return _pickle_body(w, cfg)
        if body == 'view_proxy': return _view_proxy_body(w, cfg)
    raise ValueError(body)


@group('C13/gap_recast', configs=recast_configs, assumptions=['A-eq-writes', 'A-pickle'],
       functions=FUNCS_C13 + ['thermosteam._multi_stream:MultiStream.phase', 'thermosteam._stream:Stream.phases',
                              'thermosteam.indexer:MaterialIndexer.to_chemical_indexer', 'thermosteam.indexer:ChemicalIndexer.to_material_indexer'])
def recast(w, cfg):
    """The clauses of C13/copy, C13/copy_like, C13/link and the stream pickle clauses, for streams whose class was changed by
    their history: a MultiStream cast down to a Stream (`s.phase = 'l'`: it keeps the table of per-phase views and the
    equilibrium caches of its past), a Stream cast up and down again, a MultiStream cast down and up again."""
    _dispatch(w, cfg)


# =========================================================================== per-phase views

def view_configs(tier):
    out = []
    views = ['v:g', 'v:l'] + (['v:g/c', 'v:l/c'] if tier == 'thorough' else [])
    for v in views:
        for how, th in (('copy', 'none'), ('__copy__', 'none'), ('copy', 'P')):
            if tier != 'thorough' and v == 'v:l' and how != 'copy': continue
            out.append({'name': f'copy;kind={v};how={how};thermo={th}', 'body': 'copy', 'kind': v, 'how': how, 'thermo': th})
        for t in ['l', 'g', 'm:gl', 'm:Ll'] + (['s', 'm:l', 'c:gl', 'd:l'] if tier == 'thorough' else []):
            for p in (['AA', 'AB'] if tier == 'thorough' or v == 'v:g' else ['AA']):
                out.append({'name': f'copy_like;t={t};s={v};pkg={p};fill=pos+maybe', 'body': 'copy_like', 't': t, 's': v, 'pkg': p, 'fill': 'pos+maybe'})
        # a view as target: only a source in the phase of the view can be copied onto it (the phase of a view is fixed)
        for p in ('AA', 'AB'):
            out.append({'name': f'copy_like;t={v};s={v[2]};pkg={p};fill=pos+maybe', 'body': 'copy_like', 't': v, 's': v[2], 'pkg': p, 'fill': 'pos+maybe'})
        # an ordinary stream linked to a view (phase not linked: the phase container of a view is locked)
        for fl in [(True, False, True), (True, False, False), (False, False, True)] + ([(False, False, False)] if tier == 'thorough' else []):
            for ka in (['l', 'g'] if tier == 'thorough' else ['l' if v == 'v:g' else 'g']):
                out.append({'name': f'link;a={ka};b={v};op=link:{_flagname(fl)};unlink=a', 'body': 'link', 'a': ka, 'b': v, 'op': 'link',
                            'flags': list(fl), 'unlink': 'a'})
        out.append({'name': f'link;a=new;b={v};op=flow_proxy;unlink=a', 'body': 'link', 'a': None, 'b': v, 'op': 'flow_proxy', 'flags': None, 'unlink': 'a'})
        out.append({'name': f'proxy;kind={v}', 'body': 'view_proxy', 'kind': v})
        out.append({'name': f'pickle;kind={v}', 'body': 'pickle', 'kind': v})
    return out


def _view_proxy_body(w, cfg):
    """A proxy shares all flow and thermal data (of a per-phase view: the row of that phase, T and P of the multi-phase
    stream); a write to either is visible in the other and in the multi-phase stream."""
    W.reset_caches()
    v = mk_any(w, 'b', cfg['kind'], 'A', 'pos+maybe')
    ms = _PARENTS[-1]
    pre = obs(v)
    p = v.proxy()
    op_ = obs(p)
    w.ensure('source unchanged by linking', same_obs(w, pre, obs(v)))
    w.ensure('proxy: flows, phase, T and P equal to the original', same_obs(w, pre, op_))
    w.ensure('proxy: flow and thermal containers shared', w.And(p.imol.data is v.imol.data, p.thermal_condition is v.thermal_condition))
    w.ensure('proxy: flows read by (phase, ID) and through the mass accessors are the flows of each stream',
             w.And(by_name_ok(w, p), by_name_ok(w, v), mass_ok(w, p), mass_ok(w, v)))
    for src, dst, tag in ((p, v, 'proxy'), (v, p, 'original')):
        havoc_any(w, src, 'w' + tag, phase=False)           # (a proxy of a view is that view under another name)
        w.ensure(f'write to the {tag} visible in the other', same_obs(w, obs(src), obs(dst)))
        oms = obs(ms)
        w.ensure(f'write to the {tag} visible in the multi-phase stream the view belongs to',
                 w.And(same_TP(w, oms, obs(src)), eq_map(w, {k: x for k, x in oms['flows'].items() if k[0] == v.phase}, obs(src)['flows'])))
        w.ensure(f'after the write to the {tag}: phase views of the multi-phase stream consistent', views_consistent(w, ms))
    w.canary('canary: proxy T + 1', w.eq(obs(p)['T'], obs(v)['T'] + 1))


@group('C13/gap_phase_views', configs=view_configs, assumptions=['A-eq-writes', 'A-pickle'],
       functions=FUNCS_C13 + ['thermosteam._multi_stream:MultiStream.__getitem__', 'thermosteam.indexer:MaterialIndexer.get_phase',
                              'thermosteam._phase:LockedPhase', 'thermosteam._phase:Phase.copy', 'thermosteam._phase:LockedPhase.__reduce__'])
def phase_views(w, cfg):
    """The per-phase views ms[phase] of a multi-phase stream are streams: the clauses of C13/copy (a view as original),
    C13/copy_like (a view as source; as target of a source in its own phase), C13/link (an ordinary stream linked to a view;
    flow proxy of a view), proxy of a view and the stream pickle clauses hold for them."""
    _dispatch(w, cfg)


# =========================================================================== pickling: sibling classes and constructor variants

MORE_PARTS = ['SeriesReaction', 'ReactionSystem', 'ReactionItem', 'ReactionItem:alone', 'Reaction:wt', 'SeriesReaction:phases',
              'Stream:kg/hr', 'Stream:total_flow', 'MultiStream:kg/hr', 'MultiStream:total_flow']


def more_configs(tier):
    return [{'name': f'part={p}', 'part': p} for p in MORE_PARTS]


def _rxn_eq(w, r, x):
    """Observable state of a single reaction: chemicals, basis, phases, reactant, conversion, stoichiometry."""
    st_r, st_x = r._stoichiometry, x._stoichiometry
    same_st = _sa_eq(w, st_r, st_x) if hasattr(st_x, 'rows') else _sv_eq(w, st_r, st_x)
    return w.And(type(r) is type(x), r.chemicals.IDs == x.chemicals.IDs, r.basis == x.basis, tuple(r.phases) == tuple(x.phases),
                 r._reactant_index == x._reactant_index, r.reactant == x.reactant, w.eq(r.X, x.X), same_st)


def _set_eq(w, r, x):
    st_r, st_x = r._stoichiometry, x._stoichiometry
    if isinstance(st_x, (list, tuple)):
        same_st = w.And(len(st_r) == len(st_x), *[(_sa_eq if hasattr(b, 'rows') else _sv_eq)(w, a, b) for a, b in zip(st_r, st_x)])
    else:
        same_st = _sa_eq(w, st_r, st_x)
    return w.And(type(r) is type(x), r.chemicals.IDs == x.chemicals.IDs, r.basis == x.basis, tuple(r.phases) == tuple(x.phases),
                 list(r._reactant_index) == list(x._reactant_index), len(r.X) == len(x.X), *[w.eq(a, b) for a, b in zip(r.X, x.X)],
                 r._X is not x._X, same_st)


@group('C13/gap_pickle_more', configs=more_configs, assumptions=['A-pickle'],
       functions=['thermosteam.reaction._reaction:SeriesReaction (slot recipe)', 'thermosteam.reaction._reaction:ReactionSystem (slot recipe)',
                  'thermosteam.reaction._reaction:ReactionItem (slot recipe)', 'thermosteam.reaction._reaction:Reaction (slot recipe)',
                  'thermosteam.reaction._reaction:ReactionSet.__getitem__', 'thermosteam.reaction._reaction:ReactionItem.X',
                  'thermosteam._stream:Stream.__init__', 'thermosteam._multi_stream:MultiStream.__init__',
                  'thermosteam._stream:Stream.__reduce__', 'thermosteam._stream:Stream.from_data', 'thermosteam._stream:Stream.set_data',
                  'thermosteam._stream:Stream._get_flow_name_and_factor', 'thermosteam._stream:Stream._init_indexer',
                  'thermosteam._multi_stream:MultiStream._init_indexer'])
def pickle_more(w, cfg):
    """Pickling and unpickling a reaction (of every reaction class) or a stream (built through any constructor form)
    yields an object with identical observable state that shares nothing mutable with the original."""
    W.reset_caches()
    part = cfg['part']
    th = W.thermo(A)
    chems = th.chemicals
    keep = (th, chems)
    name, _, arg = part.partition(':')
    if name in ('SeriesReaction', 'ReactionSystem', 'ReactionItem', 'Reaction'):
        X1 = w.real('X1', lo=0., hi=1.); X2 = w.real('X2', lo=0., hi=1.)
        nu = w.real('nu', lo=0., lo_strict=True)
        if arg == 'phases':
            r1 = tmo.Reaction('Water,l -> Ethanol,g', reactant='Water', X=X1, chemicals=chems)
            r1._stoichiometry[1, chems.index('Ethanol')] = nu
            r2 = tmo.Reaction('Methanol,l -> Ethanol,g', reactant='Methanol', X=X2, chemicals=chems)
        else:
            basis = 'wt' if arg == 'wt' else 'mol'
            r1 = tmo.Reaction({'Water': -1, 'Ethanol': nu}, reactant='Water', X=X1, chemicals=chems, basis=basis)
            r2 = tmo.Reaction({'Methanol': -1, 'Ethanol': 0.5}, reactant='Methanol', X=X2, chemicals=chems, basis=basis)
        if name == 'Reaction':
            for r in unpickled(w, r1, keep):
                w.ensure('same class, chemicals, basis, phases, reactant, conversion and stoichiometry; stoichiometry not shared', _rxn_eq(w, r, r1))
            w.canary('canary: X + 1', w.eq(r1.X, X1 + 1))
        elif name == 'SeriesReaction':
            x = tmo.SeriesReaction([r1, r2])
            for r in unpickled(w, x, keep):
                w.ensure('same class, chemicals, basis, phases, reactants, conversions and stoichiometry; nothing mutable shared', _set_eq(w, r, x))
            w.canary('canary: X + 1', w.eq(x.X[0], X1 + 1))
        elif name == 'ReactionSystem':
            r3 = tmo.Reaction({'Ethanol': -1, 'Methanol': 2.}, reactant='Ethanol', X=w.real('X3', lo=0., hi=1.), chemicals=chems)
            pr = tmo.ParallelReaction([r1, r2])
            x = tmo.ReactionSystem(r3, pr)
            for r in unpickled(w, x, keep):
                w.ensure('same class, basis, phases and chemicals', w.And(type(r) is type(x), r._basis == x._basis, tuple(r._phases) == tuple(x._phases),
                                                                           r._chemicals.IDs == x._chemicals.IDs, len(r.reactions) == 2))
                w.ensure('same reactions, in order, nothing mutable shared', w.And(_rxn_eq(w, r.reactions[0], r3), _set_eq(w, r.reactions[1], pr)))
            w.canary('canary: X + 1', w.eq(x.X[0], r3.X + 1))
        else:
            pr = tmo.ParallelReaction([r1, r2])
            if arg == 'alone':
                item = pr[1]
                for r in unpickled(w, item, keep):
                    w.ensure('same chemicals, basis, phases, reactant, conversion and stoichiometry',
                             w.And(r.chemicals.IDs == item.chemicals.IDs, r.basis == item.basis, tuple(r.phases) == tuple(item.phases),
                                   r._reactant_index == item._reactant_index, w.eq(r.X, X2), _sv_eq(w, r._stoichiometry, item._stoichiometry)))
                    Xn = w.real('Xn', lo=0., hi=1.)
                    r.X = Xn
                    w.ensure('a later change to the unpickled item is not visible in the original', w.And(w.eq(item.X, X2), w.eq(pr.X[1], X2), w.eq(r.X, Xn)))
                    r.X = X2
            else:
                for r in unpickled(w, pr, keep):
                    item = r[0]
                    w.ensure('an item of the unpickled set has the conversion and stoichiometry of the original item',
                             w.And(w.eq(item.X, X1), _sv_eq(w, item._stoichiometry, pr[0]._stoichiometry), item._reactant_index == pr[0]._reactant_index))
                    Xn = w.real('Xn', lo=0., hi=1.)
                    item.X = Xn
                    w.ensure('an item of the unpickled set is an item of that set, not of the original',
                             w.And(w.eq(r.X[0], Xn), w.eq(pr.X[0], X1), w.eq(r.X[1], X2)))
                    item.X = X1
            w.canary('canary: X + 1', w.eq(pr.X[0], X1 + 1))
        return
    # ---- streams built through other constructor forms
    T = w.real('T', lo=0., lo_strict=True); P = w.real('P', lo=0., lo_strict=True)
    price = w.real('price'); cf = {'GWP': w.real('cf.GWP')}
    mW = w.real('m.Water', lo=0., lo_strict=True); mM = w.real('m.Methanol', lo=0., lo_strict=True)
    kw = dict(T=T, P=P, price=price, thermo=th, characterization_factors=dict(cf))
    MW = {ID: float(chems[ID].MW) for ID in A}
    cas = {ID: chems[ID].CAS for ID in A}
    if name == 'Stream':
        if arg == 'kg/hr':
            s = tmo.Stream('feed', Water=mW, Methanol=mM, units='kg/hr', phase='g', **kw)
            exp = {('g', cas['Water']): mW / MW['Water'], ('g', cas['Methanol']): mM / MW['Methanol']}
            w.ensure('constructor: mass flows as given', eq_map(w, {k: v for k, v in obs(s)['flows'].items()}, exp))
        else:
            F = w.real('F', lo=0., lo_strict=True)
            s = tmo.Stream('feed', Water=mW, Methanol=mM, total_flow=F, phase='l', **kw)
            o = obs(s)
            fW, fM = o['flows'].get(('l', cas['Water']), 0.), o['flows'].get(('l', cas['Methanol']), 0.)
            w.ensure('constructor: total flow as given, composition as given', w.And(w.eq(fW + fM, F), w.eq(fW * mM, fM * mW)))
    else:
        if arg == 'kg/hr':
            s = tmo.MultiStream('feed', l=[('Water', mW)], g=[('Methanol', mM)], units='kg/hr', **kw)
            exp = {('l', cas['Water']): mW / MW['Water'], ('g', cas['Methanol']): mM / MW['Methanol']}
            w.ensure('constructor: mass flows as given', eq_map(w, {k: v for k, v in obs(s)['flows'].items()}, exp))
        else:
            F = w.real('F', lo=0., lo_strict=True)
            s = tmo.MultiStream('feed', l=[('Water', mW)], g=[('Methanol', mM)], total_flow=F, **kw)
            o = obs(s)
            fW, fM = o['flows'].get(('l', cas['Water']), 0.), o['flows'].get(('g', cas['Methanol']), 0.)
            w.ensure('constructor: total flow as given, composition as given', w.And(w.eq(fW + fM, F), w.eq(fW * mM, fM * mW)))
    o = obs(s)
    w.ensure('constructor: ID, T, P, price and characterization factors as given',
             w.And(s.ID == 'feed', w.eq(o['T'], T), w.eq(o['P'], P), w.eq(s.price, price), set(s.characterization_factors) == {'GWP'},
                   w.eq(s.characterization_factors['GWP'], cf['GWP'])))
    w.ensure('constructor: flows read by (phase, ID) and through the mass accessors are the flows of the stream', w.And(by_name_ok(w, s), mass_ok(w, s)))
    for r in unpickled(w, s, keep):
        orr = obs(r)
        w.ensure('pickle: same ID and class', w.And(r.ID == s.ID, type(r) is type(s)))
        w.ensure('pickle: same flows and phase(s)', w.And(o['phases'] == orr['phases'], eq_map(w, o['flows'], orr['flows'])))
        w.ensure('pickle: same T and P', same_TP(w, o, orr))
        w.ensure('pickle: same price and characterization factors',
                 w.And(w.eq(r.price, price), set(r.characterization_factors) == {'GWP'}, w.eq(r.characterization_factors['GWP'], cf['GWP'])))
        w.ensure('pickle: no container shared with the original',
                 w.And(shared_roles(r, s) == [], r.characterization_factors is not s.characterization_factors))
        w.ensure('pickle: flows read by (phase, ID) and through the mass accessors are the flows of the unpickled stream', w.And(by_name_ok(w, r), mass_ok(w, r)))
    w.canary('canary: unpickled price + 1', w.eq(s.price, price + 1))


# =========================================================================== pickling: chemicals and property packages with user-defined state (bounded)

PKG_NOTES = ('native only (real pickle.dumps/loads; nothing symbolic): Water/Ethanol/Methanol packages built for the check; chemical groups '
             '(define_group, by mole and by weight), aliases (set_alias), a copied chemical with changed constants, a blank user-defined solid, '
             'a chemical with locked phase, Thermo with non-default Gamma/Phi/PCF, IdealThermo, mixture with excess energies, activity-coefficient '
             'objects, streams and reactions on a package with groups, thermosteam.utils.pickle.save/load to a temporary file; '
             'numbers compared at T = 320 K, P = 101325 Pa, x = (0.2, 0.3, 0.5) with 1e-12 relative tolerance')
PKG_CASES = ['groups:mol', 'groups:wt', 'groups:stream', 'groups:reaction', 'groups:thermo', 'aliases', 'chemical:copied', 'chemical:blank',
             'chemical:locked', 'thermo:non-default', 'thermo:ideal', 'mixture:excess', 'gamma-objects', 'save-load:stream', 'save-load:reaction',
             'chemicals:plain']


def pkg_configs(tier):
    return [{'name': f'case={c}', 'case': c} for c in PKG_CASES]


def _fresh_chemicals(IDs=('Water', 'Ethanol', 'Methanol')):
    return tmo.CompiledChemicals([W.chemical(i).copy(i, CAS=W.chemical(i).CAS) for i in IDs])


def _close(a, b):
    a = numpy.asarray(a, float); b = numpy.asarray(b, float)
    return a.shape == b.shape and bool(numpy.all(numpy.abs(a - b) <= 1e-12 * numpy.maximum(1., numpy.maximum(numpy.abs(a), numpy.abs(b)))))


def _groups_state(ch):
    return {g: ([ch.IDs[i] for i in ch._index[g]], list(ch._group_mol_compositions[g]), list(ch._group_wt_compositions[g])) for g in sorted(ch.chemical_groups)}


def _groups_eq(a, b):
    sa, sb = _groups_state(a), _groups_state(b)
    return set(sa) == set(sb) and all(sa[g][0] == sb[g][0] and _close(sa[g][1], sb[g][1]) and _close(sa[g][2], sb[g][2]) for g in sa)


def _rt(x):
    return pickle.loads(pickle.dumps(x))


@group('C13/gap_pickle_packages', configs=pkg_configs, mode='B', notes=PKG_NOTES,
       functions=['thermosteam._chemicals:CompiledChemicals.__reduce__', 'thermosteam._chemicals:CompiledChemicals.define_group',
                  'thermosteam._chemicals:CompiledChemicals.set_alias', 'thermosteam._chemical:Chemical.__reduce__',
                  'thermosteam._chemical:unpickle_chemical', 'thermosteam._chemical:get_chemical_data', 'thermosteam._chemical:Chemical.copy',
                  'thermosteam._thermo:Thermo', 'thermosteam._thermo:IdealThermo', 'thermosteam._thermo:Thermo.ideal',
                  'thermosteam.utils.pickle:cucumber', 'thermosteam.utils.pickle:get_state', 'thermosteam.utils.pickle:new_from_state',
                  'thermosteam.utils.pickle:save', 'thermosteam.utils.pickle:load',
                  'thermosteam.equilibrium.activity_coefficients:GroupActivityCoefficients.__reduce__',
                  'thermosteam.equilibrium.poyinting_correction_factors:PoyintingCorrectionFactors.__reduce__',
                  'thermosteam._stream:Stream.__reduce__', 'thermosteam._stream:Stream.from_data'])
def pickle_packages(w, cfg):
    """Pickling and unpickling a chemical or a property package yields an object with identical observable state --
    including the state a user gave it after construction (groups, aliases, changed constants, chosen model classes)."""
    W.reset_caches()
    case = cfg['case']
    T, P = 320., 101325.
    x = numpy.array([0.2, 0.3, 0.5])
    if case.startswith('groups') or case == 'aliases' or case == 'chemicals:plain':
        ch = _fresh_chemicals()
        if case.startswith('groups'):
            wt = case == 'groups:wt'
            ch.define_group('Alcohols', ['Ethanol', 'Methanol'], composition=[0.3, 0.7], wt=wt)
            ch.define_group('Light', ['Methanol', 'Water'])
        elif case == 'aliases':
            ch.set_alias('Water', 'H2O_')
            ch.set_alias('Ethanol', 'EtOH_')
        th = tmo.Thermo(ch)
        if case in ('groups:mol', 'groups:wt', 'aliases', 'chemicals:plain'):
            r = _rt(ch)
            w.ensure('same chemicals in the same order', w.And(r.IDs == ch.IDs, r.CASs == ch.CASs, _close(r.MW, ch.MW)))
            w.ensure('same chemical groups (members and default compositions)', _groups_eq(r, ch), got=_groups_state(r), want=_groups_state(ch))
            if case == 'aliases':
                w.ensure('same aliases', w.And(r.index('H2O_') == ch.index('H2O_'), r.index('EtOH_') == ch.index('EtOH_'), r.H2O_.ID == 'Water'))
            if case.startswith('groups'):
                ok = True
                try:
                    ok = r.get_index('Alcohols') == ch.get_index('Alcohols') and r.get_index(('Water', 'Alcohols')) == ch.get_index(('Water', 'Alcohols')) \
                        and [c.ID for c in r.Alcohols] == [c.ID for c in ch.Alcohols]
                except Exception:
                    ok = False
                w.ensure('groups resolve by name as in the original', ok)
        elif case == 'groups:thermo':
            r = _rt(th)
            w.ensure('same chemicals and chemical groups', w.And(r.chemicals.IDs == ch.IDs, _groups_eq(r.chemicals, ch)), got=_groups_state(r.chemicals))
            w.ensure('same model classes', w.And(r.Gamma is th.Gamma, r.Phi is th.Phi, r.PCF is th.PCF, type(r.mixture) is type(th.mixture)))
        elif case == 'groups:stream':
            for cls in ('Stream', 'MultiStream'):
                if cls == 'Stream':
                    s = tmo.Stream(None, Alcohols=10., Water=1., units='kg/hr', thermo=th, price=0.3)
                else:
                    s = tmo.MultiStream(None, l=[('Alcohols', 10.), ('Water', 1.)], g=[('Light', 2.)], thermo=th, price=0.3)
                r = _rt(s)
                w.ensure(f'{cls}: same chemical groups in the package of the unpickled stream', _groups_eq(r.chemicals, ch), got=_groups_state(r.chemicals))
                ok = True
                try:
                    ok = _close(r.imol['Alcohols'], s.imol['Alcohols']) and _close(r.imass['Alcohols'], s.imass['Alcohols']) and _close(r.imol['Light'], s.imol['Light']) \
                        and _close(r.mol, s.mol) and _close(r.price, s.price)
                except Exception:
                    ok = False
                w.ensure(f'{cls}: flows read by group name as in the original', ok)
        elif case == 'groups:reaction':
            rx = tmo.Reaction('Water -> Ethanol', reactant='Water', X=0.4, chemicals=ch)
            r = _rt(rx)
            w.ensure('same chemical groups in the package of the unpickled reaction', _groups_eq(r.chemicals, ch), got=_groups_state(r.chemicals))
            w.ensure('same conversion and stoichiometry', w.And(_close(r.X, rx.X), _close(numpy.asarray(r.stoichiometry), numpy.asarray(rx.stoichiometry))))
    elif case.startswith('chemical:'):
        base = W.chemical('Water')
        if case == 'chemical:copied':
            c = base.copy('Water2')
            c.Tb = 400.; c.Hf = -1.5e5; c._aliases.add('Wasser')
            state = lambda q: (q.ID, q.CAS, q.MW, q.Tb, q.Hf, sorted(q.aliases), q.H('l', T, P), q.S('g', T, P), q.V('l', T, P), q.Psat(T), q.Cn('l', T))
        elif case == 'chemical:blank':
            c = tmo.Chemical.blank('Solid_', phase='s', formula='C6H12O6', Hf=-1.27e6)
            c.default()
            state = lambda q: (q.ID, q.CAS, q.MW, q.formula, q.Hf, q.locked_state, q.phase_ref, q.V(T, P), q.Cn(T), q.H(T, P))
        else:
            c = tmo.Chemical('Glucose', phase='s')
            state = lambda q: (q.ID, q.CAS, q.MW, q.formula, q.Hf, q.locked_state, q.phase_ref, q.V(T, P), q.Cn(T), q.H(T, P), q.S(T, P))
        r = _rt(c)
        sa, sb = state(r), state(c)
        w.ensure('same observable state (constants, aliases, locked phase, property values)',
                 all((_close(a, b) if isinstance(a, float) else a == b) for a, b in zip(sa, sb)), got=str(sa), want=str(sb))
        w.ensure('not the same object', r is not c)
        pkg = tmo.CompiledChemicals([c, W.chemical('Ethanol')])      # (compiling may add formula aliases to the chemical: compare with its state now)
        sb = state(c)
        cc = _rt(pkg)
        w.ensure('same observable state inside a pickled package', all((_close(a, b) if isinstance(a, float) else a == b) for a, b in zip(state(cc.tuple[0]), sb)),
                 got=str(state(cc.tuple[0])), want=str(sb))
    elif case in ('thermo:non-default', 'thermo:ideal', 'mixture:excess'):
        ch = _fresh_chemicals()
        eq = tmo.equilibrium
        if case == 'thermo:non-default':
            th = tmo.Thermo(ch, Gamma=eq.IdealActivityCoefficients, Phi=eq.IdealFugacityCoefficients, PCF=eq.IdealGasPoyintingCorrectionFactors)
        elif case == 'mixture:excess':
            th = tmo.Thermo(ch, mixture=tmo.mixture.IdealMixture.from_chemicals(ch, include_excess_energies=True))
        else:
            th = tmo.Thermo(ch).ideal()
        r = _rt(th)
        w.ensure('same class and chemicals', w.And(type(r) is type(th), r.chemicals.IDs == ch.IDs))
        w.ensure('same model classes', w.And(r.Gamma is th.Gamma, r.Phi is th.Phi, r.PCF is th.PCF, type(r.mixture) is type(th.mixture)))
        w.ensure('same mixture settings and values',
                 w.And(r.mixture.include_excess_energies == th.mixture.include_excess_energies,
                       *[_close(getattr(r.mixture, f)('l', x, T, P), getattr(th.mixture, f)('l', x, T, P)) for f in ('H', 'S', 'Cn', 'V', 'mu')]))
    elif case == 'gamma-objects':
        ch = _fresh_chemicals()
        eq = tmo.equilibrium
        for cls in (eq.DortmundActivityCoefficients, eq.UNIFACActivityCoefficients, eq.IdealActivityCoefficients):
            g = cls(ch.tuple)
            r = _rt(g)
            w.ensure(f'{cls.__name__}: same class, chemicals and values', w.And(type(r) is type(g), [c.ID for c in r.chemicals] == [c.ID for c in g.chemicals],
                                                                                  _close(r(x, T), g(x, T))))
        for cls in (eq.IdealGasPoyintingCorrectionFactors, eq.MockPoyintingCorrectionFactors):
            g = cls(ch.tuple)
            r = _rt(g)
            w.ensure(f'{cls.__name__}: same class, chemicals and values', w.And(type(r) is type(g), [c.ID for c in r.chemicals] == [c.ID for c in g.chemicals],
                                                                                  _close(r(T, 2e5, numpy.array([1e5, 5e4, 2e4])), g(T, 2e5, numpy.array([1e5, 5e4, 2e4])))))
    elif case.startswith('save-load'):
        from thermosteam.utils import pickle as tp
        th = W.thermo(A)
        d = tempfile.mkdtemp(prefix='verif_C13_')
        f = os.path.join(d, 'obj.pkl')
        try:
            if case == 'save-load:stream':
                s = tmo.MultiStream(None, l=[('Water', 3.)], g=[('Methanol', 2.)], T=350., P=2e5, price=0.25, characterization_factors={'GWP': 1.5}, thermo=th)
                tp.save(s, f)
                r = tp.load(f)
                o, orr = obs(s), obs(r)
                w.ensure('same flows, phases, T, P, price and characterization factors',
                         w.And(same_obs(w, o, orr), w.eq(r.price, s.price), r.characterization_factors == s.characterization_factors, shared_roles(r, s) == []))
            else:
                rx = tmo.ParallelReaction([tmo.Reaction('Water -> Ethanol', reactant='Water', X=0.4, chemicals=th.chemicals),
                                           tmo.Reaction('Methanol -> Ethanol', reactant='Methanol', X=0.7, chemicals=th.chemicals)])
                tp.save(rx, f)
                r = tp.load(f)
                w.ensure('same class, conversions and stoichiometry', w.And(type(r) is type(rx), _close(r.X, rx.X),
                                                                           all(_close(numpy.asarray(a.to_array() if hasattr(a, 'to_array') else a), numpy.asarray(b.to_array() if hasattr(b, 'to_array') else b))
                                                                               for a, b in zip(r._stoichiometry, rx._stoichiometry))))
        finally:
            if os.path.exists(f): os.remove(f)
            os.rmdir(d)
    else:
        raise ValueError(case)
    w.canary('canary (not evaluated in mode B)', False)
