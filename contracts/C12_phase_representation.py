# -*- coding: utf-8 -*-
"""
C12 — changing how a stream represents phases never changes what it contains.

Contracts (sidecar) on the real functions.  One generic step contract per operation
(`_step`), stated over the observable pre-state and post-state of the real stream:

  * per-chemical totals, T and P are unchanged (T, P live in the *same* ThermalCondition object);
  * every non-empty phase p keeps its material in the row labelled p, or in the row with the
    other-case label only when the exact label p is absent from the resulting phase set;
    every other row entry is zero (frame);
  * the class is Stream for one phase, MultiStream otherwise (where the statement fixes it);
  * phase views (`ms[p]`) are live both ways and share T and P, also after the parent's phases change;
    a view asked for through a label whose exact row is absent (`ms['L']` on (g, l)) is the view of the
    other-case row, every time it is asked for: before and after any change of the phase set, whether the
    set is rebuilt (phases setter, accessors, reduce, restore) or grows in place (copy_like from a stream
    with more phases), and it is the view of the exact row as soon as that row exists;
  * `set_data(get_data())` at any later time reproduces flows, phases, T, P and class.

The groups enumerate sources (Stream of each phase / MultiStream over each phase subset, with
planted contents) and operations or operation sequences.  Operations that are not inside the
property's quantifier in the current state (target phase set not covering a non-empty phase up to
case, view of an absent phase, ...) are skipped at run time; the exhaustive one-operation groups
are generated so that the operation always applies (otherwise the configuration fails).
"""
import itertools
import random
import thermosteam as tmo
from thermosteam import equilibrium as eq
from engine.api import group, CheckAbort
from engine.sx import tmo_world as W
from engine.sx import sym as _sym

PH = ('s', 'l', 'g', 'S', 'L')
IDS = ('Water', 'Ethanol')
W.preload([IDS])


def _swap(p):
    """The other-case label of a liquid/solid phase (the gas label has none)."""
    return {'l': 'L', 'L': 'l', 's': 'S', 'S': 's'}.get(p, p)


def _ptuple(ps):
    return tuple(sorted(set(ps)))


def _covers(target, phases):
    return all(p in target or _swap(p) in target for p in phases)


# --------------------------------------------------------------------------- sources

def _src(kind, phases, pos, maybe):
    return {'kind': kind, 'phases': ''.join(phases), 'pos': ''.join(pos), 'maybe': ''.join(maybe)}


def _src_name(src):
    return f"{src['kind']}:{src['phases']}/w={src['pos'] or '-'}/e={src['maybe'] or '-'}"


def _possibly_nonempty(src):
    return set(src['pos']) | set(src['maybe'])


def _subsets(minsize=2):
    out = []
    for k in range(minsize, 6):
        out += [''.join(c) for c in itertools.combinations(PH, k)]
    return out


def sources(tier, multi_only=False, small=False):
    """Stream of each phase and MultiStream over each phase subset, with planted contents.
    Water is strictly positive in the rows `pos`; Ethanol may or may not be present in the rows `maybe`."""
    out = []
    if not multi_only:
        for p in PH:
            out.append(_src('S', p, p, p))        # Water > 0, Ethanol maybe
            out.append(_src('S', p, '', p))       # empty or Ethanol only
            out.append(_src('S', p, '', ''))      # empty
    subs = _subsets(2)
    if small:
        subs = ['lg', 'lL', 'sl', 'gL', 'slg', 'lgL', 'slgSL']
    for ph in subs:
        if tier == 'thorough' and not small:
            for k in range(len(ph) + 1):
                for pos in itertools.combinations(ph, k):
                    rest = [p for p in ph if p not in pos]
                    maybe = rest[-1] if rest else ph[-1]
                    out.append(_src('M', ph, pos, maybe))
        else:
            out.append(_src('M', ph, ph, ph[-1]))             # every row non-empty
            out.append(_src('M', ph, ph[0], ph[-1]))          # first row non-empty, last maybe
            out.append(_src('M', ph, '', ph[0]))              # empty or one row
            if len(ph) == 2: out.append(_src('M', ph, '', ''))    # empty
            if len(ph) > 2:
                out.append(_src('M', ph, ph[1:], ph[0]))      # all but the first, first maybe
    if not multi_only:
        for p in (PH if tier == 'thorough' else ('l', 'S')):
            out.append(_src('M', p, p, p))       # one-phase MultiStream
    seen = set(); res = []
    for s in out:
        n = _src_name(s)
        if n not in seen:
            seen.add(n); res.append(s)
    return res


def _build(w, src):
    present = {'default': 'zero'}
    for p in src['pos']: present[p, 'Water'] = 'pos'
    for p in src['maybe']: present[p, 'Ethanol'] = 'maybe'
    phases = src['phases'] if src['kind'] == 'S' else tuple(src['phases'])
    s, leaves = W.make_stream(w, 'a', IDS, phases, present=present)
    s.T = w.real('T0', lo=0., lo_strict=True)
    s.P = w.real('P0', lo=0., lo_strict=True)
    return s, leaves


# --------------------------------------------------------------------------- the step contract

class _State:
    pass


def _obs(s):
    o = W.snapshot(s)
    o['T'] = s.T
    o['P'] = s.P
    o['obj'] = type(s)
    return o


def _nonempty(o):
    return sorted({p for (p, c) in o['flows']})


def _dest(p, phases):
    if p in phases: return p
    q = _swap(p)
    return q if q in phases else None


def _rows_clauses(w, tag, st, pre_flows, post):
    """The material sentence of the property over the whole image: every (row, chemical) of the post-state."""
    tgt = post['phases']
    exp = {}
    lost = []
    for (p, cas), v in pre_flows.items():
        q = _dest(p, tgt)
        if q is None:
            lost.append(p)
            continue
        exp[q, cas] = exp.get((q, cas), 0.) + v
    w.ensure(f'{tag}: every non-empty phase keeps a row (same label, or other case only when the exact label is absent)',
             w.And(not lost), lost=sorted(set(lost)), phases=tgt)
    for q in tgt:
        w.ensure(f'{tag}: row {q} holds exactly the material of phase {q} (plus {_swap(q)} only if that label is absent)',
                 w.And(*[w.eq(post['flows'].get((q, cas), 0.), exp.get((q, cas), 0.)) for cas in st.CASs]))
    tot = {c: 0. for c in st.CASs}
    for (p, cas), v in post['flows'].items():
        tot[cas] = tot[cas] + v
    want = {c: 0. for c in st.CASs}
    for (p, cas), v in pre_flows.items():
        want[cas] = want[cas] + v
    for cas in st.CASs:
        w.ensure(f'{tag}: total[{cas}] unchanged', w.eq(tot[cas], want[cas]))


def _common_clauses(w, tag, st, post, T, P, word='unchanged'):
    """T, P are the values expected after the step: those of the pre-state unless the step writes / restores them."""
    s = st.s
    w.ensure(f'{tag}: T {word}', w.eq(post['T'], T))
    w.ensure(f'{tag}: P {word}', w.eq(post['P'], P))
    w.ensure(f'{tag}: same thermal condition object', w.And(s._thermal_condition is st.tc))
    w.ensure(f'{tag}: rep_ok', W.rep_ok(w, s))
    # views obtained earlier belong to this multi-phase incarnation only; a view obtained through an
    # interchangeable label (exact label absent) is followed only while the phase set stays what it was
    # when the view was taken (what it denotes afterwards depends on whether the exact label appeared)
    if post['class'] != 'MultiStream':
        st.held.clear()
    else:
        for p in list(st.held):
            at = st.held_at[p]
            if not (p in post['phases'] if p in at else at == post['phases']): del st.held[p]


def _class_clause(w, tag, post, single):
    w.ensure(f'{tag}: class is Stream for one phase, MultiStream otherwise',
             w.And(post['class'] == ('Stream' if single else 'MultiStream'), (len(post['phases']) == 1) == single),
             cls=post['class'], phases=post['phases'])


def _alias_labels(phases):
    """Labels that are not in the phase set but denote one of its rows (other case, exact label absent)."""
    return [a for a in PH if a not in phases and _swap(a) in phases]


def _view_reads(w, tag, st, post, fresh=()):
    """Parent -> view visibility: the phase views taken so far (and `ms[p]` for p in fresh) read the parent's row, T and P.
    A label whose exact row is absent denotes the row with the other-case label."""
    s = st.s
    if post['class'] != 'MultiStream': return
    IDs = s.chemicals.IDs
    for p in (*post['phases'], *_alias_labels(post['phases'])):
        row = _dest(p, post['phases'])
        views = []
        if p in fresh: views.append(('view', s[p]))
        if p in st.held: views.append(('view obtained earlier', st.held[p]))
        for nm, v in views:
            if row == p:
                w.ensure(f'{tag}: {nm} of {p} reads the parent row, T and P',
                         w.And(*[w.eq(v.imol[ID], post['flows'].get((p, cas), 0.)) for ID, cas in zip(IDs, st.CASs)],
                               w.eq(v.T, post['T']), w.eq(v.P, post['P']), v._thermal_condition is s._thermal_condition,
                               v.phase == p))
            else:
                w.ensure(f'{tag}: {nm} through label {p} (exact label absent) reads the parent row {row}, T and P',
                         w.And(*[w.eq(v.imol[ID], post['flows'].get((row, cas), 0.)) for ID, cas in zip(IDs, st.CASs)],
                               w.eq(v.T, post['T']), w.eq(v.P, post['P']), v._thermal_condition is s._thermal_condition))


_ENGINE_EXC = (_sym.EngineUnsupported, _sym.EngineNondeterminism, _sym.PathCap, _sym.Infeasible, CheckAbort)


def _call(w, tag, fn, allowed=()):
    """Run the real operation; an exception the contract does not allow is the failed clause '<step>: no exception'."""
    try:
        return fn()
    except _ENGINE_EXC:
        raise
    except allowed:
        raise
    except Exception as e:
        if isinstance(e, TypeError) and 'SymReal' in str(e): raise
        w.ensure(f'{tag}: no exception', w.And(False), exception=f'{type(e).__name__}: {e}'[:200])
        raise CheckAbort()


def _step(w, st, i, op, must_apply=False):
    """Execute one operation on the real stream and state its contract.  Returns False if skipped."""
    s = st.s
    kind = op[0]
    arg = op[1] if len(op) > 1 else None
    tag = f'#{i} {kind}' + (f':{arg}' if arg else '')
    pre = _obs(s)
    if kind in ('vle', 'lle', 'sle'):
        # the receiver is part of the clause name: Stream and MultiStream have separate accessor implementations
        tag += '@Stream:' + pre['phases'][0] if pre['class'] == 'Stream' else '@MultiStream'
    ne = _nonempty(pre)
    multi = pre['class'] == 'MultiStream'
    phases = pre['phases']

    def skip():
        if must_apply:
            raise RuntimeError(f'configuration error: {op} does not apply to {pre["class"]}{phases} with non-empty {ne}')
        return False

    flows = dict(pre['flows'])

    # ---- conversions with a caller-chosen target
    if kind in ('set', 'add', 'drop'):
        if kind == 'set':
            target = tuple(arg)
        elif kind == 'add':
            if arg in phases: return skip()
            target = (*phases, arg)
        else:
            if arg not in phases or arg in ne or len(phases) < 2: return skip()
            target = tuple(p for p in phases if p != arg)
        if not _covers(target, ne): return skip()
        _call(w, tag, lambda: setattr(s, 'phases', target))
        post = _obs(s)
        w.ensure(f'{tag}: phases are the requested set', w.And(post['phases'] == _ptuple(target)), got=post['phases'])
        _class_clause(w, tag, post, len(set(target)) == 1)
        _rows_clauses(w, tag, st, flows, post)
        _common_clauses(w, tag, st, post, pre['T'], pre['P'])
        _view_reads(w, tag, st, post)
    elif kind == 'single':
        if not _covers((arg,), ne): return skip()
        _call(w, tag, lambda: setattr(s, 'phase', arg))
        post = _obs(s)
        w.ensure(f'{tag}: phases are the requested set', w.And(post['phases'] == (arg,)), got=post['phases'])
        _class_clause(w, tag, post, True)
        _rows_clauses(w, tag, st, flows, post)
        _common_clauses(w, tag, st, post, pre['T'], pre['P'])
    # ---- conversions where the code chooses the target
    elif kind == 'as_stream':
        groups = {p.lower() for p in ne}
        try:
            _call(w, tag, s.as_stream, allowed=RuntimeError)
        except RuntimeError:
            post = _obs(s)
            w.ensure(f'{tag}: refuses only when several phases are non-empty', w.And(len(groups) > 1), nonempty=ne)
            w.ensure(f'{tag}: unchanged when refused',
                     w.And(W.same_snapshot(w, pre, post), post['obj'] is pre['obj']))
        else:
            post = _obs(s)
            w.ensure(f'{tag}: converts only when at most one phase is non-empty', w.And(len(groups) <= 1), nonempty=ne)
            _class_clause(w, tag, post, True)
            _rows_clauses(w, tag, st, flows, post)
        _common_clauses(w, tag, st, post, pre['T'], pre['P'])
    elif kind == 'reduce':
        _call(w, tag, s.reduce_phases)
        post = _obs(s)
        dests = [_dest(p, post['phases']) for p in ne]
        w.ensure(f'{tag}: distinct non-empty phases are not merged', w.And(len(set(dests)) == len(ne)),
                 nonempty=ne, phases=post['phases'])
        if multi:
            w.ensure(f'{tag}: only phases actually present remain',
                     w.And(set(post['phases']) == set(dests) if ne else len(post['phases']) == 1),
                     nonempty=ne, phases=post['phases'])
            _class_clause(w, tag, post, len(post['phases']) == 1)
        else:
            w.ensure(f'{tag}: single-phase stream untouched', w.And(post['phases'] == phases, post['class'] == 'Stream'))
        _rows_clauses(w, tag, st, flows, post)
        _common_clauses(w, tag, st, post, pre['T'], pre['P'])
        _view_reads(w, tag, st, post)
    elif kind in ('vle', 'lle', 'sle'):
        need, cls = {'vle': ('g', 'l'), 'lle': ('L', 'l'), 'sle': ('l', 's')}[kind], \
                    {'vle': eq.VLE, 'lle': eq.LLE, 'sle': eq.SLE}[kind]
        solver = _call(w, tag, lambda: getattr(s, kind))
        post = _obs(s)
        w.ensure(f'{tag}: phase set extended by the solver phases',
                 w.And(all(p in post['phases'] for p in need)), phases=post['phases'])
        _class_clause(w, tag, post, False)
        w.ensure(f'{tag}: solver object of this stream',
                 w.And(isinstance(solver, cls), solver._imol is s._imol, solver._thermal_condition is s._thermal_condition))
        _rows_clauses(w, tag, st, flows, post)
        _common_clauses(w, tag, st, post, pre['T'], pre['P'])
        _view_reads(w, tag, st, post)
    # ---- writes through a phase view / through the parent
    elif kind in ('vwrite', 'vread'):
        # the label may be an interchangeable one: with the exact label absent it denotes the other-case row
        row = _dest(arg, phases) if multi else None
        if row is None: return skip()
        v = _call(w, tag, lambda: s[arg])
        if kind == 'vwrite':
            x = w.real(f'x{i}', lo=0., lo_strict=True)
            v.imol['Water'] = x
            cas = st.CASs[0]
            st.total[cas] = st.total[cas] - flows.get((row, cas), 0.) + x
            flows[row, cas] = x
        post = _obs(s)
        if kind == 'vwrite':
            w.ensure(f'{tag}: write through the view is visible in the parent', w.eq(s.imol[arg, 'Water'], x))
            if row != arg:
                w.ensure(f'{tag}: write through the label {arg} (exact label absent) lands in the row {row}',
                         w.eq(s.imol[row, 'Water'], x))
        w.ensure(f'{tag}: phases and class unchanged', w.And(post['phases'] == phases, post['class'] == pre['class']))
        _rows_clauses(w, tag, st, flows, post)
        _common_clauses(w, tag, st, post, pre['T'], pre['P'])
        _view_reads(w, tag, st, post, fresh=(arg,))
        if arg not in st.held:
            st.held[arg] = v
            st.held_at[arg] = phases
    elif kind == 'pwrite':
        if arg not in phases: return skip()
        x = w.real(f'x{i}', lo=0., lo_strict=True)
        if multi:
            s.imol[arg, 'Ethanol'] = x
        else:
            s.imol['Ethanol'] = x
        cas = st.CASs[1]
        st.total[cas] = st.total[cas] - flows.get((arg, cas), 0.) + x
        flows[arg, cas] = x
        post = _obs(s)
        w.ensure(f'{tag}: phases and class unchanged', w.And(post['phases'] == phases, post['class'] == pre['class']))
        _rows_clauses(w, tag, st, flows, post)
        _common_clauses(w, tag, st, post, pre['T'], pre['P'])
        _view_reads(w, tag, st, post, fresh=(arg,) if multi else ())
    elif kind == 'TP':
        t = w.real(f't{i}', lo=0., lo_strict=True)
        pp = w.real(f'p{i}', lo=0., lo_strict=True)
        s.T = t
        if multi:
            v = s[phases[-1]]
            v.P = pp       # through a view
        else:
            s.P = pp
        st.T, st.P = t, pp
        post = _obs(s)
        w.ensure(f'{tag}: T and P written through parent / view are read back by the parent',
                 w.And(w.eq(s.T, t), w.eq(s.P, pp)))
        w.ensure(f'{tag}: phases and class unchanged', w.And(post['phases'] == phases, post['class'] == pre['class']))
        _rows_clauses(w, tag, st, flows, post)
        _common_clauses(w, tag, st, post, t, pp, word='as written')
        _view_reads(w, tag, st, post, fresh=phases if multi else ())
        if multi and phases[-1] not in st.held:
            st.held[phases[-1]] = v
            st.held_at[phases[-1]] = phases
    # ---- the phase set grows in place: the stream takes over the contents and phases of another multi-phase stream
    elif kind == 'copy_from':
        # Only the sentences about phase views, T and P are stated here: what the stream contains afterwards is the
        # business of copy_like's own contract; the observed contents are taken as the new reference.
        if not multi: return skip()
        present = {'default': 'zero'}
        for p in arg: present[p, 'Ethanol'] = 'pos'
        other, _ = W.make_stream(w, f'o{i}', IDS, tuple(arg), present=present)
        other.T = t = w.real(f't{i}', lo=0., lo_strict=True)
        other.P = pp = w.real(f'p{i}', lo=0., lo_strict=True)
        _call(w, tag, lambda: s.copy_like(other))
        st.T, st.P = t, pp
        post = _obs(s)
        st.total = W.total_by_CAS(s)
        w.ensure(f'{tag}: still multi-phase, with a row for every phase of the other stream (up to case)',
                 w.And(post['class'] == 'MultiStream', _covers(post['phases'], tuple(arg))), phases=post['phases'])
        _common_clauses(w, tag, st, post, t, pp, word='as copied')
        _view_reads(w, tag, st, post, fresh=(*post['phases'], *_alias_labels(post['phases'])))
    # ---- save / restore
    elif kind == 'save':
        st.saved = {'data': s.get_data(), 'obs': pre, 'total': dict(st.total)}
        post = _obs(s)
        w.ensure(f'{tag}: saving changes nothing', w.And(W.same_snapshot(w, pre, post), post['obj'] is pre['obj']))
        _common_clauses(w, tag, st, post, pre['T'], pre['P'])
    elif kind == 'restore':
        if st.saved is None: return skip()
        sv = st.saved
        _call(w, tag, lambda: s.set_data(sv['data']))
        st.T, st.P = sv['obs']['T'], sv['obs']['P']
        st.total = dict(sv['total'])
        post = _obs(s)
        # the statement fixes flows, phases, T and P; the class only as far as the number of phases does
        w.ensure(f'{tag}: phases restored',
                 w.And(post['phases'] == sv['obs']['phases'],
                       post['class'] == sv['obs']['class'] or (len(post['phases']) == 1 and post['class'] == 'Stream')),
                 got=(post['class'], post['phases']), saved=(sv['obs']['class'], sv['obs']['phases']))
        keys = sorted(set(sv['obs']['flows']) | set(post['flows']))
        w.ensure(f'{tag}: flows restored exactly',
                 w.And(*[w.eq(post['flows'].get(k, 0.), sv['obs']['flows'].get(k, 0.)) for k in keys]))
        for cas in st.CASs:
            w.ensure(f'{tag}: total[{cas}] restored',
                     w.eq(sum([v for (p, c), v in post['flows'].items() if c == cas], 0.),
                          sum([v for (p, c), v in sv['obs']['flows'].items() if c == cas], 0.)))
        _common_clauses(w, tag, st, post, sv['obs']['T'], sv['obs']['P'], word='restored')
        _view_reads(w, tag, st, post)
    else:
        raise RuntimeError(f'unknown operation {op}')
    st.applied += 1
    return True


def _run(w, cfg, canary):
    W.reset_caches()
    s, leaves = _build(w, cfg['src'])
    st = _State()
    st.s = s
    st.CASs = s.chemicals.CASs
    st.tc = s._thermal_condition
    st.T, st.P = s.T, s.P
    st.total = W.leaves_total_by_CAS(s, leaves)
    st.held = {}
    st.held_at = {}
    st.saved = None
    st.applied = 0
    first = dict(st.total)
    for i, op in enumerate(cfg['ops']):
        _step(w, st, i, tuple(op), must_apply=cfg.get('must_apply', False))
    got = W.total_by_CAS(s)
    for cas in st.CASs:
        w.ensure(f'end: total[{cas}] is what was planted and written', w.eq(got[cas], st.total[cas]))
    w.ensure('end: T, P are what was planted and written', w.And(w.eq(s.T, st.T), w.eq(s.P, st.P)))
    c0 = st.CASs[0]
    if canary == 'total':
        w.canary('canary: total changes by 1', w.eq(got[c0], st.total[c0] + 1))
    elif canary == 'T':
        w.canary('canary: T changes by 1', w.eq(s.T, st.T + 1))
    w.note(applied=st.applied, phases=s.phases, cls=type(s).__name__, total=got, first=first)


def _opname(op):
    return op[0] + (':' + ''.join(op[1]) if len(op) > 1 else '')


def _cfg(src, ops, must_apply=False):
    d = {'name': f"src={_src_name(src)};ops=" + ','.join(_opname(o) for o in ops), 'src': src,
         'ops': [list(o) for o in ops]}
    if must_apply: d['must_apply'] = True
    return d


def _all_targets():
    out = []
    for k in range(1, 6):
        out += [''.join(c) for c in itertools.combinations(PH, k)]
    return out


# --------------------------------------------------------------------------- C12/set_phases

def set_configs(tier):
    out = []
    for src in sources(tier):
        ne = _possibly_nonempty(src)
        ph = src['phases']
        if tier == 'thorough':
            targets = [t for t in _all_targets() if _covers(t, ne)]
        else:
            cand = [ph, ''.join(PH), ''.join(sorted(ne)), ''.join(sorted({p.lower() for p in ne})),
                    ''.join(sorted({_swap(p) for p in ne})), ''.join(sorted(ne | {'g'})),
                    ''.join(sorted({p.lower() for p in ne} | {'S'})), ''.join(sorted({_swap(p) for p in ne} | {'l'})),
                    'lL', 'lg', 'sl', 'gSL', 'l', 'S']
            targets = []
            for t in cand:
                if t and _covers(t, ne) and t not in targets: targets.append(t)
        for t in targets:
            out.append(_cfg(src, [('set', t)], must_apply=True))
    return out


@group('C12/set_phases', configs=set_configs,
       functions=['thermosteam._stream:Stream.phases', 'thermosteam._multi_stream:MultiStream.phases',
                  'thermosteam._multi_stream:MultiStream.phase', 'thermosteam._stream:Stream.phase',
                  'thermosteam.indexer:ChemicalIndexer.to_material_indexer',
                  'thermosteam.indexer:MaterialIndexer.to_material_indexer',
                  'thermosteam.indexer:MaterialIndexer.to_chemical_indexer', 'thermosteam.indexer:MaterialIndexer.blank',
                  'thermosteam._phase:phase_tuple', 'thermosteam._phase:PhaseIndexer', 'thermosteam._phase:Phase.phase',
                  'thermosteam._multi_stream:MultiStream.reset_cache', 'thermosteam._multi_stream:MultiStream.__getitem__'])
def set_phases(w, cfg):
    _run(w, cfg, 'total')


# --------------------------------------------------------------------------- C12/to_single

def single_configs(tier):
    out = []
    for src in sources(tier):
        ne = _possibly_nonempty(src)
        for p in PH:
            if _covers((p,), ne):
                out.append(_cfg(src, [('single', p)], must_apply=True))
        out.append(_cfg(src, [('as_stream',)], must_apply=True))
        out.append(_cfg(src, [('reduce',)], must_apply=True))
    return out


@group('C12/to_single', configs=single_configs,
       functions=['thermosteam._multi_stream:MultiStream.phase', 'thermosteam._multi_stream:MultiStream.as_stream',
                  'thermosteam._multi_stream:MultiStream.reduce_phases', 'thermosteam._stream:Stream.as_stream',
                  'thermosteam._stream:Stream.reduce_phases', 'thermosteam._stream:Stream.phase',
                  'thermosteam.indexer:MaterialIndexer.to_chemical_indexer',
                  'thermosteam.indexer:MaterialIndexer.phases_are_empty',
                  'thermosteam.indexer:MaterialIndexer.to_material_indexer'])
def to_single(w, cfg):
    _run(w, cfg, 'total')


# --------------------------------------------------------------------------- C12/accessors

def accessor_configs(tier):
    out = []
    for src in sources(tier):
        for a in ('vle', 'lle', 'sle'):
            out.append(_cfg(src, [(a,)], must_apply=True))
            if src['kind'] == 'M' and len(src['phases']) <= 3:
                out.append(_cfg(src, [(a,), (a,)], must_apply=True))      # asking twice
    return out


@group('C12/accessors', configs=accessor_configs,
       functions=['thermosteam._stream:Stream.vle', 'thermosteam._stream:Stream.lle', 'thermosteam._stream:Stream.sle',
                  'thermosteam._multi_stream:MultiStream.vle', 'thermosteam._multi_stream:MultiStream.lle',
                  'thermosteam._multi_stream:MultiStream.sle', 'thermosteam._stream:Stream.phases',
                  'thermosteam._multi_stream:MultiStream.phases', 'thermosteam.utils.cache:Cache.retrieve'])
def accessors(w, cfg):
    _run(w, cfg, 'T')


# --------------------------------------------------------------------------- C12/views

def _phase_changes(ph):
    """Operations that change the phase set of a MultiStream over `ph` (applicability is decided at run time)."""
    out = [('add', p) for p in PH if p not in ph]
    out += [('drop', p) for p in ph]
    out += [('set', ''.join(PH)), ('vle',), ('lle',), ('sle',), ('reduce',)]
    return out


def view_configs(tier):
    out = []
    srcs = sources(tier, multi_only=True, small=(tier != 'thorough'))
    for src in srcs:
        ph = src['phases']
        for p in ph:
            out.append(_cfg(src, [('vwrite', p), ('pwrite', p), ('TP',)]))
            out.append(_cfg(src, [('TP',), ('pwrite', p), ('vwrite', p)]))
        ps = ph if tier == 'thorough' else (ph[0], ph[-1])
        for ch in _phase_changes(ph):
            for p in ps:
                # a view is taken, the parent's phases change, then both sides write again
                out.append(_cfg(src, [('vwrite', p), ch, ('vwrite', p), ('pwrite', p), ('TP',)]))
                out.append(_cfg(src, [('vwrite', p), ch, ('pwrite', p)]))
    seen = set(); res = []
    for c in out:
        if c['name'] not in seen:
            seen.add(c['name']); res.append(c)
    return res


@group('C12/views', configs=view_configs,
       functions=['thermosteam._multi_stream:MultiStream.__getitem__', 'thermosteam.indexer:MaterialIndexer.get_phase',
                  'thermosteam._multi_stream:MultiStream.phases', 'thermosteam._multi_stream:MultiStream.reset_cache',
                  'thermosteam.indexer:ChemicalIndexer.__setitem__', 'thermosteam.indexer:MaterialIndexer.__setitem__',
                  'thermosteam.indexer:ChemicalIndexer.__getitem__', 'thermosteam.indexer:MaterialIndexer.__getitem__',
                  'thermosteam._stream:Stream.T', 'thermosteam._stream:Stream.P', 'thermosteam._phase:LockedPhase'])
def views(w, cfg):
    _run(w, cfg, 'total')


# --------------------------------------------------------------------------- C12/save_restore

MUTATIONS = [('set', 'lg'), ('set', 'slg'), ('set', 'lL'), ('set', 'slgSL'), ('add', 's'), ('add', 'S'), ('add', 'L'),
             ('add', 'g'), ('single', 'l'), ('single', 'g'), ('single', 'L'), ('as_stream',), ('reduce',), ('vle',),
             ('lle',), ('sle',), ('vwrite', 'l'), ('vwrite', 'g'), ('vwrite', 's'), ('vwrite', 'L'), ('pwrite', 'l'),
             ('pwrite', 'g'), ('pwrite', 's'), ('pwrite', 'S'), ('TP',)]


def save_configs(tier):
    out = []
    srcs = sources(tier, small=(tier != 'thorough'))
    for src in srcs:
        out.append(_cfg(src, [('save',), ('restore',)]))
        for m in MUTATIONS:
            out.append(_cfg(src, [('save',), m, ('restore',)]))
    # two mutations between save and restore, and a second save/restore round
    pairs = list(itertools.product(MUTATIONS, MUTATIONS))
    small = sources('quick', small=True)
    base = [s for s in small if _src_name(s) in ('S:l/w=l/e=l', 'M:lg/w=lg/e=g', 'M:lL/w=l/e=L', 'M:slg/w=lg/e=s')]
    if tier != 'thorough':
        pairs = random.Random(12).sample(pairs, 80)
    for src in base:
        for a, b in pairs:
            out.append(_cfg(src, [('save',), a, b, ('restore',)]))
            if tier == 'thorough':
                out.append(_cfg(src, [a, ('save',), b, ('restore',), a, ('restore',)]))
    return out


@group('C12/save_restore', configs=save_configs,
       functions=['thermosteam._stream:Stream.get_data', 'thermosteam._stream:Stream.set_data',
                  'thermosteam._stream:StreamData', 'thermosteam.indexer:Indexer.copy',
                  'thermosteam.indexer:ChemicalIndexer.copy_like', 'thermosteam.indexer:MaterialIndexer.copy_like',
                  'thermosteam._thermal_condition:ThermalCondition.copy_like', 'thermosteam._stream:Stream.phases',
                  'thermosteam._multi_stream:MultiStream.phases'])
def save_restore(w, cfg):
    _run(w, cfg, 'T')


# --------------------------------------------------------------------------- C12/sequences

ALPHABET = [('set', 'lg'), ('set', 'lL'), ('set', 'slg'), ('set', 'gL'), ('add', 's'), ('add', 'L'), ('add', 'g'),
            ('drop', 'g'), ('drop', 's'), ('drop', 'L'), ('drop', 'l'), ('single', 'l'), ('single', 'g'), ('single', 'L'),
            ('as_stream',), ('reduce',), ('vle',), ('lle',), ('sle',), ('vwrite', 'l'), ('vwrite', 'g'), ('vwrite', 'L'),
            ('pwrite', 'l'), ('pwrite', 'L'), ('pwrite', 's'), ('TP',), ('save',), ('restore',)]

SEQ_SOURCES = [_src('S', 'l', 'l', 'l'), _src('S', 'g', '', 'g'), _src('S', 'L', 'L', 'L'), _src('M', 'lg', 'l', 'g'),
               _src('M', 'lL', 'L', 'l'), _src('M', 'slg', 'g', 's'), _src('M', 'lgL', 'gL', 'l')]


def seq_configs(tier):
    rnd = random.Random(2012)
    out = []
    A = ALPHABET
    if tier == 'thorough':
        plan = {2: None, 3: 6000, 4: 3000, 5: 3000}
        srcs = SEQ_SOURCES
    else:
        plan = {2: 400, 3: 600, 4: 120, 5: 120}
        srcs = SEQ_SOURCES
    for n, count in plan.items():
        if count is None:
            seqs = [(src, ops) for src in srcs for ops in itertools.product(A, repeat=n)]
        else:
            seqs = [(rnd.choice(srcs), tuple(rnd.choice(A) for _ in range(n))) for _ in range(count)]
        for src, ops in seqs:
            out.append(_cfg(src, list(ops)))
    seen = set(); res = []
    for c in out:
        if c['name'] not in seen:
            seen.add(c['name']); res.append(c)
    return res


@group('C12/sequences', configs=seq_configs,
       functions=['thermosteam._stream:Stream.phases', 'thermosteam._multi_stream:MultiStream.phases',
                  'thermosteam._multi_stream:MultiStream.phase', 'thermosteam._multi_stream:MultiStream.as_stream',
                  'thermosteam._multi_stream:MultiStream.reduce_phases', 'thermosteam._multi_stream:MultiStream.__getitem__',
                  'thermosteam._stream:Stream.get_data', 'thermosteam._stream:Stream.set_data',
                  'thermosteam._stream:Stream.vle', 'thermosteam._stream:Stream.lle', 'thermosteam._stream:Stream.sle',
                  'thermosteam._multi_stream:MultiStream.vle', 'thermosteam._multi_stream:MultiStream.lle',
                  'thermosteam._multi_stream:MultiStream.sle', 'thermosteam.indexer:ChemicalIndexer.to_material_indexer',
                  'thermosteam.indexer:MaterialIndexer.to_material_indexer',
                  'thermosteam.indexer:MaterialIndexer.to_chemical_indexer', 'thermosteam.indexer:MaterialIndexer.get_phase'])
def sequences(w, cfg):
    _run(w, cfg, 'total')


# --------------------------------------------------------------------------- C12/alias_views

def _alias_src_sets(tier):
    """Phase subsets in which some label is absent while its other-case label is present."""
    if tier == 'thorough':
        return [ph for ph in _subsets(1) if _alias_labels(ph)]
    return ['lg', 'sl', 'gL', 'gS', 'slg', 'lS', 'slgS']


def _alias_phase_changes(ph, a):
    out = _phase_changes(ph)
    out += [('set', ''.join(sorted(set(ph) | {a}))),                       # the exact label appears
            ('set', ''.join(sorted((set(ph) - {_swap(a)}) | {a}))),        # the material moves to the other-case row
            ('save_restore',)]
    return out


def alias_view_configs(tier):
    """A phase view is taken through an interchangeable label (exact label absent), the phase set changes (or not),
    and the label is used again, from both sides."""
    out = []
    for ph in _alias_src_sets(tier):
        for a in _alias_labels(ph):
            r = _swap(a)
            others = [p for p in ph if p != r]
            srcs = [_src('M', ph, ph, r),                                   # every row non-empty
                    _src('M', ph, r, others[-1] if others else r),          # only the denoted row, one other maybe
                    _src('M', ph, '', r)]                                   # empty or the denoted row only
            if tier == 'thorough':
                srcs.append(_src('M', ph, others, r))
            for src in srcs:
                # no phase change: the view stays live both ways and shares T, P
                out.append(_cfg(src, [('vwrite', a), ('pwrite', r), ('TP',), ('vread', a)]))
                out.append(_cfg(src, [('TP',), ('pwrite', r), ('vread', a), ('vwrite', r), ('vwrite', a)]))
                for ch in _alias_phase_changes(ph, a):
                    chs = [('save',), ('add', 'g' if 'g' not in ph else ('s' if 's' not in ph and 'S' != a else 'L')),
                           ('restore',)] if ch == ('save_restore',) else [ch]
                    out.append(_cfg(src, [('vwrite', a), *chs, ('vwrite', a), ('pwrite', r), ('TP',)]))
                    out.append(_cfg(src, [('vread', a), *chs, ('vread', a)]))
                    if tier == 'thorough' or src['pos'] == r:
                        out.append(_cfg(src, [('vread', a), *chs, ('pwrite', r), ('vwrite', a), ('vread', r)]))
                        out.append(_cfg(src, [('vread', a), *chs, *chs, ('vwrite', a)]))
    seen = set(); res = []
    for c in out:
        if c['name'] not in seen:
            seen.add(c['name']); res.append(c)
    return res


@group('C12/alias_views', configs=alias_view_configs,
       functions=['thermosteam._multi_stream:MultiStream.__getitem__', 'thermosteam.indexer:MaterialIndexer.get_phase',
                  'thermosteam._phase:PhaseIndexer', 'thermosteam._multi_stream:MultiStream.phases',
                  'thermosteam._multi_stream:MultiStream.reset_cache', 'thermosteam._multi_stream:MultiStream.reduce_phases',
                  'thermosteam._multi_stream:MultiStream.vle', 'thermosteam._multi_stream:MultiStream.lle',
                  'thermosteam._multi_stream:MultiStream.sle', 'thermosteam._stream:Stream.set_data',
                  'thermosteam.indexer:ChemicalIndexer.__setitem__', 'thermosteam.indexer:MaterialIndexer.__setitem__',
                  'thermosteam.indexer:MaterialIndexer.to_material_indexer', 'thermosteam._phase:LockedPhase'])
def alias_views(w, cfg):
    _run(w, cfg, 'total')


# --------------------------------------------------------------------------- C12/views_after_growth

def growth_configs(tier):
    """Phase views are taken (through exact and interchangeable labels), possibly a phase is removed, then the phase
    set grows *in place* (the stream takes over another multi-phase stream with more phases), and the views are
    used again from both sides."""
    out = []
    cases = [('lg', 'lgL'), ('lg', 'slg'), ('lg', 'sl'), ('slg', 'slgS'), ('gL', 'lgL'), ('sl', 'lS')]
    if tier == 'thorough':
        cases = [(ph, oph) for ph in _subsets(2) for oph in _subsets(2)
                 if len(ph) <= 3 and len(oph) <= 3 and not set(oph) <= set(ph)]
    for ph, oph in cases:
        new = [p for p in oph if p not in ph]
        srcs = [_src('M', ph, ph, ph[-1]), _src('M', ph, ph[0], ph[-1])]
        if tier == 'thorough': srcs.append(_src('M', ph, '', ph[0]))
        for src in srcs:
            for q in new:
                g = ('copy_from', oph)
                if _swap(q) in ph:
                    # q is an interchangeable label before the growth and an exact one afterwards
                    out.append(_cfg(src, [('vread', q), g, ('vwrite', q), ('pwrite', q), ('vread', _swap(q))]))
                    out.append(_cfg(src, [('vwrite', q), g, ('vread', q), ('pwrite', _swap(q))]))
                # a view of a phase that is added, removed while empty, and comes back by growth in place
                out.append(_cfg(src, [('add', q), ('vread', q), ('drop', q), g, ('vwrite', q), ('pwrite', q)]))
                out.append(_cfg(src, [('add', q), ('vread', q), ('reduce',), g, ('vread', q), ('TP',)]))
            # views through exact labels stay attached when the phase set grows in place
            out.append(_cfg(src, [('vwrite', ph[0]), ('vread', ph[-1]), ('copy_from', oph), ('pwrite', ph[0]),
                                  ('vwrite', ph[-1]), ('TP',)]))
    seen = set(); res = []
    for c in out:
        if c['name'] not in seen:
            seen.add(c['name']); res.append(c)
    return res


@group('C12/views_after_growth', configs=growth_configs,
       functions=['thermosteam._multi_stream:MultiStream.__getitem__', 'thermosteam._multi_stream:MultiStream.copy_like',
                  'thermosteam.indexer:MaterialIndexer.copy_like', 'thermosteam.indexer:MaterialIndexer._expand_phases',
                  'thermosteam.indexer:MaterialIndexer.get_phase', 'thermosteam._multi_stream:MultiStream.phases',
                  'thermosteam._multi_stream:MultiStream.reduce_phases', 'thermosteam._phase:PhaseIndexer'])
def views_after_growth(w, cfg):
    _run(w, cfg, 'T')
