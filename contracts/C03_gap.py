# -*- coding: utf-8 -*-
"""
C03 (gap round) — more of the real functions behind "phase equilibrium never creates, destroys or makes negative any
material" under contract: histories on the same equilibrium object, alternative entry points, sibling classes and the
thermosteam code that the first round only ASSUMED (LLE solver, phase_fraction).

Every top-level ensures clause is a sentence of C03 (helpers `ensure_material` of contracts/C03_equilibrium_material.py):
per chemical the total over the phases is what it was before the call, every flow of a phase the calculation owns is
>= 0, gas-locked chemicals have nothing outside 'g', liquid/solid-locked chemicals nothing in 'g' (vapour-liquid
calculations); frame: phases the calculation does not own are unchanged.  Calls that raise are outside the property.

Groups:
  C03/gap_vle_history     S  several flashes on ONE VLE object, contents replaced in between (remembered chemical set / index
                             list of VLE._setup, single chemical <-> mixture, locked chemicals come and go, other package orders)
  C03/gap_entry_points    S  .vle/.lle/.sle of single-phase Streams and of MultiStreams lacking a phase; successive
                             calculations of different kinds on one stream (phase set grows, equilibrium objects rebuilt)
  C03/gap_vlle_entry      S  Stream.vlle on 1-/2-phase streams, Stream/MultiStream(..., vlle=True), class equilibrium.VLLE
  C03/gap_mix_vle         S  Stream.mix_from / Stream.sum with vle=True (+ reduce_phases)
  C03/gap_lle_solver_box  S  thermosteam's own LLE solver code, every method: 0 <= mol_L <= mol (was assumption A-opt)
  C03/gap_phase_fraction  S  binary_phase_fraction.phase_fraction in [0, 1] whatever the root finders return (was A-phase-fraction)
  C03/gap_lle_calls       S  LLE.__call__: update=False, use_cache=False, single_loop, P=None, real phase_fraction
  C03/gap_vle_shgo        S  VLE method 'shgo' with the real solve_vle_vapor_mol_shgo (box handed to scipy)
  C03/gap_sle_ideal       S  SLE with ideal activity coefficients (branch of _solve_x without iteration), repeated call
  C03/gap_real_histories  B  real solvers: operation sequences on one stream, constructors with vlle=True, mixing with
                             vle=True, method 'shgo', Stream.receive_vent; flows read by position and by name
"""
import os
import sys
import thermosteam as tmo
from thermosteam import equilibrium as eq
from engine.api import group
from engine.sx import tmo_world as W
from contracts import C03_equilibrium_material as B

Env, chem, pkg, CHEMS = B.Env, B.chem, B.pkg, B.CHEMS
NOT_NORMAL = B.NOT_NORMAL
vle_mod, lle_mod, sle_mod, stream_mod = B.vle_mod, B.lle_mod, B.sle_mod, B.stream_mod
vlle_mod = sys.modules['thermosteam.equilibrium.vlle']
binary_mod = sys.modules['thermosteam.equilibrium.binary_phase_fraction']
ensure_material, flows_now = B.ensure_material, B.flows_now


# --------------------------------------------------------------------------- helpers

def clear_flows(s):
    """The user empties the stream (every stored entry of every phase row is removed)."""
    for ph, sv in W.rows_of(s):
        sv.dct.clear()


def replant(w, s, name, dist, keys):
    """
    The user replaces the contents of stream s between two calls: dist {chemical key: {phase: '0'|'+'|'?'}} or
    {chemical key: pattern over the phases of s in the order of s.phases}.  Returns the pre-state {(phase, ID): leaf}.
    """
    clear_flows(s)
    phases = [ph for ph, _ in W.rows_of(s)]
    present = {'default': 'zero'}
    for k in keys:
        pat = dist.get(k)
        if pat is None:
            continue
        if isinstance(pat, str):
            raise ValueError('replant takes {phase: kind} patterns (the phase order of a stream is not the order of the string)')
        for ph, c in pat.items():
            assert ph in phases, (ph, phases)
            present[ph, chem(k).ID] = {'0': 'zero', '+': 'pos', '?': 'maybe'}[c]
    leaves = W.plant_flows(w, s, name, present=present)
    for v in leaves.values():
        if v.__class__ is not float:
            w.assume(w.le(v, B.FLOW_MAX))
    return leaves


def by_phase(pattern, phases='gl'):
    """'+0' over phases 'gl' -> {'g': '+', 'l': '0'}."""
    return dict(zip(phases, pattern))


def spec_kwargs(env, spec, n_vle, tag):
    """Specification leaves with names unique per call (`tag`)."""
    kw = {}
    w = env.w
    for c in spec:
        if c in 'TP':
            kw[c] = w.real(f'{tag}.spec.{c}', lo=0., lo_strict=True)
        elif c == 'V':
            kw[c] = w.real(f'{tag}.spec.V', lo=0., hi=1.)
        elif c in 'HS':
            kw[c] = w.real(f'{tag}.spec.{c}')
        elif n_vle == 2:
            a = w.real(f'{tag}.spec.{c}0', lo=0., hi=1.)
            kw[c] = env.arr([a, 1.0 - a])
        else:
            kw[c] = env.simplex(f'{tag}.spec.{c}', n_vle)
    return kw


def n_partitioning(keys, dist):
    return sum(1 for k in keys if CHEMS[k][1] is None and set(''.join(dist.get(k, {'x': '0'}).values())) != {'0'})


def dist_name(dist, keys):
    return ','.join(f"{k}{''.join(f'{ph}{c}' for ph, c in sorted(dist[k].items()) if c != '0')}" for k in keys if k in dist)


# --------------------------------------------------------------------------- 1. histories on ONE VLE object

for _k in ('WEM', 'NWX', 'XEW', 'WEN', 'WE', 'NWE'):
    pkg(_k)

_C, _CI = {'solve_v': 'contract'}, {'solve_v': 'contract', 'vmode': 'int'}


def vle_history_configs(tier):
    G = by_phase
    fam = [
        # same number of chemicals in equilibrium, ANOTHER member: the remembered index list must not be reused
        ('WEM', [('TP', {'W': G('0+'), 'E': G('+0')}), ('TP', {'W': G('0+'), 'M': G('+0')})], _CI),
        ('WEM', [('TP', {'W': G('0+'), 'E': G('+0')}), ('PV', {'E': G('0+'), 'M': G('+0')})], dict(_CI, k=0)),
        # the same chemicals again, other amounts and distribution: the remembered index list IS reused
        ('WE', [('TP', {'W': G('0+'), 'E': G('+0')}), ('TP', {'W': G('+0'), 'E': G('0+')})], _CI),
        # one chemical -> two -> one: single-chemical shortcut <-> mixture
        ('WE', [('TP', {'W': G('0+')}), ('TP', {'W': G('0+'), 'E': G('+0')}), ('TP', {'E': G('+0')})], _CI),
        # a gas-locked chemical comes and goes (z_light, N)
        ('NWE', [('TP', {'W': G('0+'), 'E': G('+0')}), ('TP', {'N': G('0+'), 'W': G('0+'), 'E': G('+0')}),
                 ('TP', {'W': G('+0'), 'E': G('0+')})], _CI),
        # locked chemicals first in the package; second call without any partitioning chemical (NoEquilibrium inside)
        ('NWX', [('TP', {'N': G('0+'), 'W': G('0+'), 'X': G('+0')}), ('TP', {'N': G('0+'), 'X': G('+0')}),
                 ('TP', {'N': G('0+'), 'W': G('0+')})], _CI),
        # liquid-locked chemical first, reversed order
        ('XEW', [('TP', {'X': G('0+'), 'E': G('+0')}), ('TP', {'X': G('+0'), 'W': G('0+')})], _CI),
    ]
    if tier == 'thorough':
        fam += [
            ('WE', [('TP', {'W': G('0+'), 'E': G('+0')}), ('PH', {'W': G('+0'), 'E': G('0+')})], dict(_CI, k=0)),
            ('WE', [('TP', {'W': G('?+')}), ('TV', {'W': G('0+'), 'E': G('+0')}), ('TP', {'E': G('+?')})], dict(_CI, k=0)),
            ('NWX', [('TP', {'N': G('+?'), 'W': G('0+'), 'X': G('?+')}), ('TP', {'N': G('+0'), 'X': G('0+')}),
                     ('PH', {'N': G('+0'), 'W': G('+0'), 'X': G('0+')})], dict(_CI, k=0)),
            ('XEW', [('TV', {'X': G('0+'), 'E': G('+0')}), ('TV', {'X': G('0+'), 'W': G('0+')})], dict(_CI, k=0)),
            ('WEM', [('TP', {'W': G('+?'), 'E': G('?+')}), ('TP', {'W': G('?+'), 'M': G('+?')})], _C),
            ('WEM', [('PH', {'W': G('+0'), 'E': G('0+')}), ('PS', {'M': G('+0'), 'E': G('0+')})], dict(_CI, k=0)),
            ('WEM', [('TP', {'W': G('+0'), 'E': G('0+'), 'M': G('++')}), ('TP', {'W': G('+0'), 'E': G('0+')}),
                     ('TP', {'W': G('+0'), 'E': G('0+'), 'M': G('++')})], _CI),
            ('WE', [('Tx', {'W': G('++'), 'E': G('++')}), ('Py', {'W': G('+0'), 'E': G('0+')})], {}),
            ('NWX', [('TV', {'N': G('+0'), 'W': G('0+'), 'X': G('0+')}), ('PV', {'W': G('0+'), 'X': G('0+')}),
                     ('TP', {'N': G('+0'), 'W': G('0+')})], dict(_CI, k=1)),
        ]
    out = []
    for keys, steps, opts in fam:
        o = dict({'k': 1, 'solve_v': 'real', 'vmode': 'any'}, **opts)
        nm = f"{keys}/" + '>'.join(f'{sp}:{dist_name(d, keys)}' for sp, d in steps) + f"/k={o['k']}/solve_v={o['solve_v']}" \
             + ('-int' if o['vmode'] == 'int' else '')
        out.append(dict(o, name=nm, pkg=keys, steps=[{'spec': sp, 'dist': d} for sp, d in steps]))
    return out


@group('C03/gap_vle_history', configs=vle_history_configs,
       functions=['thermosteam.equilibrium.vle:VLE._setup', 'thermosteam.equilibrium.vle:VLE.__call__',
                  'thermosteam.equilibrium.vle:VLE.set_thermal_condition', 'thermosteam.equilibrium.vle:VLE.set_TV',
                  'thermosteam.equilibrium.vle:VLE.set_PV', 'thermosteam.equilibrium.vle:VLE.set_PH',
                  'thermosteam.equilibrium.vle:set_flows', 'thermosteam.utils.cache:Cache.retrieve',
                  'thermosteam._multi_stream:MultiStream.vle'],
       assumptions=B._A_VLE + ['callee contract: VLE._solve_v returns 0 <= v <= mol_vle (proved in C03/solve_v_clip)'])
def vle_history(w, cfg):
    """
    Several vapour-liquid calculations on the SAME stream (hence the same VLE object, which remembers the set of chemicals
    present and the index list derived from it); between the calls the user replaces the contents of the stream.  The
    sentences of C03 must hold for every call with respect to the contents just before that call.
    """
    W.reset_caches()
    env = Env(w, cfg)
    keys = cfg['pkg']
    try:
        B.install_vle_stubs(env, real_solve_v=cfg.get('solve_v', 'real') == 'real')
        th = B.havoc_thermo(env, keys)
        s = tmo.MultiStream(None, phases=('g', 'l'), thermo=th)
        now = before = None
        for n, step in enumerate(cfg['steps']):
            before = replant(w, s, f'f{n}', step['dist'], keys)
            kw = spec_kwargs(env, step['spec'], n_partitioning(keys, step['dist']), f'c{n}')
            vle = s.vle                 # Cache.retrieve: the same object on every access
            try:
                vle(**kw)
            except NOT_NORMAL as e:
                w.note(outcome=f'call {n}: {type(e).__name__}')
                return
            now = ensure_material(w, s, before, keys, owned=('g', 'l'), tag=f'call {n}: ')
        k0 = [chem(k).ID for k in keys if k in cfg['steps'][-1]['dist']][0]
        w.canary('canary: last call left the liquid flow of a present chemical unchanged + 1',
                 w.eq(now['l', k0], before.get(('l', k0), 0.) + 1))
        w.note(calls=dict(env.calls), flows=now)
    finally:
        env.restore()


# --------------------------------------------------------------------------- 2. alternative entry points (real VLE / LLE / SLE, solvers havoc'ed)

for _k in ('WOT', 'WET', 'NWO'):
    pkg(_k)

OWNED = {'vle': ('g', 'l'), 'lle': ('l', 'L'), 'sle': ('l', 's')}


def entry_configs(tier):
    fam = [
        # single-phase Stream -> .vle / .lle / .sle (the accessor casts the stream to the phase pair of the calculation)
        ('WET', ('Stream', 'l'), {'W': {'l': '+'}, 'E': {'l': '+'}}, [('vle', 'TP')]),
        ('WET', ('Stream', 's'), {'W': {'s': '+'}, 'E': {'s': '+'}}, [('vle', 'TP')]),
        ('WET', ('Stream', 'g'), {'W': {'g': '+'}}, [('vle', 'PV')]),
        ('WOT', ('Stream', 'g'), {'W': {'g': '+'}, 'O': {'g': '+'}}, [('lle', None)]),
        ('WOT', ('Stream', 'L'), {'W': {'L': '+'}, 'O': {'L': '+'}}, [('lle', 'Octane')]),
        ('WOT', ('Stream', 'l'), {'W': {'l': '+'}, 'T': {'l': '+'}}, [('sle', 'T')]),
        ('WOT', ('Stream', 'S'), {'W': {'S': '+'}, 'T': {'S': '+'}}, [('sle', 'T')]),
        # MultiStream that lacks a phase of the calculation (the accessor adds it; phases it does not own are frame)
        ('WET', ('Multi', 'ls'), {'W': {'l': '+', 's': '+'}, 'E': {'l': '+'}, 'T': {'s': '+'}}, [('vle', 'TP')]),
        ('WOT', ('Multi', 'ls'), {'W': {'l': '+'}, 'O': {'l': '+', 's': '+'}}, [('lle', None)]),
        # one stream, successive calculations of different kinds (phase set grows, equilibrium objects are rebuilt);
        # a third element of a step = the user replaces the contents before that step
        ('WOT', ('Multi', 'gl'), {'W': {'l': '+'}, 'O': {'g': '+'}}, [('vle', 'TP'), ('lle', None)]),
        ('WOT', ('Multi', 'gl'), {'W': {'l': '+'}, 'O': {'g': '+'}},
         [('lle', None), ('vle', 'TP', {'W': {'l': '+'}, 'O': {'L': '+', 'g': '+'}}), ('sle', 'T', {'W': {'l': '+'}, 'T': {'l': '+', 'g': '+'}}),
          ('vle', 'TP', {'W': {'g': '+'}, 'T': {'s': '+', 'l': '+'}})]),
        ('NWO', ('Multi', 'lL'), {'N': {'l': '+'}, 'W': {'l': '+'}, 'O': {'L': '+'}}, [('vle', 'TP'), ('lle', 'Water')]),
    ]
    if tier == 'thorough':
        fam += [
            ('WET', ('Stream', 'l'), {'W': {'l': '?'}, 'E': {'l': '?'}}, [('vle', 'TV'), ('vle', 'PH', {'W': {'l': '+'}, 'E': {'g': '+'}})]),
            ('WET', ('Stream', 'L'), {'W': {'L': '+'}, 'E': {'L': '+'}}, [('vle', 'PH')]),
            ('WOT', ('Multi', 'gl'), {'W': {'l': '+', 'g': '?'}, 'O': {'g': '+', 'l': '?'}, 'T': {'l': '+'}},
             [('sle', 'T'), ('vle', 'TP'), ('lle', 'Octane', {'W': {'l': '+', 'g': '?'}, 'O': {'g': '+', 'l': '?'}, 'T': {'s': '+'}}),
              ('sle', 'H', {'W': {'l': '+'}, 'T': {'s': '?', 'L': '+'}})]),
            ('WOT', ('Multi', 'gls'), {'W': {'l': '+'}, 'O': {'g': '+'}, 'T': {'s': '+'}},
             [('lle', None), ('vle', 'TV', {'W': {'l': '+'}, 'O': {'g': '+', 'L': '+'}, 'T': {'s': '+'}}), ('sle', 'T')]),
        ]
    out = []
    for keys, start, dist, ops in fam:
        nm = f"{keys}/{start[0]}-{start[1]}/{dist_name(dist, keys)}/" + '>'.join(
            f'{o[0]}:{o[1]}' + (f'[{dist_name(o[2], keys)}]' if len(o) > 2 else '') for o in ops)
        out.append({'name': nm, 'pkg': keys, 'start': list(start), 'dist': dist, 'ops': [list(o) for o in ops],
                    'k': 0, 'vmode': 'int', 'modes': ['int']})
    return out


@group('C03/gap_entry_points', configs=entry_configs,
       functions=['thermosteam._stream:Stream.vle', 'thermosteam._stream:Stream.lle', 'thermosteam._stream:Stream.sle',
                  'thermosteam._multi_stream:MultiStream.vle', 'thermosteam._multi_stream:MultiStream.lle',
                  'thermosteam._multi_stream:MultiStream.sle', 'thermosteam._stream:Stream.phases',
                  'thermosteam._multi_stream:MultiStream.phases', 'thermosteam._multi_stream:MultiStream.reset_cache',
                  'thermosteam.utils.cache:Cache.retrieve', 'thermosteam.equilibrium.equilibrium:Equilibrium.__init__',
                  'thermosteam.equilibrium.vle:VLE.__call__', 'thermosteam.equilibrium.vle:VLE._setup',
                  'thermosteam.equilibrium.lle:LLE.__call__', 'thermosteam.equilibrium.lle:LLE.get_liquid_mol_data',
                  'thermosteam.equilibrium.sle:SLE.__call__', 'thermosteam.equilibrium.sle:SLE._setup'],
       assumptions=B._A_VLE + ['callee contract: VLE._solve_v returns 0 <= v <= mol_vle (proved in C03/solve_v_clip)',
                               'A-opt: LLE.solve_lle_liquid_mol returns 0 <= mol_L <= mol (solver box; the default method is '
                               'proved in C03/gap_lle_solver)',
                               'A-models: solubility_eutectic, Cn, activity coefficients return arbitrary values',
                               'A-iter: flx.aitken only evaluates its callback'])
def entry_points(w, cfg):
    """
    The calculation is reached the way users reach it: through the .vle / .lle / .sle accessors of a single-phase Stream or
    of a MultiStream that lacks a phase of the calculation, and several kinds of calculation follow each other on one stream.
    """
    W.reset_caches()
    env = Env(w, cfg)
    keys = cfg['pkg']
    try:
        B.install_vle_stubs(env, real_solve_v=False)
        B.install_lle_stubs(env)
        B.install_sle_stubs(env)
        th = B.havoc_thermo(env, keys, Gamma=B.StubGamma)
        kind, phases = cfg['start']
        s = tmo.Stream(None, phase=phases, thermo=th) if kind == 'Stream' else tmo.MultiStream(None, phases=tuple(phases), thermo=th)
        before = replant(w, s, 'f', cfg['dist'], keys)
        now = None
        dist = cfg['dist']
        for n, step in enumerate(cfg['ops']):
            op, arg = step[0], step[1]
            if len(step) > 2:
                dist = step[2]
                before = replant(w, s, f'f{n}', dist, keys)       # the user replaces the contents of the stream
            elif n:
                before = flows_now(s)
            try:
                if op == 'vle':
                    s.vle(**spec_kwargs(env, arg, n_partitioning(keys, dist), f'c{n}'))
                elif op == 'lle':
                    s.lle(w.real(f'c{n}.T', lo=0., lo_strict=True), top_chemical=arg)
                else:
                    kw = {'T': w.real(f'c{n}.T', lo=0., lo_strict=True)} if arg == 'T' else {'H': w.real(f'c{n}.H')}
                    s.sle('Tetradecanol', **kw)
            except NOT_NORMAL as e:
                w.note(outcome=f'call {n}: {type(e).__name__}')
                return
            now = ensure_material(w, s, before, keys, owned=OWNED[op], vle=op == 'vle', tag=f'call {n} ({op}): ')
        (ph, ID), v = sorted((k, v) for k, v in before.items() if v.__class__ is not float or v)[0]
        w.canary('canary: a present chemical doubled', w.eq(sum(x for (p, i), x in now.items() if i == ID),
                                                            2 * sum(x for (p, i), x in before.items() if i == ID)))
        w.note(calls=dict(env.calls), phases=[p for p, _ in W.rows_of(s)], flows=now)
    finally:
        env.restore()
        B.StubGamma.env_now = None


# --------------------------------------------------------------------------- 3. vapour-liquid-liquid: other entry points, class VLLE

def install_vlle_contracts(env, keys):
    """
    Callee contracts of VLE / LLE exactly as in C03/vlle (each call returns an arbitrary state allowed by the contract
    proved in C03/vle_* and C03/lle); everything else of thermosteam.equilibrium stays real (the phase setters of
    Stream build VLECache/LLECache/SLECache objects), and the class VLLE gets the same callees.
    """
    B.install_vlle_stubs(env, keys)
    stub = stream_mod.eq

    class AnySpecVLE(stub.VLE):
        # the contract is the same for every specification pair (groups C03/vle_TP ... C03/vle_Py)
        def __call__(self, *, T=None, P=None, V=None, H=None, S=None, x=None, y=None):
            return stub.VLE.__call__(self, T=T, P=P)

    class Forward:
        VLE = AnySpecVLE
        LLE = stub.LLE

        def __getattr__(self, name):
            return getattr(eq, name)

    env.patch(stream_mod, 'eq', Forward())
    env.patch(vlle_mod, 'VLE', AnySpecVLE)
    env.patch(vlle_mod, 'LLE', stub.LLE)


def vlle_entry_configs(tier):
    fam = [
        # Stream.vlle on streams that are not yet three-phase
        ('WO', 'vlle', ('Stream', 'l'), {'W': {'l': '+'}, 'O': {'l': '+'}}, ['int', 'lo']),
        ('WO', 'vlle', ('Stream', 'g'), {'W': {'g': '+'}, 'O': {'g': '+'}}, ['lo']),
        ('WO', 'vlle', ('Stream', 'L'), {'W': {'L': '+'}, 'O': {'L': '+'}}, ['hi']),
        ('WON', 'vlle', ('Multi', 'gl'), {'W': {'l': '+'}, 'O': {'g': '+'}, 'N': {'l': '+'}}, ['int', 'int', 'int', 'int', 'int', 'any']),
        ('WO', 'vlle', ('Multi', 'lL'), {'W': {'l': '+', 'L': '+'}, 'O': {'L': '+'}}, ['int', 'hi']),
        # constructors with vlle=True
        ('WO', 'Stream(vlle=True)', None, {'W': {'l': '+'}, 'O': {'l': '+'}}, ['int', 'lo']),
        ('WON', 'Stream(vlle=True)', None, {'W': {'l': '+'}, 'O': {'l': '+'}, 'N': {'l': '+'}}, []),
        ('WO', 'MultiStream(vlle=True)', None, {'W': {'l': '+'}, 'O': {'g': '+', 'l': '+'}}, ['int', 'lo']),
        ('WON', 'MultiStream(vlle=True)', None, {'W': {'L': '+'}, 'O': {'l': '+'}, 'N': {'g': '+'}}, ['hi']),
        # class VLLE (thermosteam.equilibrium.vlle): pooling of the two liquids + the VLE / LLE steps; the paths that end
        # before the three-phase solver (which is unfinished code: it calls breakpoint())
        ('WO', 'VLLE', ('Multi', 'Lgl'), {'W': {'l': '+', 'L': '+'}, 'O': {'L': '+', 'g': '+'}}, ['lo']),
        ('WO', 'VLLE', ('Multi', 'Lgl'), {'W': {'l': '+', 'L': '+'}, 'O': {'L': '+', 'g': '+'}}, ['hi']),
        ('WON', 'VLLE', ('Multi', 'Lgl'), {'W': {'l': '+', 'L': '+'}, 'O': {'L': '+', 'g': '+'}, 'N': {'L': '+'}}, ['int', 'lo']),
        ('WO', 'VLLE', ('Multi', 'Lgl'), {'W': {'L': '+', 'g': '+'}, 'O': {'L': '+', 'l': '+'}}, ['int', 'hi']),
    ]
    if tier == 'thorough':
        fam += [
            ('WO', 'vlle', ('Stream', 'l'), {'W': {'l': '?'}, 'O': {'l': '?'}}, []),
            ('WON', 'Stream(vlle=True)', None, {'W': {'l': '+'}, 'O': {'l': '+'}, 'N': {'l': '+'}}, ['any', 'any']),
            ('WON', 'MultiStream(vlle=True)', None, {'W': {'L': '+', 'g': '+'}, 'O': {'l': '+'}, 'N': {'g': '+', 'l': '+'}}, []),
            ('WON', 'VLLE', ('Multi', 'Lgl'), {'W': {'l': '?', 'L': '+'}, 'O': {'L': '?', 'g': '+'}, 'N': {'L': '+'}}, ['any', 'lo']),
        ]
    return [{'name': f"{keys}/{how}/{'-'.join(start) if start else ''}/{dist_name(d, keys)}/script={'-'.join(script) or 'int'}",
             'pkg': keys, 'how': how, 'start': list(start) if start else None, 'dist': d, 'script': script, 'k': 1}
            for keys, how, start, d, script in fam]


@group('C03/gap_vlle_entry', configs=vlle_entry_configs,
       functions=['thermosteam._stream:Stream.vlle', 'thermosteam._stream:Stream.__init__',
                  'thermosteam._multi_stream:MultiStream.__init__', 'thermosteam._stream:Stream.phases',
                  'thermosteam._multi_stream:MultiStream.phases', 'thermosteam.equilibrium.vlle:VLLE.__call__',
                  'thermosteam.equilibrium.vlle:VLLE.__init__'],
       assumptions=['callee contracts: VLE (any specification pair) and LLE conserve every chemical over their two phases, keep '
                    'flows >= 0 and honour locked phases (groups C03/vle_*, C03/lle)',
                    'A-fixed-point: flx.fixed_point evaluates f at x0 and then only at values returned by f, at least once'])
def vlle_entry(w, cfg):
    """
    Vapour-liquid-liquid calculations reached through Stream.vlle on one- and two-phase streams, through the
    constructors Stream(..., vlle=True) / MultiStream(..., vlle=True), and through the class equilibrium.VLLE.
    """
    W.reset_caches()
    env = Env(w, cfg)
    keys = cfg['pkg']
    how = cfg['how']
    try:
        install_vlle_contracts(env, keys)
        th = B.havoc_thermo(env, keys)
        T = w.real('T', lo=0., lo_strict=True)
        P = w.real('P', lo=0., lo_strict=True)
        try:
            if cfg['start']:
                kind, phases = cfg['start']
                s = tmo.Stream(None, phase=phases, thermo=th) if kind == 'Stream' else tmo.MultiStream(None, phases=tuple(phases), thermo=th)
                before = replant(w, s, 'f', cfg['dist'], keys)
                if how == 'vlle':
                    s.vlle(T, P)
                else:
                    eq.VLLE(s._imol, s._thermal_condition, th)(T=T, P=P)
            else:
                before = {}
                by = {}
                for k, pat in cfg['dist'].items():
                    for ph, c in pat.items():
                        v = w.real(f'f.{ph}.{chem(k).ID}', lo=0., lo_strict=True)
                        w.assume(w.le(v, B.FLOW_MAX))
                        before[ph, chem(k).ID] = v
                        by.setdefault(ph, []).append((chem(k).ID, v))
                if how.startswith('Stream'):
                    s = tmo.Stream(None, thermo=th, T=T, P=P, vlle=True, **dict(by['l']))
                else:
                    s = tmo.MultiStream(None, thermo=th, T=T, P=P, vlle=True, **by)
        except NOT_NORMAL as e:
            w.note(outcome=type(e).__name__)
            return
        # after a constructor only the non-empty phases are kept: every phase that exists is owned by the calculation
        now = ensure_material(w, s, before, keys, owned=('L', 'g', 'l'), vle='g' in [p for p, _ in W.rows_of(s)])
        ID = chem(keys[0]).ID
        w.canary('canary: total of first chemical doubled + 1', w.eq(sum(x for (p, i), x in now.items() if i == ID),
                                                                     2 * sum(x for (p, i), x in before.items() if i == ID) + 1))
        w.note(calls=dict(env.calls), cls=type(s).__name__, phases=[p for p, _ in W.rows_of(s)], flows=now)
    finally:
        env.restore()


# --------------------------------------------------------------------------- 4. mixing with vle=True (the flash runs on the receiver after mixing)

def mix_vle_configs(tier):
    # inlets: list of (class, phases, distribution); receiver: 'new' (fresh liquid Stream), 'multi' (fresh g/l MultiStream) or
    # an index into the inlets (the receiver is one of the streams being mixed); eb = energy_balance (True: flash at H, P)
    fam = [
        ('WE', [('Stream', 'l', {'W': {'l': '+'}}), ('Stream', 'g', {'E': {'g': '+'}})], 'new', False, 'mix_from'),
        ('WE', [('Stream', 'l', {'W': {'l': '+'}, 'E': {'l': '+'}}), ('Multi', 'gl', {'W': {'g': '+'}, 'E': {'l': '+'}})], 0, False, 'mix_from'),
        ('WN', [('Stream', 'l', {'W': {'l': '+'}, 'N': {'l': '+'}}), ('Stream', 'g', {'W': {'g': '+'}})], 'multi', False, 'mix_from'),
        ('W', [('Stream', 'l', {'W': {'l': '+'}}), ('Stream', 'g', {'W': {'g': '+'}})], 'new', True, 'mix_from'),
        ('WX', [('Stream', 'g', {'W': {'g': '+'}, 'X': {'g': '+'}}), ('Stream', 'l', {'W': {'l': '+'}})], 'new', False, 'sum'),
    ]
    if tier == 'thorough':
        fam += [
            ('WE', [('Stream', 'l', {'W': {'l': '+'}}), ('Stream', 'g', {'E': {'g': '+'}})], 'new', True, 'mix_from'),
            ('WEN', [('Multi', 'gl', {'W': {'l': '+', 'g': '?'}, 'N': {'l': '?'}}), ('Stream', 'g', {'E': {'g': '+'}}),
                     ('Stream', 'l', {'W': {'l': '?'}})], 1, False, 'mix_from'),
            ('WN', [('Stream', 'l', {'W': {'l': '+'}, 'N': {'l': '+'}}), ('Stream', 'g', {'W': {'g': '+'}})], 'multi', True, 'sum'),
        ]
    out = []
    for keys, inlets, recv, eb, how in fam:
        nm = f"{keys}/{how}/" + '+'.join(f'{c}-{ph}:{dist_name(d, keys)}' for c, ph, d in inlets) + f'/into={recv}/energy_balance={eb}'
        out.append({'name': nm, 'pkg': keys, 'inlets': [list(i) for i in inlets], 'recv': recv, 'eb': eb, 'how': how,
                    'k': 0, 'vmode': 'int'})
    return out


@group('C03/gap_mix_vle', configs=mix_vle_configs,
       functions=['thermosteam._stream:Stream.mix_from', 'thermosteam._stream:Stream.sum', 'thermosteam._stream:Stream.vle',
                  'thermosteam._multi_stream:MultiStream.reduce_phases', 'thermosteam.equilibrium.vle:VLE.__call__',
                  'thermosteam.equilibrium.vle:VLE._setup'],
       assumptions=B._A_VLE + ['callee contract: VLE._solve_v returns 0 <= v <= mol_vle (proved in C03/solve_v_clip)'])
def mix_vle(w, cfg):
    """
    Stream.mix_from(..., vle=True) / Stream.sum(..., vle=True): the inlets are pooled into the receiver and a flash (T,P or
    H,P) runs on it.  Before the flash the receiver holds the pooled inlets (C01); the sentences of C03 are stated against that:
    per chemical the outlet total over phases is the total of the inlets, no flow is negative, locked chemicals sit in their phase.
    """
    W.reset_caches()
    env = Env(w, cfg)
    keys = cfg['pkg']
    try:
        B.install_vle_stubs(env, real_solve_v=False)
        th = B.havoc_thermo(env, keys)
        inlets = []
        pooled = {}
        for n, (cls, phases, dist) in enumerate(cfg['inlets']):
            s = tmo.Stream(None, phase=phases, thermo=th) if cls == 'Stream' else tmo.MultiStream(None, phases=tuple(phases), thermo=th)
            for (ph, ID), v in replant(w, s, f'in{n}', dist, keys).items():
                pooled['l', ID] = pooled.get(('l', ID), 0.) + v          # only the per-chemical totals of `pooled` are used
            inlets.append(s)
        recv = cfg['recv']
        try:
            if cfg['how'] == 'sum':
                out = tmo.Stream.sum(inlets, None, th, cfg['eb'], True)
            else:
                out = (tmo.Stream(None, thermo=th) if recv == 'new' else
                       tmo.MultiStream(None, phases=('g', 'l'), thermo=th) if recv == 'multi' else inlets[recv])
                out.mix_from(inlets, energy_balance=cfg['eb'], vle=True)
        except NOT_NORMAL as e:
            w.note(outcome=type(e).__name__)
            return
        phases = [p for p, _ in W.rows_of(out)]
        now = ensure_material(w, out, pooled, keys, owned=tuple(phases), vle='g' in phases)
        if 'g' not in phases:       # reduce_phases dropped the empty gas phase: a gas-locked chemical must then be absent
            for k in keys:
                if CHEMS[k][1] == 'g':
                    w.ensure(f'gas-locked {chem(k).ID}: nothing outside g', w.And(*[w.eq(now[p, chem(k).ID], 0.) for p in phases]))
        ID = chem(keys[0]).ID
        w.canary('canary: outlet total of first chemical = pooled + 1',
                 w.eq(sum(x for (p, i), x in now.items() if i == ID), pooled.get(('l', ID), 0.) + 1))
        w.note(calls=dict(env.calls), cls=type(out).__name__, phases=phases, flows=now)
    finally:
        env.restore()


# --------------------------------------------------------------------------- 5. the LLE solver itself (assumed "A-opt" by C03/lle)

class GammaF(B.StubGamma):
    """A-models: activity coefficients are arbitrary positive numbers, through the object and through gamma.f / gamma.args."""
    __slots__ = ()

    @property
    def f(self):
        env, n = self.env, len(self._chemicals)
        return lambda x, T, *args: env.arr([env.pos('gamma') for _ in range(n)])


def install_lle_solver_stubs(env):
    """
    thermosteam's own LLE solver code runs (LLE.solve_lle_liquid_mol, pseudo_equilibrium, pseudo_equilibrium_outer_loop,
    psuedo_equilibrium_inner_loop); only what lies outside thermosteam.equilibrium.lle is assumed:
      A-root (weak form)  flx.aitken returns a value that its callback returned (every fixed point f(x*) = x* is one), the
                          callback being evaluated at arbitrary arguments of its domain (log K real, activity
                          coefficients > 0, phase fraction in (0, 1));
      A-fixed-point       flx.fixed_point evaluates f at x0 and then only at values returned by f, at least once;
      A-opt               scipy's shgo / differential_evolution return a point inside the bounds they are handed;
      phase_fraction      returns a value in [0, 1] (proved in C03/gap_phase_fraction) or raises ZeroDivisionError;
      A-models            activity coefficients are arbitrary positive numbers.
    """
    w = env.w
    cfg = env.cfg
    log = lle_mod.np.log        # numpy natively, the engine's log on symbolic values

    def arbitrary_like(x0, args):
        n = args[2]
        # every real number is the logarithm of a positive one
        out = list(log(env.arr([env.pos(f'K{i}') for i in range(n)]))) + [env.pos(f'gam{i}') for i in range(n)]
        if len(x0) == 2 * n + 1:
            out.append(env.leaf('phi_arg', lo=0., hi=1., lo_strict=True, hi_strict=True))
        assert len(out) == len(x0), (len(out), len(x0))
        return env.arr(out)

    class StubFlx:
        @staticmethod
        def aitken(f, x, xtol=None, args=(), **kw):
            env.count('aitken')
            for _ in range(max(1, env.k)):
                r = f(arbitrary_like(x, args), *args)
            return r

        @staticmethod
        def fixed_point(f, x, xtol=None, args=(), **kw):
            env.count('fixed_point')
            for _ in range(max(1, env.k)):
                x = f(x, *args)
            return x

        def __getattr__(self, name):
            raise AssertionError(f'unexpected flexsolve call in lle.py: {name}')

    def phase_fraction(zs, Ks, guess=None, za=0., zb=0.):
        env.count('phase_fraction')
        if env.calls['phase_fraction'] in cfg.get('pf_raises', ()):
            raise ZeroDivisionError('havoc')
        return env.unit('phi')

    class Result:
        def __init__(self, x, success):
            self.x, self.success = x, success

    def inside(bounds, tag):
        out = []
        for i in range(len(bounds)):
            x = env.leaf(f'{tag}{i}')
            w.assume(w.And(w.ge(x, bounds[i][0]), w.le(x, bounds[i][1])))
            out.append(x)
        return env.arr(out)

    def shgo(fun, bounds, args=(), **kw):
        env.count('shgo')
        return Result(inside(bounds, 'shgo_x'), cfg.get('shgo_success', True))

    def differential_evolution(fun, bounds, args=(), **kw):
        env.count('differential_evolution')
        return Result(inside(bounds, 'de_x'), True)

    inner = lle_mod.psuedo_equilibrium_inner_loop
    if hasattr(inner, 'py_func'):
        # native replays: the activity-coefficient stub is a Python callable, which a numba-compiled function cannot take as
        # an argument; run the same source uncompiled (symbolically the engine has already rebound it to its py_func)
        env.patch(lle_mod, 'psuedo_equilibrium_inner_loop', inner.py_func)
    env.patch(lle_mod, 'flx', StubFlx())
    env.patch(lle_mod, 'phase_fraction', phase_fraction)
    env.patch(lle_mod, 'shgo', shgo)
    env.patch(lle_mod, 'differential_evolution', differential_evolution)
    B.StubGamma.env_now = env


for _k in ('WO', 'WEO', 'WOG'):
    pkg(_k)


def lle_box_configs(tier):
    fam = [
        ('WO', 'pseudo equilibrium', False, 'fresh', {}),
        ('WO', 'pseudo equilibrium', True, 'fresh', {}),
        ('WO', 'pseudo equilibrium', False, 'remembered', {}),
        ('WO', 'pseudo equilibrium', True, 'remembered', {}),
        ('WO', 'pseudo equilibrium', False, 'fresh', {'pf_raises': [2]}),       # phase_fraction fails inside the outer loop
        ('WO', 'shgo', False, 'fresh', {}),
        ('WO', 'shgo', False, 'fresh', {'shgo_success': False}),
        ('WO', 'differential evolution', False, 'fresh', {}),
    ]
    if tier == 'thorough':
        fam += [
            ('WO', 'pseudo equilibrium', True, 'remembered', {'k': 2}),
            ('WO', 'pseudo equilibrium', False, 'remembered', {'k': 2}),
            ('WEO', 'shgo', False, 'fresh', {}),
            ('WEO', 'differential evolution', False, 'fresh', {}),
        ]
    return [dict({'k': 1}, **opts, name=f"{keys}/{method}/single_loop={sl}/{state}" + ''.join(f'/{a}={b}' for a, b in sorted(opts.items())),
                 pkg=keys, method=method, single_loop=sl, state=state) for keys, method, sl, state, opts in fam]


@group('C03/gap_lle_solver_box', configs=lle_box_configs,
       functions=['thermosteam.equilibrium.lle:LLE.solve_lle_liquid_mol', 'thermosteam.equilibrium.lle:pseudo_equilibrium',
                  'thermosteam.equilibrium.lle:pseudo_equilibrium_outer_loop', 'thermosteam.equilibrium.lle:psuedo_equilibrium_inner_loop'],
       assumptions=['A-root (weak form): flx.aitken returns a value returned by its callback',
                    'A-fixed-point: flx.fixed_point evaluates f at x0 and then only at values returned by f, at least once',
                    'A-opt: scipy shgo / differential_evolution return a point inside the bounds they are handed',
                    'A-models: activity coefficients are arbitrary positive numbers',
                    'callee contract: phase_fraction returns a value in [0, 1] (proved in C03/gap_phase_fraction) or raises ZeroDivisionError'])
def lle_solver_box(w, cfg):
    """
    The split that thermosteam's own solver code hands back to LLE.__call__ (which writes l = (mol - mol_L) F, L = mol_L F):
    for every method, neither liquid gets a negative amount of any chemical: 0 <= mol_L <= mol.  This is the contract
    that C03/lle, C03/gap_entry_points and C03/gap_lle_calls use for LLE.solve_lle_liquid_mol.  mol is what LLE.__call__
    passes: the positive normalised amounts of the chemicals in liquid-liquid equilibrium (the sum is not used).
    """
    W.reset_caches()
    env = Env(w, cfg)
    keys = cfg['pkg']
    try:
        install_lle_solver_stubs(env)
        th = B.havoc_thermo(env, keys, Gamma=GammaF)
        s = tmo.MultiStream(None, phases=('L', 'l'), thermo=th)
        lle = s.lle
        lle.method = cfg['method']
        chems = [chem(k) for k in keys]
        n = len(chems)
        mol = env.arr([w.real(f'z{i}', lo=0., hi=1., lo_strict=True) for i in range(n)])
        if cfg['state'] == 'remembered':
            # what an earlier LLE.__call__ leaves behind when both liquids exist: K = x_L / max(x_l, 1e-16) >= 0, 0 < phi < 1
            lle._K = env.arr([w.real(f'K_mem{i}', lo=0.) for i in range(n)])
            lle._phi = w.real('phi_mem', lo=0., hi=1., lo_strict=True, hi_strict=True)
        T = w.real('T', lo=0., lo_strict=True)
        try:
            mol_L = lle.solve_lle_liquid_mol(mol, T, chems, cfg['single_loop'])
        except NOT_NORMAL + (FloatingPointError,) as e:      # natively log(0) of a remembered K = 0 raises (numpy error state of thermosteam)
            w.note(outcome=type(e).__name__)
            return
        for i, c in enumerate(chems):
            w.ensure(f'flow[L,{c.ID}] = mol_L >= 0', w.ge(mol_L[i], 0.))
            w.ensure(f'flow[l,{c.ID}] = mol - mol_L >= 0', w.ge(mol[i] - mol_L[i], 0.))
        w.canary('canary: nothing goes to L', w.eq(mol_L[0], 0.))
        w.note(calls=dict(env.calls), mol_L=list(mol_L))
    finally:
        env.restore()
        B.StubGamma.env_now = None


# --------------------------------------------------------------------------- 6. binary_phase_fraction.phase_fraction (assumed "A-phase-fraction" by C03/lle)

def install_binary_stubs(env):
    """A-root (no bound used): flx.find_bracket and flx.IQ_interpolation inside binary_phase_fraction return ARBITRARY reals."""
    class StubFlx:
        @staticmethod
        def find_bracket(f, x0, x1, y0=None, y1=None, args=(), **kw):
            env.count('find_bracket')
            return env.leaf('br_x0'), env.leaf('br_x1'), env.leaf('br_y0'), env.leaf('br_y1')

        @staticmethod
        def IQ_interpolation(f, x0, x1, y0=None, y1=None, x=None, xtol=0., ytol=5e-8, args=(), **kw):
            env.count('IQ')
            return env.leaf('iq_phi')

        def __getattr__(self, name):
            raise AssertionError(f'unexpected flexsolve call in binary_phase_fraction.py: {name}')

    env.patch(binary_mod, 'flx', StubFlx())


def phase_fraction_configs(tier):
    fam = [(2, '00'), (2, '+0'), (2, '0+'), (3, '00')]
    if tier == 'thorough':
        fam += [(2, '++'), (3, '++'), (4, '00')]
    return [{'name': f'N={n}/za,zb={zab}', 'n': n, 'zab': zab} for n, zab in fam]


@group('C03/gap_phase_fraction', configs=phase_fraction_configs, loop_free=True,
       functions=['thermosteam.equilibrium.binary_phase_fraction:phase_fraction',
                  'thermosteam.equilibrium.binary_phase_fraction:as_valid_fraction',
                  'thermosteam.equilibrium.binary_phase_fraction:solve_phase_fraction_Rashford_Rice',
                  'thermosteam.equilibrium.binary_phase_fraction:compute_phase_fraction_2N',
                  'thermosteam.equilibrium.binary_phase_fraction:phase_fraction_objective_function'],
       assumptions=['A-root (no bound used): flx.find_bracket / flx.IQ_interpolation return arbitrary real numbers'])
def phase_fraction_range(w, cfg):
    """
    Contract of phase_fraction that the liquid-liquid groups rely on (C03/lle: the remembered-coefficients branch writes
    l = y phi, L = mol - l; C03/gap_lle_solver_box): whatever the root finders return, the phase fraction handed back is
    in [0, 1] - so neither liquid can receive a negative amount.  Compositions >= 0, partition coefficients > 0.
    """
    W.reset_caches()
    env = Env(w, cfg)
    try:
        install_binary_stubs(env)
        n = cfg['n']
        zs = env.arr([w.real(f'z{i}', lo=0., hi=1.) for i in range(n)])
        Ks = env.arr([w.real(f'K{i}', lo=0., lo_strict=True) for i in range(n)])
        za, zb = [w.real(f'z{t}', lo=0., hi=1., lo_strict=True) if c == '+' else 0. for t, c in zip('ab', cfg['zab'])]
        guess = w.real('guess')
        try:
            phi = binary_mod.phase_fraction(zs, Ks, guess, za, zb)
        except NOT_NORMAL as e:
            w.note(outcome=type(e).__name__)
            return
        w.ensure('no negative amount in either phase: 0 <= phase fraction <= 1', w.And(w.ge(phi, 0.), w.le(phi, 1.)))
        w.canary('canary: phase fraction is 0', w.eq(phi, 0.))
        w.note(calls=dict(env.calls), phi=phi)
    finally:
        env.restore()


# --------------------------------------------------------------------------- 7. LLE.__call__: remaining branches and parameters, real phase_fraction

def lle_calls_configs(tier):
    L = lambda s: by_phase(s, 'lL')
    d2 = {'W': L('+0'), 'O': L('0+')}
    fam = [
        # update=False: the call only pools the liquids and reports K, phi; then a normal call
        ('WO', [(d2, {'update': False}, None), ({'W': L('++'), 'O': L('0+')}, {'use_cache': False}, None)], {}),
        ('WO', [({'W': L('++'), 'O': L('+0')}, {'update': False, 'top_chemical': 'Octane'}, None)], {}),
        ('WN', [({'W': L('++'), 'N': L('+0')}, {'update': False, 'top_chemical': 'Water'}, None)], {}),      # fewer than two LLE chemicals
        # use_cache=False with a remembered state; single_loop and P=None are passed through
        ('WO', [(d2, {'use_cache': False, 'single_loop': True, 'P': None}, 'mem')], {}),
    ]
    if tier == 'thorough':
        fam += [
            # remembered coefficients reused, with the REAL phase_fraction (any remembered state an earlier call can leave);
            # quick tier: the range of phase_fraction (C03/gap_phase_fraction) + the write-back with that range (C03/lle)
            ('WO', [(d2, {}, 'mem')], {}),
            ('WO', [(d2, {'top_chemical': 'Water'}, 'mem')], {}),
            ('WO', [({'W': L('+?'), 'O': L('?+')}, {'top_chemical': 'Octane'}, 'mem')], {}),
        ]
    out = []
    for keys, calls, opts in fam:
        nm = f"{keys}/" + '>'.join((dist_name(d, keys) if d else 'same') + ''.join(f';{a}={b}' for a, b in sorted(kw.items()))
                                   + (';remembered' if mem else '') for d, kw, mem in calls)
        out.append(dict({'k': 1, 'modes': ['int']}, **opts, name=nm, pkg=keys, calls=[[d, kw, mem] for d, kw, mem in calls]))
    return out


@group('C03/gap_lle_calls', configs=lle_calls_configs,
       functions=['thermosteam.equilibrium.lle:LLE.__call__', 'thermosteam.equilibrium.lle:LLE.get_liquid_mol_data',
                  'thermosteam.equilibrium.binary_phase_fraction:phase_fraction',
                  'thermosteam.equilibrium.binary_phase_fraction:as_valid_fraction',
                  'thermosteam.equilibrium.binary_phase_fraction:compute_phase_fraction_2N',
                  'thermosteam.equilibrium.binary_phase_fraction:solve_phase_fraction_Rashford_Rice'],
       assumptions=['callee contract: LLE.solve_lle_liquid_mol returns 0 <= mol_L <= mol (proved in C03/gap_lle_solver_box)',
                    'A-root (no bound used): flx.find_bracket / flx.IQ_interpolation inside binary_phase_fraction return arbitrary reals'])
def lle_calls(w, cfg):
    """LLE.__call__ with the real binary_phase_fraction.phase_fraction, the parameters update / use_cache / single_loop / P."""
    W.reset_caches()
    env = Env(w, cfg)
    keys = cfg['pkg']
    try:
        B.install_lle_stubs(env)
        env.patch(lle_mod, 'phase_fraction', binary_mod.phase_fraction)       # the real one again
        install_binary_stubs(env)
        th = B.havoc_thermo(env, keys)
        s = tmo.MultiStream(None, phases=('L', 'l'), thermo=th)
        lle = s.lle
        now = before = None
        for n, (dist, kw, mem) in enumerate(cfg['calls']):
            before = replant(w, s, f'f{n}', dist, keys) if dist else flows_now(s)
            T = w.real(f'c{n}.T', lo=0., lo_strict=True)
            if mem:
                # ANY state an earlier call on the same chemicals leaves behind (C03/lle): K >= 0, phi in [0, 1]; here at the
                # same temperature and composition, so that the decision to reuse it is not what is explored
                cs = s.chemicals
                idx = cs.get_lle_indices({i for i, ID in enumerate(cs.IDs) if any(before.get((ph, ID), 0.) is not 0. for ph in 'lL')})
                tot = [before.get(('l', cs.IDs[i]), 0.) + before.get(('L', cs.IDs[i]), 0.) for i in idx]
                F = sum(tot)
                lle._lle_chemicals = [cs.tuple[i] for i in idx]
                lle._K = env.arr([env.leaf(f'K_mem{i}', lo=0.) for i in idx])
                lle._phi = env.unit('phi_mem')
                lle._T = T
                lle._z_mol = env.arr([t / F for t in tot])
            kw = dict(kw)
            P = kw.pop('P') if 'P' in kw else w.real(f'c{n}.P', lo=0., lo_strict=True)
            try:
                lle(T, P, **kw)
            except NOT_NORMAL as e:
                w.note(outcome=f'call {n}: {type(e).__name__}')
                return
            now = ensure_material(w, s, before, keys, owned=('l', 'L'), vle=False, tag=f'call {n}: ')
        ID = chem(keys[0]).ID
        w.canary('canary: L flow of first chemical is its total + 1',
                 w.eq(now['L', ID], before.get(('l', ID), 0.) + before.get(('L', ID), 0.) + 1))
        w.note(calls=dict(env.calls), flows=now)
    finally:
        env.restore()


# --------------------------------------------------------------------------- 8. mode B: real solvers, histories and entry points

B_PKGS = ['WEM', 'WEN', 'WEX', 'WEO', 'WENX', 'NWX', 'XEW', 'WMT', 'WOT', 'WEG']
for _k in B_PKGS:
    pkg(_k)


def real_history_configs(tier):
    import random
    seed = int(os.environ.get('VERIF_SEED', '0') or 0)
    rnd = random.Random(4000 + seed)
    n_seq, n_ctor, n_mix, n_shgo = (36, 6, 8, 2) if tier == 'quick' else (400, 40, 60, 10)
    out = []

    def flows(keys, phases, p_present=0.75):
        d = {}
        present = [k for k in keys if rnd.random() < p_present] or [keys[0]]
        for k in present:
            tot = 10 ** rnd.uniform(-3, 3)
            r = rnd.random()
            if r < 0.5:
                d[f'{rnd.choice(phases)}.{k}'] = tot
            else:
                cut = sorted(rnd.random() for _ in range(len(phases) - 1))
                for ph, f in zip(phases, [b - a for a, b in zip([0.] + cut, cut + [1.])]):
                    d[f'{ph}.{k}'] = tot * f
        return d

    def op(keys):
        r = rnd.random()
        vals = {'T': rnd.uniform(280., 450.), 'P': 10 ** rnd.uniform(4.3, 6.3), 'V': rnd.choice([0., 1., rnd.random(), rnd.random()]),
                'dH': rnd.uniform(-0.3, 0.3), 'Vref': rnd.uniform(0.05, 0.95)}
        has_T = 'T' in keys
        # 'TPr': T is read off a reference flash (P, V=Vref) of a copy, so that the call lands in the two-phase region
        if r < 0.45: return ['vle', rnd.choice(['TP', 'TPr', 'TPr', 'TV', 'PV', 'PH', 'PS']), vals]
        if r < 0.60: return ['lle', rnd.choice([None, 'Water', CHEMS[keys[-1]][0]]), dict(vals, T=rnd.uniform(280., 370.))]
        if r < 0.70 and has_T: return ['sle', rnd.choice(['T', 'T', 'H']), dict(vals, T=rnd.uniform(270., 330.))]
        if r < 0.78: return ['vlle', None, dict(vals, T=rnd.uniform(300., 380.), P=101325. * rnd.choice([0.5, 1., 2.]))]
        if r < 0.90: return ['scale', rnd.choice(keys), {'f': 10 ** rnd.uniform(-1, 1)}]       # same chemicals, other amounts
        if r < 0.95: return ['set', rnd.choice(keys), {'phase': rnd.choice('gl'), 'v': 10 ** rnd.uniform(-3, 3)}]   # a chemical appears
        return ['zero', rnd.choice(keys), {}]                                                    # a chemical disappears

    for n in range(n_seq):
        keys = B_PKGS[n % len(B_PKGS)]
        start = rnd.choice([['Stream', 'l'], ['Stream', 'g'], ['Multi', 'gl'], ['Multi', 'gl'], ['Multi', 'lL'], ['Multi', 'ls'], ['Multi', 'Lgl']])
        ops = [op(keys) for _ in range(5)]
        if not any(o[0] in ('vle', 'lle', 'sle', 'vlle') for o in ops[1:]):
            ops.append(['vle', 'TP', {'T': rnd.uniform(300., 420.), 'P': 101325.}])
        if n % 3 == 0 and 'W' in keys and 'E' in keys:
            # a REACTIVE flash earlier in the history (it changes the material by design and is not checked itself; the ordinary
            # calculations after it are - added after seeded change C03_6: reaction bookkeeping left on the solver object)
            ops.insert(rnd.choice([0, 1]), ['rvle', None, {'T': rnd.uniform(345., 365.), 'P': 101325., 'X': rnd.uniform(0.1, 0.5)}])
            ops.append(['vle', 'TPr', {'T': 0., 'P': 101325., 'V': 0.5, 'dH': 0., 'Vref': rnd.uniform(0.2, 0.8)}])
        out.append({'name': f'seq/{keys}/{start[0]}-{start[1]}/{n}', 'kind': 'seq', 'pkg': keys, 'start': start,
                    'flows': flows(keys, start[1]), 'ops': ops})
    for n in range(n_ctor):
        keys = ['WEO', 'WEN', 'WEX', 'WEM'][n % 4]
        multi = n % 2 == 1
        out.append({'name': f"ctor/{keys}/{'MultiStream' if multi else 'Stream'}(vlle=True)/{n}", 'kind': 'ctor', 'pkg': keys, 'multi': multi,
                    'flows': flows(keys, 'Lgl' if multi else 'l', 1.0), 'vals': {'T': rnd.uniform(300., 380.), 'P': 101325. * rnd.choice([0.5, 1., 2.])}})
    for n in range(n_mix):
        keys = ['WEM', 'WEN', 'WEX', 'WENX'][n % 4]
        inlets = [[rnd.choice([['Stream', 'l'], ['Stream', 'g'], ['Multi', 'gl']]), None, rnd.uniform(290., 420.)] for _ in range(rnd.choice([2, 2, 3]))]
        for i in inlets: i[1] = flows(keys, i[0][1], 0.7)
        out.append({'name': f'mix/{keys}/{n}', 'kind': 'mix', 'pkg': keys, 'inlets': inlets, 'eb': n % 2 == 0,
                    'recv': rnd.choice(['new', 'multi', 0]), 'how': 'sum' if n % 4 == 3 else 'mix_from'})
    for n in range(8 if tier == 'quick' else 60):
        keys = ['WEN', 'WENX', 'NWX', 'WENX'][n % 4]
        gas = {f'g.{k}': 10 ** rnd.uniform(-2, 3) for k in keys if CHEMS[k][1] == 'g' or (CHEMS[k][1] is None and rnd.random() < 0.4)}
        liq = {f'l.{k}': 10 ** rnd.uniform(-2, 3) for k in keys if CHEMS[k][1] == 'l' or (CHEMS[k][1] is None and rnd.random() < 0.8)}
        out.append({'name': f'vent/{keys}/{n}', 'kind': 'vent', 'pkg': keys, 'gas': gas, 'liq': liq, 'eb': n % 2 == 0,
                    'vals': {'Tg': rnd.uniform(290., 400.), 'Tl': rnd.uniform(290., 370.)}})
    for n in range(4 if tier == 'quick' else 24):
        # an ordinary flash AFTER a reactive flash on the same stream (added after seeded change C03_6)
        keys = ['WEM', 'WEX', 'WEO', 'WENX'][n % 4]
        out.append({'name': f'react/{keys}/{n}', 'kind': 'react', 'pkg': keys, 'flows': flows(keys, 'l', 1.0),
                    'vals': {'Vref': rnd.uniform(0.25, 0.75), 'P': 101325. * rnd.choice([0.5, 1., 2.]), 'X': rnd.uniform(0.1, 0.6)}})
    for n in range(n_shgo):
        keys = ['WE', 'WEM'][n % 2]
        out.append({'name': f'shgo/{keys}/{n}', 'kind': 'shgo', 'pkg': keys, 'flows': flows(keys, 'gl', 1.0),
                    'vals': {'Vref': rnd.uniform(0.1, 0.9), 'P': 101325.}})
    return out


def _plant_real(s, flows):
    before = {}
    for key, v in flows.items():
        ph, k = key.split('.')
        ID = chem(k).ID
        if isinstance(s, tmo.MultiStream): s.imol[ph, ID] = v
        else: s.imol[ID] = v
        before[ph, ID] = v
    return before


def _named_totals(s, IDs):
    """Totals read BY NAME through the public indexer (the raw rows are read by position in ensure_material)."""
    return {ID: float(s.imol[ID]) for ID in IDs}


@group('C03/gap_real_histories', configs=real_history_configs, mode='B',
       functions=['thermosteam.equilibrium.vle:VLE.__call__', 'thermosteam.equilibrium.vle:VLE._setup',
                  'thermosteam.equilibrium.lle:LLE.__call__', 'thermosteam.equilibrium.sle:SLE.__call__',
                  'thermosteam._stream:Stream.vlle', 'thermosteam._stream:Stream.vle', 'thermosteam._stream:Stream.lle',
                  'thermosteam._stream:Stream.sle', 'thermosteam._stream:Stream.__init__', 'thermosteam._multi_stream:MultiStream.__init__',
                  'thermosteam._stream:Stream.mix_from', 'thermosteam._stream:Stream.sum', 'thermosteam.equilibrium.vle:VLE._solve_v',
                  'thermosteam._stream:Stream.receive_vent'],
       notes='real solvers and property models, fixed pseudo-random family (VERIF_SEED): (seq) one stream - single-phase Stream l/g or '
             'MultiStream gl/lL/ls/Lgl on packages of 3-4 chemicals (water, ethanol, methanol, octane, N2 g-locked, NaCl/glucose '
             'l-locked, tetradecanol; locked chemicals also first in the package) - and five successive operations drawn from '
             'vle(TP|TV|PV|PH|PS), lle(top_chemical), sle(T|H), vlle and user edits (scale one chemical, set a flow, remove a '
             'chemical), T 270-450 K, P 2e4-2e6 Pa (T of a T,P flash also read off a reference flash at a random vapour fraction), flows 1e-3..1e3 kmol/hr; (ctor) Stream/MultiStream(..., vlle=True); (mix) '
             'mix_from / Stream.sum with vle=True, 2-3 inlets, with and without energy balance, receiver fresh or an inlet; (shgo) '
             "VLE with method='shgo' at T,P; (vent) Stream.receive_vent between a gas and a liquid stream (both streams together "
             'are the material of the calculation), with and without energy balance.  The sentences of C03 after every calculation that returns normally, flows read by '
             'position and by name; 36+6+8+8+2 inputs quick, 400+40+60+60+10 thorough')
def real_histories(w, cfg):
    W.reset_caches()
    keys = cfg['pkg']
    th = pkg(keys)
    IDs = [chem(k).ID for k in keys]
    kind = cfg['kind']
    done = 0

    def attempt(f, retried=False):
        try:
            f()
            return True
        except Exception as e:      # the property speaks about calls that return normally
            if isinstance(e, ReferenceError) and not retried:      # numba's on-disk cache (environment): once more
                return attempt(f, True)
            w.note(**{f'outcome{done}': f'{type(e).__name__}: {e}'[:100]})
            return False

    def check(s, before, owned, vle, tag):
        named0 = {}
        for (ph, ID), v in before.items(): named0[ID] = named0.get(ID, 0.) + v
        now = ensure_material(w, s, before, keys, owned=owned, vle=vle, tag=tag)
        named = _named_totals(s, IDs)
        for ID in IDs:
            w.ensure(f'{tag}total[{ID}] unchanged (read by name)', w.eq(named[ID], named0.get(ID, 0.)))
        for (ph, ID), x in now.items():
            w.ensure(f'{tag}finite flow[{ph},{ID}]', x == x and abs(x) != float('inf'))
        return now

    if kind == 'seq':
        cls, phases = cfg['start']
        s = tmo.Stream(None, phase=phases, thermo=th) if cls == 'Stream' else tmo.MultiStream(None, phases=tuple(phases), thermo=th)
        _plant_real(s, cfg['flows'])
        for n, (op, arg, v) in enumerate(cfg['ops']):
            before = {k: x for k, x in flows_now(s).items() if x}
            if op == 'scale':
                ID = chem(arg).ID
                for ph, sv in W.rows_of(s):
                    i = s.chemicals.index(ID)
                    if i in sv.dct: sv[i] = sv.dct[i] * v['f']
                continue
            if op == 'zero':
                for ph, sv in W.rows_of(s): sv[s.chemicals.index(chem(arg).ID)] = 0.
                continue
            if op == 'set':
                if isinstance(s, tmo.MultiStream) and v['phase'] in s.phases: s.imol[v['phase'], chem(arg).ID] = v['v']
                elif not isinstance(s, tmo.MultiStream): s.imol[chem(arg).ID] = v['v']
                continue
            if op == 'rvle':
                rxn = tmo.Reaction('Ethanol -> Water', reactant='Ethanol', X=v['X'], chemicals=th.chemicals, check_atomic_balance=False)
                attempt(lambda: s.vle(T=v['T'], P=v['P'], liquid_conversion=rxn))
                continue
            if op == 'vle':
                kw = {}
                for c in arg:
                    if c in 'TPV': kw[c] = v[c]
                if arg == 'TPr':
                    ref = s.copy()
                    if not attempt(lambda: ref.vle(P=v['P'], V=v['Vref'])): continue
                    kw['T'] = ref.T
                if 'H' in arg or 'S' in arg:
                    ref = {}
                    if not attempt(lambda: ref.update(H=s.H, S=s.S)): continue
                    # a value near the present one (relative shift; the sign of H is arbitrary)
                    if 'H' in arg: kw['H'] = ref['H'] + v['dH'] * abs(ref['H'])
                    else: kw['S'] = ref['S'] * (1. + 0.2 * v['dH'])
                ok = attempt(lambda: s.vle(**kw)); owned = ('g', 'l')
            elif op == 'lle':
                ok = attempt(lambda: s.lle(v['T'], top_chemical=arg)); owned = ('l', 'L')
            elif op == 'sle':
                ok = attempt(lambda: s.sle('Tetradecanol', **({'T': v['T']} if arg == 'T' else {'H': s.H * (1. + v['dH'])}))); owned = ('l', 's')
            else:
                ok = attempt(lambda: s.vlle(v['T'], v['P'])); owned = ('L', 'g', 'l')
            if not ok: continue
            done += 1
            check(s, before, owned, op in ('vle', 'vlle'), f'op {n} ({op}): ')
    elif kind == 'react':
        v = cfg['vals']
        s = tmo.Stream(None, phase='l', thermo=th)
        _plant_real(s, cfg['flows'])
        ref = s.copy()
        if attempt(lambda: ref.vle(P=v['P'], V=v['Vref'])):
            T0 = ref.T
            rxn = tmo.Reaction('Ethanol -> Water', reactant='Ethanol', X=v['X'], chemicals=th.chemicals, check_atomic_balance=False)
            reacted = attempt(lambda: s.vle(T=T0, P=v['P'], liquid_conversion=rxn))      # changes the material by design; not checked
            w.note(reactive_flash_returned=reacted)
            for n, dT in enumerate((0.5, -0.5, 0.)):
                before = {k: x for k, x in flows_now(s).items() if x}
                if attempt(lambda: s.vle(T=T0 + dT, P=v['P'])):
                    done += 1
                    check(s, before, ('g', 'l'), True, f'ordinary flash #{n} after a reactive flash: ')
    elif kind == 'ctor':
        v = cfg['vals']
        before = {}
        by = {}
        for key, x in cfg['flows'].items():
            ph, k = key.split('.')
            before[ph, chem(k).ID] = x
            by.setdefault(ph, []).append((chem(k).ID, x))
        made = {}
        if cfg['multi']:
            ok = attempt(lambda: made.update(s=tmo.MultiStream(None, thermo=th, T=v['T'], P=v['P'], vlle=True, **by)))
        else:
            ok = attempt(lambda: made.update(s=tmo.Stream(None, thermo=th, T=v['T'], P=v['P'], vlle=True, **dict(by['l']))))
        if ok:
            done += 1
            s = made['s']
            check(s, before, ('L', 'g', 'l'), 'g' in [p for p, _ in W.rows_of(s)], '')
    elif kind == 'mix':
        inlets, pooled = [], {}
        for (cls, phases), fl, T in cfg['inlets']:
            s = tmo.Stream(None, phase=phases, thermo=th, T=T) if cls == 'Stream' else tmo.MultiStream(None, phases=tuple(phases), thermo=th, T=T)
            for (ph, ID), x in _plant_real(s, fl).items(): pooled['l', ID] = pooled.get(('l', ID), 0.) + x
            inlets.append(s)
        made = {}
        if cfg['how'] == 'sum':
            ok = attempt(lambda: made.update(s=tmo.Stream.sum(inlets, None, th, cfg['eb'], True)))
        else:
            r = cfg['recv']
            out = tmo.Stream(None, thermo=th) if r == 'new' else tmo.MultiStream(None, phases=('g', 'l'), thermo=th) if r == 'multi' else inlets[r]
            ok = attempt(lambda: out.mix_from(inlets, energy_balance=cfg['eb'], vle=True))
            made['s'] = out
        if ok and len([i for i in cfg['inlets'] if i[1]]) > 1:
            done += 1
            s = made['s']
            phases = [p for p, _ in W.rows_of(s)]
            now = check(s, pooled, tuple(phases), 'g' in phases, '')
            if 'g' not in phases:
                for k in keys:
                    if CHEMS[k][1] == 'g':
                        w.ensure(f'gas-locked {chem(k).ID}: nothing outside g', all(now[p, chem(k).ID] == 0. for p in phases))
    elif kind == 'vent':
        # Stream.receive_vent: an approximate vapour-liquid calculation between a gas stream and a liquid stream (it relies on
        # the side effects of VLE._setup); the two streams together are the material the calculation owns
        v = cfg['vals']
        gas = tmo.Stream(None, phase='g', thermo=th, T=v['Tg'])
        liq = tmo.Stream(None, phase='l', thermo=th, T=v['Tl'])
        before = {**_plant_real(gas, cfg['gas']), **_plant_real(liq, cfg['liq'])}
        if attempt(lambda: gas.receive_vent(liq, energy_balance=cfg['eb'])):
            done += 1
            g_now, l_now = flows_now(gas), flows_now(liq)
            for k, ID in zip(keys, IDs):
                t0 = before.get(('g', ID), 0.) + before.get(('l', ID), 0.)
                t1 = sum(x for (p, i), x in list(g_now.items()) + list(l_now.items()) if i == ID)
                w.ensure(f'total[{ID}] over both streams unchanged', w.eq(t1, t0))
                for (p, i), x in list(g_now.items()) + list(l_now.items()):
                    if i == ID: w.ensure(f'flow[{p},{ID}] >= 0', w.ge(x, 0.))
                if CHEMS[k][1] == 'g': w.ensure(f'gas-locked {ID}: nothing in the liquid stream', all(x == 0. for (p, i), x in l_now.items() if i == ID))
                if CHEMS[k][1] in ('l', 's'): w.ensure(f'l-locked {ID}: nothing in the gas stream', all(x == 0. for (p, i), x in g_now.items() if i == ID))
            w.ensure('the receiver is still a gas stream and the other a liquid stream', gas.phase == 'g' and liq.phase == 'l')
    else:
        s = tmo.MultiStream(None, phases=('g', 'l'), thermo=th)
        before = _plant_real(s, cfg['flows'])
        v = cfg['vals']
        ref = s.copy()
        vle = s.vle
        vle.method = 'shgo'
        # T from a reference flash (default method) of a copy at (P, V=Vref): inside the two-phase region
        if attempt(lambda: ref.vle(P=v['P'], V=v['Vref'])) and attempt(lambda: vle(T=ref.T, P=v['P'])):
            done += 1
            check(s, before, ('g', 'l'), True, '')
    if not done:
        w.assume(False)     # nothing returned normally: no statement about this input
    w.note(checked_calculations=done)


# --------------------------------------------------------------------------- 9. VLE with method 'shgo': thermosteam's own wrapper of the optimiser

REAL_SOLVE_VLE_SHGO = vle_mod.solve_vle_vapor_mol_shgo      # bound at import time, before any stub is installed


def vle_shgo_configs(tier):
    G = by_phase
    fam = [('WE', {'W': G('?+'), 'E': G('+?')}, 'solve_v'), ('WEN', {'W': G('0+'), 'E': G('+0'), 'N': G('0+')}, 'TP')]
    if tier == 'thorough':
        fam += [('WEM', {'W': G('?+'), 'E': G('+?'), 'M': G('++')}, 'solve_v'), ('WEX', {'W': G('0+'), 'E': G('+0'), 'X': G('+0')}, 'TP')]
    return [{'name': f'{keys}/{dist_name(d, keys)}/{how}', 'pkg': keys, 'dist': d, 'how': how, 'k': 1} for keys, d, how in fam]


@group('C03/gap_vle_shgo', configs=vle_shgo_configs,
       functions=['thermosteam.equilibrium.vle:solve_vle_vapor_mol_shgo', 'thermosteam.equilibrium.vle:VLE._solve_v',
                  'thermosteam.equilibrium.vle:VLE.set_thermal_condition', 'thermosteam.equilibrium.vle:set_flows',
                  'thermosteam.equilibrium.vle:VLE._setup'],
       assumptions=['A-opt: scipy shgo returns a point inside the bounds it is handed',
                    'A-bubble/dew, A-models as in C03/vle_TP'])
def vle_shgo(w, cfg):
    """
    method = 'shgo': the REAL solve_vle_vapor_mol_shgo builds the box for scipy's optimiser (C03/solve_v_clip replaces the
    whole function by "returns a point in [0, z]"); 'solve_v': VLE._solve_v then set_flows, 'TP': a whole T,P flash.
    """
    W.reset_caches()
    env = Env(w, cfg)
    keys = cfg['pkg']
    try:
        B.install_vle_stubs(env)
        env.patch(vle_mod, 'solve_vle_vapor_mol_shgo', REAL_SOLVE_VLE_SHGO)       # the real one again (install_vle_stubs replaced it)

        class Result:
            def __init__(self, x): self.x = x

        def shgo(fun, bounds, args=(), **kw):
            env.count('shgo')
            out = []
            for i in range(len(bounds)):
                x = env.leaf(f'shgo_x{i}')
                w.assume(w.And(w.ge(x, bounds[i][0]), w.le(x, bounds[i][1])))
                out.append(x)
            return Result(env.arr(out))

        env.patch(vle_mod, 'shgo', shgo)
        th = B.havoc_thermo(env, keys)
        s = tmo.MultiStream(None, phases=('g', 'l'), thermo=th)
        before = replant(w, s, 'f', cfg['dist'], keys)
        vle = s.vle
        vle.method = 'shgo'
        T = w.real('T', lo=0., lo_strict=True)
        P = w.real('P', lo=0., lo_strict=True)
        try:
            if cfg['how'] == 'TP':
                vle(T=T, P=P)
            else:
                vle._setup()
                if vle._N < 2:
                    return
                v = vle._solve_v(T, P)
                vle_mod.set_flows(vle._vapor_mol, vle._liquid_mol, vle._index, v, vle._mol_vle)
        except NOT_NORMAL as e:
            w.note(outcome=type(e).__name__)
            return
        now = ensure_material(w, s, before, keys, owned=('g', 'l'))
        ID = chem(keys[0]).ID
        w.canary('canary: gas flow of first chemical is zero', w.eq(now['g', ID], 0.))
        w.note(calls=dict(env.calls), flows=now)
    finally:
        env.restore()


# --------------------------------------------------------------------------- 10. SLE with ideal activity coefficients (no iteration)

def sle_ideal_configs(tier):
    P = lambda s: by_phase(s, 'ls')
    fam = [('WT', {'W': P('+0'), 'T': P('?+')}, ['T']), ('WT', {'W': P('+?'), 'T': P('++')}, ['H']),
           ('WT', {'W': P('+0'), 'T': P('+0')}, ['T', 'T'])]
    if tier == 'thorough':
        fam += [('WMT', {'W': P('+?'), 'M': P('?+'), 'T': P('??')}, ['T', 'H'])]
    return [{'name': f"{keys}/{dist_name(d, keys)}/{'+'.join(calls)}", 'pkg': keys, 'dist': d, 'calls': calls, 'k': 1} for keys, d, calls in fam]


@group('C03/gap_sle_ideal', configs=sle_ideal_configs,
       functions=['thermosteam.equilibrium.sle:SLE.__call__', 'thermosteam.equilibrium.sle:SLE._setup',
                  'thermosteam.equilibrium.sle:SLE._solve_x', 'thermosteam.equilibrium.sle:SLE._update_solubility'],
       assumptions=['A-models: solubility_eutectic, Cn, mixture energies return arbitrary values',
                    'A-iter: flx.aitken only evaluates its callback (k times, arbitrary arguments)'])
def sle_ideal(w, cfg):
    """The branch of SLE._solve_x for ideal activity coefficients (the package default without UNIFAC groups), incl. a repeated call."""
    W.reset_caches()
    env = Env(w, cfg)
    keys = cfg['pkg']
    solute = 'Tetradecanol'
    try:
        B.install_sle_stubs(env)
        th = B.havoc_thermo(env, keys, Gamma=eq.IdealActivityCoefficients)
        s = tmo.MultiStream(None, phases=('l', 's'), thermo=th)
        before = replant(w, s, 'f', cfg['dist'], keys)
        sle = s.sle
        sle.activity_coefficient = w.real('activity_coefficient', lo=0., lo_strict=True)
        now = None
        for n, call in enumerate(cfg['calls']):
            pre = flows_now(s)
            kw = {'T': w.real(f'T{n}', lo=0., lo_strict=True)} if call == 'T' else {'H': w.real(f'H{n}')}
            try:
                sle(solute, **kw)
            except NOT_NORMAL as e:
                w.note(outcome=f'call {n}: {type(e).__name__}')
                return
            now = ensure_material(w, s, before, keys, owned=('l', 's'), vle=False, tag=f'call {n}: ')
            for (ph, ID), v in sorted(now.items()):
                if ID != solute:
                    w.ensure(f'call {n}: frame: only the solute moves, flow[{ph},{ID}] unchanged', w.eq(v, pre[ph, ID]))
        w.canary('canary: solid solute unchanged + 1', w.eq(now['s', solute], before.get(('s', solute), 0.) + 1))
        w.note(calls=dict(env.calls), flows=now)
    finally:
        env.restore()
        B.StubGamma.env_now = None
