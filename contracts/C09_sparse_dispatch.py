# -*- coding: utf-8 -*-
"""
C09, mode S — the public operator/indexing/reduction layer of thermosteam.base.sparse
(exec-generated dispatchers, reduce_ndim, get_ndim, constructors, __getitem__/__setitem__,
reductions) against NumPy itself: the oracle is the same operator applied by NumPy to the
dense images holding the *same* leaves (object arrays symbolically, float arrays natively).
The kernels underneath are the real ones (sizes <= 3 here; arbitrary sizes are mode U).
"""
import itertools
import operator
import numpy as np
from thermosteam.base import sparse as sparse_fn
import sys
from engine.api import group
sp = sys.modules['thermosteam.base.sparse']
SparseVector, SparseArray, SparseLogicalVector = sp.SparseVector, sp.SparseArray, sp.SparseLogicalVector

BIN = {'add': operator.add, 'sub': operator.sub, 'mul': operator.mul, 'truediv': operator.truediv}
IBIN = {'iadd': operator.iadd, 'isub': operator.isub, 'imul': operator.imul, 'itruediv': operator.itruediv}
CMP = {'eq': operator.eq, 'ne': operator.ne, 'gt': operator.gt, 'lt': operator.lt, 'ge': operator.ge, 'le': operator.le}
EXC = (ValueError, IndexError, TypeError)


def leafarr(w, name, shape, nonzero=False, kind='maybe'):
    """Dense array of leaves (object array symbolically, float array natively) + presence decisions."""
    n = int(np.prod(shape)) if shape else 1
    vals = [w.real(f'{name}{i}', nonzero=nonzero) for i in range(n)]
    arr = np.array(vals, dtype=object if w.symbolic else float).reshape(shape)
    return arr


def mk_operand(w, name, kind, shape, nonzero=False):
    """Returns (operand handed to the sparse code, dense NumPy image)."""
    if kind == 'scalar':
        v = w.real(name, nonzero=nonzero)
        return v, v
    dense = leafarr(w, name, shape, nonzero)
    if kind == 'ndarray':
        return dense.copy(), dense
    if kind == 'list':
        return dense.tolist(), dense
    if kind == 'SparseVector':
        return SparseVector(dense.tolist()), dense
    if kind == 'SparseArray':
        return SparseArray(dense.tolist()), dense
    raise ValueError(kind)


def image(x):
    """Dense image of a sparse result (or the array itself)."""
    if isinstance(x, SparseVector):
        return np.array([x.dct.get(i, 0.) for i in range(x.size)], dtype=object)
    if isinstance(x, SparseLogicalVector):
        return np.array([i in x.set for i in range(x.size)], dtype=bool)
    if isinstance(x, SparseArray):
        rows = [image(r) for r in x.rows]
        return np.array(rows, dtype=object if rows and rows[0].dtype == object else bool).reshape(len(rows), x.vector_size)
    return np.asarray(x)


def rep_ok(w, x):
    rows = x.rows if isinstance(x, SparseArray) else [x]
    cs = []
    for r in rows:
        if isinstance(r, SparseVector):
            for i, v in r.dct.items():
                cs.append(w.ne(v, 0.)); cs.append(0 <= i < r.size)
        elif isinstance(r, SparseLogicalVector):
            for i in r.set: cs.append(0 <= i < r.size)
    return w.And(*cs)


def same(w, got, exp):
    got = np.asarray(got); exp = np.asarray(exp)
    if got.shape != exp.shape:
        return w.And(False)
    if exp.dtype == bool or got.dtype == bool:
        # comparisons: symbolic side yields SymBool objects in an object array or concrete bools
        cs = []
        for a, b in zip(got.flat, exp.flat):
            if isinstance(a, (bool, np.bool_)) and isinstance(b, (bool, np.bool_)):
                cs.append(bool(a) == bool(b))
            else:
                cs.append(w.Or(w.And(a, b), w.And(w.Not(a), w.Not(b))))
        return w.And(*cs)
    return w.And(*[w.eq(a, b) for a, b in zip(got.flat, exp.flat)])


def np_cmp(opname, A, B, w):
    """NumPy's comparison on the dense images, keeping symbolic truth values (object arrays)."""
    f = CMP[opname]
    if w.symbolic:
        A = np.asarray(A, dtype=object); B = np.asarray(B, dtype=object)
        bc = np.broadcast(A, B)
        out = np.empty(bc.shape, dtype=object)
        out.flat = [_sb(w, f(a, b)) for a, b in bc]
        return out
    return f(np.asarray(A, dtype=float), np.asarray(B, dtype=float))


def _sb(w, v):
    from engine.sx.sym import SymBool
    return v.t if isinstance(v, SymBool) else bool(v)


def cmp_image(w, x):
    """image of a logical result as truth terms."""
    if isinstance(x, SparseLogicalVector):
        return np.array([i in x.set for i in range(x.size)], dtype=bool)
    if isinstance(x, SparseArray):
        return np.array([[i in r.set for i in range(r.size)] for r in x.rows], dtype=bool).reshape(len(x.rows), x.vector_size)
    return np.asarray(x)


# --------------------------------------------------------------------------- binary / in-place / comparison operators

LEFTS = [('SparseVector', (1,)), ('SparseVector', (2,)), ('SparseVector', (3,)), ('SparseArray', (1, 2)), ('SparseArray', (2, 2)), ('SparseArray', (2, 3))]
RIGHTS = [('scalar', ()), ('list', (1,)), ('list', (2,)), ('ndarray', (3,)), ('ndarray', (2,)), ('ndarray', (1, 2)), ('ndarray', (2, 2)), ('ndarray', (2, 1)),
          ('SparseVector', (1,)), ('SparseVector', (2,)), ('SparseVector', (3,)), ('SparseArray', (1, 2)), ('SparseArray', (2, 2)), ('SparseArray', (2, 3))]
QUICK_OPS = ('add', 'truediv', 'isub', 'imul', 'eq', 'gt')


def binop_configs(tier):
    out = []
    ops = list(BIN) + list(IBIN) + list(CMP)
    for (lk, ls), (rk, rs) in itertools.product(LEFTS, RIGHTS):
        for op in ops:
            if ls == (2, 3) and rs == (2, 3) and lk == rk == 'SparseArray' and op in ('gt', 'lt', 'ge', 'le'):
                continue      # 12 maybe-zero leaves x 6 three-way comparisons exceed the path budget; covered at 2x2 and by mode U for any size
            if tier == 'quick':
                # quick: two operators of each class on shapes up to 2x2 (3 only as a mismatching length)
                if op not in QUICK_OPS: continue
                if ls == (2, 3) or rs == (2, 3): continue
                if (ls == (3,)) != (rs == (3,)) and not (ls in ((1,),) or rs in ((1,), ())): pass
                if ls == (3,) and rs not in ((3,), (2,), (), (1,)): continue
                if rs == (3,) and ls not in ((3,), (2,), (1,)): continue
            out.append({'name': f'{lk}{list(ls)} {op} {rk}{list(rs)}', 'l': [lk, list(ls)], 'r': [rk, list(rs)], 'op': op})
    return out


@group('C09/operators', configs=binop_configs,
       functions=['thermosteam.base.sparse:SparseVector.__add__/__sub__/__mul__/__truediv__ (exec templates)',
                  'thermosteam.base.sparse:SparseVector.__iadd__/__isub__/__imul__/__itruediv__ (exec templates)',
                  'thermosteam.base.sparse:SparseVector.__eq__/__ne__/__gt__/__lt__/__ge__/__le__ (exec templates)',
                  'thermosteam.base.sparse:SparseArray.__add__ ... __le__, __iadd__ ... __itruediv__ (exec templates)',
                  'thermosteam.base.sparse:reduce_ndim', 'thermosteam.base.sparse:SparseVector.__init__',
                  'thermosteam.base.sparse:SparseArray.__init__', 'thermosteam.base.sparse:sparse_vector'])
def operators(w, cfg):
    op = cfg['op']
    div = 'truediv' in op
    a, A = mk_operand(w, 'a', cfg['l'][0], tuple(cfg['l'][1]))
    b, B = mk_operand(w, 'b', cfg['r'][0], tuple(cfg['r'][1]), nonzero=div)
    A0 = A.copy()
    B0 = B.copy() if hasattr(B, 'copy') and not np.isscalar(B) else B
    b_img0 = image(b).copy() if not isinstance(b, (list,)) and cfg['r'][0] != 'scalar' else None
    # --- NumPy oracle
    np_exc = None
    try:
        if op in CMP:
            expect = np_cmp(op, A, B, w)
        elif op in BIN:
            expect = BIN[op](A, B)
        else:
            tmp = A.copy()
            expect = IBIN[op](tmp, B)
    except EXC as e:
        np_exc = e
    # --- sparse
    sp_exc = None
    try:
        if op in IBIN:
            r = IBIN[op](a, b)
        elif op in CMP:
            r = CMP[op](a, b)
        else:
            r = BIN[op](a, b)
    except EXC as e:
        sp_exc = e
    w.note(numpy=('raises ' + type(np_exc).__name__) if np_exc else 'ok', sparse=('raises ' + type(sp_exc).__name__) if sp_exc else 'ok')
    if np_exc is not None:
        w.ensure('NumPy rejects the shapes => sparse rejects them', sp_exc is not None)
        if op in IBIN and sp_exc is not None:
            w.ensure('rejected in-place operation leaves the target unchanged', same(w, image(a), A0))
        w.canary('canary: accepted', sp_exc is None and np_exc is None)
        return
    w.ensure('NumPy accepts the shapes => sparse accepts them', sp_exc is None, exc=str(sp_exc))
    if sp_exc is not None:
        return
    if op in CMP:
        w.ensure('dense image = NumPy result', same(w, cmp_image(w, r), expect))
    else:
        w.ensure('dense image = NumPy result', same(w, image(r), expect))
        if isinstance(r, (SparseVector, SparseArray)):
            w.ensure('rep_ok(result)', rep_ok(w, r))
    if op in IBIN:
        w.ensure('in-place returns the target', r is a)
    else:
        w.ensure('operand a unchanged', same(w, image(a), A0))
    if b_img0 is not None:
        w.ensure('operand b unchanged', same(w, image(b), b_img0))
    first = np.asarray(expect).flat[0] if np.asarray(expect).size else None
    if first is not None and op not in CMP:
        w.canary('canary: result + 1', w.eq(image(r).flat[0], first + 1))
    else:
        w.canary('canary: sparse raises', sp_exc is not None)


# --------------------------------------------------------------------------- writes to read-only arrays are rejected
# (added after the seeded change C09_4: SparseVector.__itruediv__ generated without the read-only test.  The statement says
#  "writes to read-only arrays are rejected"; every way of writing is tried on a read-only target with every operand kind.)

RO_WRITES = ['iadd', 'isub', 'imul', 'itruediv', 'setitem-int', 'setitem-slice', 'setitem-all', 'clear']
RO_OPERANDS = [('scalar', ()), ('list', (1,)), ('list', (2,)), ('ndarray', (2,)), ('ndarray', (1, 2)), ('SparseVector', (1,)),
               ('SparseVector', (2,)), ('SparseArray', (1, 2))]


def ro_configs(tier):
    out = []
    for lk, ls in (('SparseVector', (2,)), ('SparseArray', (2, 2)), ('SparseArray-row', (2, 2))):
        for wr in RO_WRITES:
            for rk, rs in (RO_OPERANDS if wr in IBIN else [('scalar', ())]):
                if tier == 'quick' and wr in ('isub', 'imul') and rk not in ('scalar', 'SparseVector'): continue
                out.append({'name': f'read-only {lk}{list(ls)} {wr} {rk}{list(rs)}', 'l': [lk, list(ls)], 'r': [rk, list(rs)], 'write': wr})
    return out


@group('C09/read_only', configs=ro_configs,
       functions=['thermosteam.base.sparse:SparseVector.__iadd__/__isub__/__imul__/__itruediv__ (exec templates)',
                  'thermosteam.base.sparse:SparseArray.__iadd__ ... __itruediv__ (exec templates)',
                  'thermosteam.base.sparse:SparseVector.__setitem__', 'thermosteam.base.sparse:SparseArray.__setitem__',
                  'thermosteam.base.sparse:SparseVector.clear', 'thermosteam.base.sparse:SparseVector.setflags',
                  'thermosteam.base.sparse:SparseArray.setflags'])
def read_only(w, cfg):
    wr = cfg['write']
    lk = cfg['l'][0]
    a, A = mk_operand(w, 'a', 'SparseArray' if lk.startswith('SparseArray') else lk, tuple(cfg['l'][1]))
    b, B = mk_operand(w, 'b', cfg['r'][0], tuple(cfg['r'][1]), nonzero=True)
    a.setflags(0)
    target = a.rows[0] if lk == 'SparseArray-row' else a      # a row of a read-only 2-d array is read-only too
    A0 = image(a).copy()
    exc = None
    try:
        if wr in IBIN: IBIN[wr](target, b)
        elif wr == 'setitem-int': target[0] = b
        elif wr == 'setitem-slice': target[0:1] = b
        elif wr == 'setitem-all': target[:] = b
        else: target.clear()
    except ValueError as e:
        exc = e
    w.ensure('a write to a read-only array is rejected (ValueError)', exc is not None)
    w.ensure('the read-only array is unchanged', same(w, image(a), A0))
    w.ensure('rep_ok', rep_ok(w, a))
    w.canary('canary: the write went through', exc is None)
    w.canary('canary: first element changed', w.ne(image(a).flat[0], A0.flat[0]))


# --------------------------------------------------------------------------- reductions with axis / keepdims

def red_configs(tier):
    out = []
    shapes = [('SparseVector', (1,)), ('SparseVector', (3,)), ('SparseArray', (1, 2)), ('SparseArray', (2, 2))]
    if tier == 'thorough':
        shapes += [('SparseVector', (2,)), ('SparseArray', (2, 3)), ('SparseArray', (3, 1))]
    for kind, shape in shapes:
        axes = [None, 0] if len(shape) == 1 else [None, 0, 1]
        for red in ('sum', 'mean', 'max', 'min', 'any', 'all'):
            for axis in axes:
                for keepdims in (False, True):
                    out.append({'name': f'{kind}{list(shape)}.{red}(axis={axis},keepdims={keepdims})', 'kind': kind,
                                'shape': list(shape), 'red': red, 'axis': axis, 'keepdims': keepdims})
    return out


@group('C09/reductions', configs=red_configs,
       functions=['thermosteam.base.sparse:SparseVector.sum/mean/max/min/any/all',
                  'thermosteam.base.sparse:SparseArray.sum/mean/max/min/any/all', 'thermosteam.base.sparse:sum_sparse_vectors'])
def reductions(w, cfg):
    a, A = mk_operand(w, 'a', cfg['kind'], tuple(cfg['shape']))
    A0 = A.copy()
    red, axis, keepdims = cfg['red'], cfg['axis'], cfg['keepdims']
    if red in ('any', 'all'):
        Ab = np.array([bool(x) for x in A.flat], dtype=bool).reshape(A.shape)
        expect = getattr(np, red)(Ab, axis=axis, keepdims=keepdims)
    else:
        expect = getattr(np, red)(A, axis=axis, keepdims=keepdims)
    try:
        r = getattr(a, red)(axis=axis, keepdims=keepdims)
    except EXC as e:
        w.ensure('NumPy accepts the reduction => sparse accepts it', False, exc=str(e))
        return
    got = image(r) if isinstance(r, (SparseVector, SparseLogicalVector, SparseArray)) else np.asarray(r)
    if red in ('any', 'all'):
        gotb = np.array([bool(x) for x in np.asarray(got).flat], dtype=bool).reshape(np.shape(got))
        w.ensure('result = NumPy result', bool(gotb.shape == np.shape(expect) and np.array_equal(gotb, expect)),
                 got=str(gotb.tolist()), numpy=str(np.asarray(expect).tolist()))
    else:
        w.ensure('result = NumPy result', same(w, got, expect), got_shape=str(np.shape(got)), numpy_shape=str(np.shape(expect)))
    if isinstance(r, (SparseVector, SparseArray, SparseLogicalVector)):
        w.ensure('rep_ok(result)', rep_ok(w, r))
    w.ensure('operand unchanged', same(w, image(a), A0))
    if red in ('sum', 'mean', 'max', 'min'):
        w.canary('canary: result + 1', w.eq(np.asarray(got).flat[0], np.asarray(expect).flat[0] + 1))
    else:
        w.canary('canary: wrong truth value', bool(np.asarray(got).flat[0]) != bool(np.asarray(expect).flat[0]))


# --------------------------------------------------------------------------- element / slice / fancy / boolean get and set

def _indices(kind):
    if kind == 'SparseVector':   # size 3
        return {'int': 1, 'neg-int-free slice': slice(0, 2), 'open slice': slice(None), 'step slice': slice(0, 3, 2),
                'list': [2, 0], 'ndarray': np.array([0, 2]), 'bool list': [True, False, True], 'bool ndarray': np.array([False, True, True]),
                'tuple(int)': (1,), 'empty list': [],
                # index lists that repeat a position / are longer than the vector (added after seeded change C09_8)
                'repeated list': [1, 1], 'long repeated list': [2, 0, 2, 2, 0], 'repeated ndarray': np.array([0, 0, 2])}
    return {'row': 1, 'row,col': (1, 0), 'row,slice': (0, slice(None)), 'slice,col': (slice(None), 1), 'slice,slice': (slice(None), slice(None)),
            'row list': [1, 0], 'rowlist,collist': ([0, 1], [1, 0]), 'slice,collist': (slice(None), [1, 0]), 'rowlist,slice': ([1], slice(None)),
            'bool rows': [True, False], '2-d bool mask': np.array([[True, False], [False, True]]), 'row,part slice': (1, slice(0, 1)),
            'partslice,col': (slice(0, 1), 1), 'rowlist,col': ([0, 1], 1), 'open slice': slice(None),
            'slice,repeated collist': (slice(None), [1, 1, 0]), 'repeated row list': [1, 1, 0], 'repeated rowlist,collist': ([0, 0, 1], [1, 1, 0]),
            'row,repeated collist': (1, [0, 0, 1]),
            # boolean row masks whose first entry is False (added after seeded change C09_10)
            'bool rows False-first': [False, True], 'bool rows ndarray False-first': np.array([False, True]), 'bool rows,slice False-first': ([False, True], slice(None))}


INDICES_3x2 = {   # three rows: masks and row lists that skip a row before selecting one (added after seeded change C09_10)
    'bool rows F,T,T': [False, True, True], 'bool rows T,F,T': [True, False, True], 'bool rows ndarray F,F,T': np.array([False, False, True]),
    'bool rows F,T,T;slice': ([False, True, True], slice(None)), 'row list 2,0': [2, 0], 'rows 1:3': slice(1, 3)}


def _index_of(cfg):
    if tuple(cfg['shape']) == (3, 2): return INDICES_3x2[cfg['index']]
    return _indices(cfg['kind'])[cfg['index']]


def getset_configs(tier):
    out = []
    for iname in INDICES_3x2:
        out.append({'name': f'SparseArray[3, 2][{iname}] get', 'kind': 'SparseArray', 'shape': [3, 2], 'index': iname, 'op': 'get'})
        for vkind in ('scalar', 'array'):
            out.append({'name': f'SparseArray[3, 2][{iname}] = {vkind}', 'kind': 'SparseArray', 'shape': [3, 2], 'index': iname, 'op': 'set', 'value': vkind})
    for kind, shape in (('SparseVector', (3,)), ('SparseArray', (2, 2))):
        for iname in _indices(kind):
            out.append({'name': f'{kind}{list(shape)}[{iname}] get', 'kind': kind, 'shape': list(shape), 'index': iname, 'op': 'get'})
            for vkind in ('scalar', 'zero', 'array'):
                out.append({'name': f'{kind}{list(shape)}[{iname}] = {vkind}', 'kind': kind, 'shape': list(shape), 'index': iname,
                            'op': 'set', 'value': vkind})
    return out


@group('C09/getset', configs=getset_configs,
       functions=['thermosteam.base.sparse:SparseVector.__getitem__', 'thermosteam.base.sparse:SparseVector.__setitem__',
                  'thermosteam.base.sparse:SparseArray.__getitem__', 'thermosteam.base.sparse:SparseArray.__setitem__',
                  'thermosteam.base.sparse:get_array_properties', 'thermosteam.base.sparse:get_ndim', 'thermosteam.base.sparse:default_range',
                  'thermosteam.base.sparse:unpack_index'])
def getset(w, cfg):
    a, A = mk_operand(w, 'a', cfg['kind'], tuple(cfg['shape']))
    A0 = A.copy()
    index = _index_of(cfg)
    np_index = index
    if cfg['op'] == 'get':
        np_exc = sp_exc = None
        try: expect = A[np_index]
        except (IndexError, ValueError, TypeError) as e: np_exc = e
        try: r = a[index]
        except (IndexError, ValueError, TypeError) as e: sp_exc = e
        if np_exc is not None:
            w.ensure('NumPy rejects the index => sparse rejects it', sp_exc is not None)
            w.canary('canary: accepted', sp_exc is None); return
        w.ensure('NumPy accepts the index => sparse accepts it', sp_exc is None, exc=str(sp_exc))
        if sp_exc is not None: return
        w.ensure('value read = NumPy value', same(w, image(r) if isinstance(r, (SparseVector, SparseArray)) else r, expect),
                 shapes=f'{np.shape(image(r) if isinstance(r, (SparseVector, SparseArray)) else r)} vs {np.shape(expect)}')
        w.ensure('reading leaves the array unchanged', same(w, image(a), A0))
        w.canary('canary: read differs', w.And(False) if np.asarray(expect).size == 0 else w.eq(np.asarray(image(r) if isinstance(r, (SparseVector, SparseArray)) else r, dtype=object).flat[0], np.asarray(expect, dtype=object).flat[0] + 1))
        return
    # set
    target_shape = np.shape(A[np_index]) if True else None
    vk = cfg['value']
    if vk == 'scalar':
        v = w.real('v'); V = v
    elif vk == 'zero':
        v = 0.; V = 0.
    else:
        n = int(np.prod(target_shape)) if target_shape != () else 1
        vals = [w.real(f'v{i}') for i in range(n)]
        V = np.array(vals, dtype=object if w.symbolic else float).reshape(target_shape if target_shape != () else (1,))
        if target_shape == (): V = V[0]
        v = V.copy() if hasattr(V, 'copy') and not np.isscalar(V) and target_shape != () else V
    E = A.copy()
    np_exc = sp_exc = None
    try: E[np_index] = V
    except (IndexError, ValueError, TypeError) as e: np_exc = e
    try: a[index] = v
    except (IndexError, ValueError, TypeError) as e: sp_exc = e
    if np_exc is not None:
        w.ensure('NumPy rejects the assignment => sparse rejects it', sp_exc is not None)
        w.canary('canary: accepted', sp_exc is None); return
    w.ensure('NumPy accepts the assignment => sparse accepts it', sp_exc is None, exc=str(sp_exc))
    if sp_exc is not None: return
    w.ensure('dense image after write = NumPy array after the same write (all other entries untouched)', same(w, image(a), E))
    w.ensure('rep_ok after write', rep_ok(w, a))
    w.canary('canary: write lost', w.eq(image(a).flat[0], E.flat[0] + 1))


# --------------------------------------------------------------------------- reflected operators with a scalar on the left, unary operators

def refl_configs(tier):
    out = []
    for kind, shape in (('SparseVector', (1,)), ('SparseVector', (3,)), ('SparseArray', (2, 2))):
        for op in ('radd', 'rsub', 'rmul', 'rtruediv', 'neg', 'abs', 'copy', 'to_array', 'tolist', 'iter', 'bool-of-size-1'):
            if op == 'bool-of-size-1' and shape != (1,): continue
            out.append({'name': f'{op} {kind}{list(shape)}', 'kind': kind, 'shape': list(shape), 'op': op})
    return out


@group('C09/reflected_unary', configs=refl_configs,
       functions=['thermosteam.base.sparse:SparseArray.__radd__/__rsub__/__rmul__/__rtruediv__/__neg__/__abs__/copy/to_array/tolist',
                  'thermosteam.base.sparse:SparseVector.__rtruediv__/__neg__/__abs__/copy/to_array/tolist/__iter__/__float__/__bool__'])
def reflected_unary(w, cfg):
    op = cfg['op']
    a, A = mk_operand(w, 'a', cfg['kind'], tuple(cfg['shape']), nonzero=(op == 'rtruediv'))
    A0 = A.copy()
    c = w.real('c')
    if op == 'radd': r, expect = c + a, c + A
    elif op == 'rsub': r, expect = c - a, c - A
    elif op == 'rmul': r, expect = c * a, c * A
    elif op == 'rtruediv': r, expect = c / a, c / A
    elif op == 'neg': r, expect = -a, -A
    elif op == 'abs': r, expect = abs(a), np.array([abs(x) for x in A.flat], dtype=A.dtype).reshape(A.shape)
    elif op == 'copy': r, expect = a.copy(), A
    elif op == 'to_array': r, expect = a.to_array(), A
    elif op == 'tolist': r, expect = np.array(a.tolist(), dtype=A.dtype), A
    elif op == 'iter':
        r = np.array([image(x) if isinstance(x, SparseVector) else x for x in a], dtype=A.dtype); expect = A
    elif op == 'float-of-size-1':
        r, expect = np.array([float(a) if not w.symbolic else sp.__dict__['float'](a)], dtype=A.dtype), A
        if w.symbolic: r = np.array([image(a)[0]], dtype=object)
    elif op == 'bool-of-size-1':
        got = bool(a); want = bool(A.flat[0])
        w.ensure('bool(a) = bool of the single element', got == want)
        w.canary('canary: inverted truth value', got != want)
        return
    got = image(r) if isinstance(r, (SparseVector, SparseArray)) else np.asarray(r)
    w.ensure('dense image = NumPy result', same(w, got, expect))
    if isinstance(r, (SparseVector, SparseArray)):
        w.ensure('rep_ok(result)', rep_ok(w, r))
        if op in ('neg', 'abs', 'copy', 'radd', 'rsub', 'rmul', 'rtruediv'):
            rows_r = r.rows if isinstance(r, SparseArray) else [r]
            rows_a = a.rows if isinstance(a, SparseArray) else [a]
            w.ensure('result shares no storage with the operand', all(x is not y and x.dct is not y.dct for x in rows_r for y in rows_a))
    w.ensure('operand unchanged', same(w, image(a), A0))
    w.canary('canary: result + 1', w.eq(np.asarray(got, dtype=object).flat[0], np.asarray(expect, dtype=object).flat[0] + 1))


# --------------------------------------------------------------------------- logical vectors / arrays: & | ^ ~ and comparisons with booleans

def logical_configs(tier):
    out = []
    pats = {2: [(False, False), (True, False), (True, True)], 3: [(True, False, True), (False, False, False)]}
    for n in (2, 3):
        for pa in pats[n]:
            for other in ('scalar-True', 'scalar-False', 'vector', 'length-1', 'bool-ndarray', 'bool-list', '2-d'):
                for op in ('and', 'or', 'xor', 'iand', 'ior', 'ixor', 'invert', 'eq', 'ne', 'any', 'all', 'sum'):
                    if op in ('invert', 'any', 'all', 'sum') and other != 'scalar-True': continue
                    if tier == 'quick' and n == 3 and other in ('2-d', 'bool-list'): continue
                    out.append({'name': f'{list(pa)} {op} {other}', 'pa': list(pa), 'other': other, 'op': op})
    return out


LOPS = {'and': operator.and_, 'or': operator.or_, 'xor': operator.xor, 'iand': operator.iand, 'ior': operator.ior, 'ixor': operator.ixor,
        'eq': operator.eq, 'ne': operator.ne}


@group('C09/logical', configs=logical_configs, mode='B',
       notes='boolean data has no real-valued leaves: exhaustive enumeration of the listed boolean patterns (sizes 2-3) x operand kinds x operators, NumPy as oracle',
       functions=['thermosteam.base.sparse:SparseLogicalVector.__and__/__or__/__xor__/__iand__/__ior__/__ixor__/__invert__/__eq__/__ne__/any/all/sum',
                  'thermosteam.base.sparse:SparseArray (bool rows) logical operators'])
def logical(w, cfg):
    A = np.array(cfg['pa'], dtype=bool)
    n = len(A)
    a = sparse_fn(A.tolist())
    w.ensure('constructor gives a logical vector with the same dense image', isinstance(a, SparseLogicalVector) and np.array_equal(a.to_array(), A))
    op, other = cfg['op'], cfg['other']
    if op == 'invert':
        r = ~a
        w.ensure('~a = NumPy', np.array_equal(r.to_array(), ~A) and all(0 <= k < r.size for k in r.set)); return
    if op in ('any', 'all', 'sum'):
        w.ensure(f'{op}() = NumPy', getattr(a, op)() == getattr(A, op)()); return
    B = {'scalar-True': True, 'scalar-False': False, 'vector': np.array(([True, False, True] * 2)[:n]), 'length-1': np.array([True]),
         'bool-ndarray': np.array(([False, True, True] * 2)[:n]), 'bool-list': np.array(([True, True, False] * 2)[:n]),
         '2-d': np.array([([True, False, False] * 2)[:n], ([False, True, False] * 2)[:n]])}[other]
    b = {'scalar-True': True, 'scalar-False': False, 'vector': sparse_fn(B.tolist()) if other == 'vector' else None,
         'length-1': sparse_fn([True]), 'bool-ndarray': B.copy() if hasattr(B, 'copy') else B, 'bool-list': B.tolist() if hasattr(B, 'tolist') else B,
         '2-d': B.copy() if hasattr(B, 'copy') else B}[other]
    np_exc = sp_exc = None
    try:
        E = A.copy()
        expect = LOPS[op](E, B)
    except EXC as e: np_exc = e
    try:
        r = LOPS[op](a, b)
    except EXC as e: sp_exc = e
    if np_exc is not None:
        w.ensure('NumPy rejects => sparse rejects', sp_exc is not None); return
    w.ensure('NumPy accepts => sparse accepts', sp_exc is None, exc=str(sp_exc))
    if sp_exc is not None: return
    got = r.to_array() if hasattr(r, 'to_array') else np.asarray(r)
    w.ensure('dense image = NumPy result', got.shape == np.shape(expect) and np.array_equal(got.astype(bool), np.asarray(expect).astype(bool)),
             got=str(got.tolist()), numpy=str(np.asarray(expect).tolist()))
    if op.startswith('i'):
        w.ensure('in-place returns the target', r is a)
    else:
        w.ensure('operand unchanged', np.array_equal(a.to_array(), A))
