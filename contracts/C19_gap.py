# -*- coding: utf-8 -*-
"""
C19 (gap round) — more of the real code behind "the simulation order derived from a flowsheet is complete and
follows material flow" under contract.  Helpers and the flowsheet specification format come from
contracts/C19_network_order.py (spec = {'ins': [...], 'outs': [...], 'edges': [[u, outlet, v, inlet], ...]}).

What the groups of C19_network_order.py do not look at (coverage matrix in the report of this round):
  * every feed has F_mass == 0 and no feed priority there, so `sort_feeds_big_to_small` never reorders anything:
    the feeds are always walked in unit-list / port order.  The order in which `from_feedstock` walks the feeds
    (decided by feed sizes, feed priorities) selects between `_append_network`, `join_network_at_unit` and
    `first_unit`, and decides which units are already "ends" when a later feed is walked;
  * `_insert_recycle_network` -> `join_recycle_network(nested)` / `_add_linear_network` (append branch) and the
    Network x Network branch of `Network.sort` are reached by < 0.1 % of the seeded random flowsheets and by none of
    the exhaustive ones (they need two disjoint loops that are tied together by a third one, >= 5 units);
  * only the first `from_units` call on fresh objects is checked (no second call, no other container type, no
    re-reading of the first network after the second call);
  * `Network.sort` is only run with at most ONE sub-network (the first two units);
  * the joining steps inside `from_feedstock` have no contract of their own (only the local list surgery has);
  * `Network.units` is only read on the top-level network;
  * inlets that are left unconnected (placeholder streams) never occur.

Groups (all names start with C19/gap_)
  gap_feed_sizes          S  the statement through the real from_units for ALL real feed sizes / feed priorities
  gap_bridging_feeds      B  disjoint feed networks + a feed whose unit bridges them, every feed order x unit order
  gap_loop_bypass         B  a unit outside a loop feeding the loop part-way round, every feed order x unit order
  gap_interlocked_loops   B  two disjoint loops tied together by a third one (rare joining branches)
  gap_hanging_loops       B  loops that are connected to the rest of the flowsheet only through another loop
  gap_repeat_calls        B  histories: second call, other containers, priorities set/cleared, first network re-read
  gap_sort_grouped        B  Network.sort with several / nested sub-networks, real PathSource
  gap_join_steps          B  every joining step executed inside from_units keeps all units and all reported recycles
  gap_loop_helpers        B  Network.get_recycle_units / recycle_sink / first_unit / get_first_unit / streams ...
  gap_unconnected_inlets  B  the statement when some feed ports hold the placeholder of an unconnected inlet

Reading of the cyclic sentences (as in C19_network_order.py): a unit may be listed more than once on cyclic
flowsheets (the statement demands "appears once" only without cycles); a stream a -> b runs against the path order
when no listing of b comes after the last listing of a.  "At least one recycle stream is reported" is read as: at
least one REPORTED stream is a recycle stream of the flowsheet, i.e. connects two given units and lies on a cycle
(a feed or a stream towards a unit outside every cycle that is also put into the recycle set does not count).
"""
import random
import warnings
import itertools

import thermosteam as tmo
from thermosteam import network as nw
from engine.api import group, CheckAbort
from engine.sx import tmo_world as W
from engine.sx.sym import EngineUnsupported, EngineNondeterminism, PathCap, Infeasible
from contracts import C19_network_order as B
from contracts.C19_network_order import (Tally, build, connections, flatten, loops, show, any_recycle_attribute,
                                         is_cyclic, all_reach_a_product, _reach, _succ, some_perms, loose_spec,
                                         digraph_configs, _item_reach, MAXPORTS, SEED)

ENGINE_EXC = (EngineUnsupported, EngineNondeterminism, PathCap, Infeasible, CheckAbort)
IDS = ('Water',)
W.preload([IDS])


# =========================================================================== specifications

def port_spec(n, edges, feeds=(), products=(), feed_pos='last', prod_pos='last'):
    """Ports for a list of (u, v) streams, in list order per unit.  `feeds` / `products`: units (with multiplicity)
    that get a feed inlet / product outlet; a unit without any inlet (outlet) stream gets one anyway.
    None if a unit would need more than MAXPORTS ports on one side."""
    outs = [[] for _ in range(n)]; ins = [[] for _ in range(n)]
    for k, (a, b) in enumerate(edges):
        outs[a].append(k); ins[b].append(k)
    feeds = list(feeds); products = list(products)
    for u in range(n):
        nf = feeds.count(u) or (0 if ins[u] else 1)
        npr = products.count(u) or (0 if outs[u] else 1)
        for _ in range(nf):
            if feed_pos == 'first': ins[u].insert(0, None)
            else: ins[u].append(None)
        for _ in range(npr):
            if prod_pos == 'first': outs[u].insert(0, None)
            else: outs[u].append(None)
        if len(ins[u]) > MAXPORTS or len(outs[u]) > MAXPORTS:
            return None
    return {'ins': [len(s) for s in ins], 'outs': [len(s) for s in outs],
            'edges': [[a, outs[a].index(k), b, ins[b].index(k)] for k, (a, b) in enumerate(edges)]}


def feed_ports(spec):
    """[(unit, inlet index)] of the feed ports, in unit / port order."""
    out = []
    for k in range(len(spec['ins'])):
        used = {e[3] for e in spec['edges'] if e[2] == k}
        out += [(k, i) for i in range(spec['ins'][k]) if i not in used]
    return out


def subnetworks(net, out=None):
    if out is None: out = []
    out.append(net)
    for i in net.path:
        if isinstance(i, nw.Network): subnetworks(i, out)
    return out


# =========================================================================== the statement on one reported network

def judge(tally, spec, units, net, info, tag=''):
    """The sentences of C19 read off one network (flattened path, get_all_recycles, units) against the specification."""
    index = {u: k for k, u in enumerate(units)}
    ids = set(map(id, units))
    cyclic = is_cyclic(spec)
    flat = flatten(net)
    info = dict(info, network=show(net, index))
    recycles = net.get_all_recycles()
    tally.check(tag + 'path contains exactly the given units',
                set(map(id, flat)) == ids and all(u in index for u in flat), **info)
    tally.check(tag + 'Network.units of the network and of every sub-network is exactly the set of units on its path',
                set(map(id, net.units)) == ids
                and all(set(map(id, m.units)) == set(map(id, flatten(m))) for m in subnetworks(net)), **info)
    pos = {}; last = {}
    for p, u in enumerate(flat):
        pos.setdefault(u, p); last[u] = p
    against = [e for e in spec['edges'] if units[e[0]] in pos and units[e[2]] in pos and last[units[e[0]]] >= pos[units[e[2]]]]
    if not cyclic:
        tally.check(tag + 'acyclic: every unit appears exactly once',
                    len(flat) == len(units) and len(set(map(id, flat))) == len(flat), **info)
        tally.check(tag + 'acyclic: every unit comes after all units that feed it', not against and len(pos) == len(units),
                    against=against, **info)
        tally.check(tag + 'acyclic: no recycle stream is reported', not recycles and not any_recycle_attribute(net),
                    reported=len(recycles), **info)
    else:
        reach = _reach(_succ(spec))
        genuine = [r for r in recycles if r and getattr(r, '_source', None) in index and getattr(r, '_sink', None) in index
                   and index[r._source] in reach[index[r._sink]]]
        tally.check(tag + 'cyclic: at least one recycle stream is reported', len(genuine) >= 1, reported=len(recycles), **info)
        lps = loops(net)
        bad = [e for e in against if not any(units[e[0]] in L and units[e[2]] in L for L in lps)]
        tally.check(tag + 'cyclic: every stream against the path order connects two units of a common recycle loop',
                    not bad and len(pos) == len(units), not_in_a_loop=bad, **info)
        tally.observe('cyclic runs', 1)
        tally.observe('cyclic runs in which a unit is listed more than once', len(flat) != len(set(map(id, flat))))
        tally.observe('cyclic runs in which a reported recycle is not a stream on a cycle', len(genuine) != len(recycles))
    return flat, pos


def run(tally, spec, units, perm, info, arg=None, tag='', canary=None):
    """One call of the real Network.from_units on the given (already built) flowsheet objects + the statement."""
    given = [units[k] for k in perm]
    given_ids = [id(u) for u in given]
    before = connections(units)
    prio_before = dict(tmo.AbstractStream.feed_priorities)
    disj_before = list(nw.disjunctions)
    info = dict(info, perm=list(perm))
    try:
        with warnings.catch_warnings(record=True):
            warnings.simplefilter('always')
            net = nw.Network.from_units(given if arg is None else arg(given))
    except ENGINE_EXC:
        raise
    except Exception as e:
        tally.check(tag + 'no-unexpected-exception', False, exception=f'{type(e).__name__}: {e}', **info)
        return None
    tally.check(tag + 'no-unexpected-exception', True)
    flat, pos = judge(tally, spec, units, net, info, tag)
    tally.check(tag + 'frame: flowsheet connections unchanged', connections(units) == before, **info)
    tally.check(tag + 'frame: the given unit list is unchanged', [id(u) for u in given] == given_ids, **info)
    tally.check(tag + 'frame: feed priorities and disjunctions unchanged',
                dict(tmo.AbstractStream.feed_priorities) == prio_before and list(nw.disjunctions) == disj_before, **info)
    if canary is not None:
        canary(units, flat, pos)
    return net


class ReversedCanary:
    """Vacuity guard of the order clauses: the reversed path must be rejected by the same test."""

    def __init__(self, spec):
        self.spec = spec; self.runs = 0; self.refuted = 0

    def __call__(self, units, flat, pos):
        rpos = {}
        for p, u in enumerate(reversed(flat)):
            rpos.setdefault(u, p)
        self.runs += 1
        if any(rpos[units[e[0]]] >= rpos[units[e[2]]] for e in self.spec['edges'] if units[e[0]] in rpos and units[e[2]] in rpos):
            self.refuted += 1

    def emit(self, w):
        if self.runs:      # (no run returned normally: nothing to guard, 'no-unexpected-exception' has failed)
            w.ensure('canary refuted: the reversed path violates the order test', self.refuted == self.runs)
        w.canary('canary: the reversed path is also a valid order', self.refuted == 0)


def perms_of(cfg):
    n = len(cfg['spec']['ins'])
    if cfg['perms'] == 'all':
        return [list(p) for p in itertools.permutations(range(n))]
    return cfg['perms']


def feed_orders_of(cfg):
    k = len(feed_ports(cfg['spec']))
    fo = cfg.get('feed_orders', 'all')
    if fo == 'all':
        return [list(p) for p in itertools.permutations(range(k))]
    return fo


def set_priorities(spec, units, order):
    """Feed number order[0] is walked first, order[1] second, ...: priorities 0, 1, 2, ... through the public setter."""
    fp = feed_ports(spec)
    for rank, j in enumerate(order):
        k, i = fp[j]
        units[k].ins[i].set_feed_priority(rank)


def check_orders(w, cfg):
    """Body of the feed-order groups: fresh flowsheet objects for every (unit order, feed order)."""
    spec = cfg['spec']
    tally = Tally()
    canary = ReversedCanary(spec)
    shapes = set()
    tmo.AbstractStream.feed_priorities.clear()
    for perm in perms_of(cfg):
        for order in feed_orders_of(cfg):
            units = build(spec)
            try:
                set_priorities(spec, units, order)
                net = run(tally, spec, units, perm, {'feed_order': order}, canary=canary)
                if net is not None:
                    shapes.add(str(show(net, {u: k for k, u in enumerate(units)})))
            finally:
                tmo.AbstractStream.feed_priorities.clear()
    tally.emit(w)
    canary.emit(w)
    w.note(spec=spec, cyclic=is_cyclic(spec), runs=canary.runs, distinct_networks=len(shapes))


FROM_UNITS = ['thermosteam.network:Network.from_units', 'thermosteam.network:Network.from_feedstock',
              'thermosteam.network:sort_feeds_big_to_small', 'thermosteam.network:AbstractStream.set_feed_priority',
              'thermosteam.network:find_linear_and_cyclic_paths_with_recycle',
              'thermosteam.network:find_paths_with_and_without_recycle', 'thermosteam.network:fill_path',
              'thermosteam.network:path_with_recycle_to_cyclic_path_with_recycle',
              'thermosteam.network:simplified_linear_paths', 'thermosteam.network:simplify_linear_path',
              'thermosteam.network:Network.join_linear_network', 'thermosteam.network:Network.join_recycle_network',
              'thermosteam.network:Network.join_network_at_unit', 'thermosteam.network:Network.first_unit',
              'thermosteam.network:Network._append_network', 'thermosteam.network:Network._insert_recycle_network',
              'thermosteam.network:Network._add_linear_network', 'thermosteam.network:Network.get_recycle_units',
              'thermosteam.network:Network.reduce_recycles', 'thermosteam.network:Network.sort',
              'thermosteam.network:Network.get_all_recycles', 'thermosteam.network:remove_interaction_units',
              'thermosteam.utils.stream_filters:feeds_from_units', 'thermosteam.utils.stream_filters:products_from_units',
              'thermosteam.utils.stream_filters:streams_from_units']


# =========================================================================== families

def bridging_specs(tier):
    """k disjoint feed networks (chains of 1-2 units, optionally closed to a loop) + one unit with its own feed that
    bridges them: upstream of them (it discharges into several chains) or downstream (it collects several chains)."""
    out = []
    shapes = [(1, 1), (2, 1), (2, 2), (1, 1, 1)] if tier == 'quick' else [(1, 1), (2, 1), (1, 2), (2, 2), (1, 1, 1), (2, 1, 1), (2, 2, 1)]
    for lens in shapes:
        starts = []; edges0 = []; n = 0
        for L in lens:
            starts.append(n)
            edges0 += [(n + i, n + i + 1) for i in range(L - 1)]
            n += L
        E = n; n += 1
        ends_ = [s + L - 1 for s, L in zip(starts, lens)]
        for direction in ('up', 'down'):
            for where in ('head', 'tail'):
                if where == 'tail' and all(L == 1 for L in lens): continue
                for loop in ((False, True) if max(lens) > 1 else (False,)):
                    for bridge_first in (False, True):
                        for fpos in ('last', 'first'):
                            edges = list(edges0)
                            if loop:
                                k = max(range(len(lens)), key=lambda i: lens[i])
                                edges.append((ends_[k], starts[k]))
                            targets = [(s if where == 'head' else e) for s, e in zip(starts, ends_)]
                            bridge = [(E, t) for t in targets] if direction == 'up' else [(t, E) for t in targets]
                            edges = bridge + edges if bridge_first else edges + bridge
                            feeds = list(starts) + [E]
                            products = list(ends_) + [E]
                            spec = port_spec(n, edges, feeds, products, feed_pos=fpos)
                            if spec is None or not all_reach_a_product(spec): continue
                            name = (f"chains={'+'.join(map(str, lens))};bridge={direction}@{where};loop={int(loop)};"
                                    f"bridge_ports_first={int(bridge_first)};feed_port={fpos}")
                            out.append((name, spec))
    return out


def bridging_configs(tier):
    rng = random.Random(SEED * 613 + 7)
    out = []
    for name, spec in bridging_specs(tier):
        n = len(spec['ins'])
        perms = 'all' if n <= 4 else some_perms(n, 10 if tier == 'quick' else 40, rng)
        out.append({'name': name, 'spec': spec, 'perms': perms, 'feed_orders': 'all'})
    return out


def bypass_specs(tier):
    """A loop l0 -> ... -> l(L-1) -> l0 (product at the last loop unit) and a unit X outside the loop that feeds the
    loop at l_k: X has its own feed, or hangs on an upstream splitter D that also feeds the loop head."""
    out = []
    for L in ((2, 3) if tier == 'quick' else (2, 3, 4)):
        loop = [(i, i + 1) for i in range(L - 1)]
        back = (L - 1, 0)
        for k in range(L):
            for source in ('own-feed', 'splitter', 'splitter+chain'):
                for layout in range(8):
                    rev_extra, back_first, extra_first = layout & 1, (layout >> 1) & 1, (layout >> 2) & 1
                    X = L
                    if source == 'own-feed':
                        n = L + 1
                        extra = [(X, k)]
                        feeds = [0, X]
                    elif source == 'splitter':
                        D = L + 1; n = L + 2
                        extra = [(D, 0), (D, X), (X, k)]
                        feeds = [D]
                    else:
                        D = L + 1; Y = L + 2; n = L + 3
                        extra = [(D, 0), (D, X), (X, Y), (Y, k)]
                        feeds = [D]
                    # layouts: order of the outside streams (= outlet order of the splitter), position of the back stream
                    # and of the outside streams among the ports
                    if rev_extra: extra = extra[::-1]
                    body = [back] + loop if back_first else loop + [back]
                    edges = extra + body if extra_first else body + extra
                    spec = port_spec(n, edges, feeds, [L - 1], feed_pos=('first' if back_first else 'last'))
                    if spec is None or not all_reach_a_product(spec): continue
                    out.append((f'loop={L};enters_at={k};outside_unit={source};layout={layout}', spec))
    return out


def bypass_configs(tier):
    rng = random.Random(SEED * 617 + 11)
    out = []
    for name, spec in bypass_specs(tier):
        n = len(spec['ins'])
        perms = 'all' if n <= 5 else some_perms(n, 24 if tier == 'quick' else 120, rng)
        out.append({'name': name, 'spec': spec, 'perms': perms, 'feed_orders': 'all'})
    return out


def interlocked_specs(tier):
    """Two disjoint loops P and Q plus the streams P[i] -> Q[j] and Q[k] -> P[l] (a third loop through both); feed at
    P[0], product at the last unit of Q.  quick: the third loop is a two-unit loop (k = j, l = i)."""
    out = []
    sizes = ((2, 2), (2, 3), (3, 2)) if tier == 'quick' else ((2, 2), (2, 3), (3, 2), (3, 3))
    for lp, lq in sizes:
        P = list(range(lp)); Q = list(range(lp, lp + lq)); n = lp + lq
        loopP = [(P[i], P[(i + 1) % lp]) for i in range(lp)]
        loopQ = [(Q[i], Q[(i + 1) % lq]) for i in range(lq)]
        for i in P:
            for j in Q:
                for k in Q:
                    for l in P:
                        if tier == 'quick' and (k != j or l != i): continue
                        for rot in range(3):
                            edges = loopP + loopQ + [(i, j), (k, l)]
                            edges = edges[rot:] + edges[:rot]
                            for fpos in ('first', 'last'):
                                spec = port_spec(n, edges, feeds=[0], products=[n - 1], feed_pos=fpos)
                                if spec is None or not all_reach_a_product(spec): continue
                                out.append((f'loops={lp}+{lq};link={i}>{j},{k}>{l};rotation={rot};feed_port={fpos}', spec))
    return out


def interlocked_configs(tier):
    rng = random.Random(SEED * 619 + 13)
    out = []
    for name, spec in interlocked_specs(tier):
        n = len(spec['ins'])
        perms = 'all' if n <= (5 if tier == 'quick' else 4) else some_perms(n, 30, rng)
        if tier == 'quick' and n == 5:
            perms = some_perms(n, 40, rng)
        out.append({'name': name, 'spec': spec, 'perms': perms, 'feed_orders': 'all'})
    return out


def hanging_specs(tier):
    """A base chain (1-2 units, feed at its head, product at its tail), a loop that hangs on a base unit, a second loop
    that hangs on a unit of the first loop only, optionally a third one on the second: the outer loops are connected to
    the rest only through another loop."""
    out = []
    for nbase in (1, 2):
        for at in range(nbase):
            for l1, l2, l3 in ((1, 1, 0), (2, 1, 0), (1, 2, 0), (1, 1, 1)) + (((2, 2, 0), (2, 1, 1), (2, 2, 1)) if tier != 'quick' else ()):
                base = [(i, i + 1) for i in range(nbase - 1)]
                n = nbase
                hooks = [at]; rings = []
                for L in (l1, l2, l3):
                    if not L: continue
                    h = hooks[-1]
                    xs = list(range(n, n + L)); n += L
                    ring = [(h, xs[0])] + [(xs[i], xs[i + 1]) for i in range(L - 1)] + [(xs[-1], h)]
                    rings.append(ring)
                    hooks.append(xs[0])
                for order in range(4):
                    if order == 0: edges = base + [e for r in rings for e in r]
                    elif order == 1: edges = [e for r in rings[::-1] for e in r] + base
                    elif order == 2: edges = [e for r in rings for e in r[::-1]] + base
                    else: edges = [e for r in rings[::-1] for e in r[::-1]] + base[::-1]
                    spec = port_spec(n, edges, feeds=[0], products=[nbase - 1], feed_pos=('first' if order % 2 else 'last'),
                                     prod_pos=('first' if order >= 2 else 'last'))
                    if spec is None or not all_reach_a_product(spec): continue
                    out.append((f'base={nbase};hangs_at={at};loops={l1}+{l2}+{l3};stream_order={order}', spec))
    return out


def hanging_configs(tier):
    rng = random.Random(SEED * 647 + 29)
    out = []
    for name, spec in hanging_specs(tier):
        n = len(spec['ins'])
        perms = 'all' if n <= 4 else some_perms(n, 40 if tier == 'quick' else 200, rng)
        out.append({'name': name, 'spec': spec, 'perms': perms, 'feed_orders': 'all'})
    return out


@group('C19/gap_bridging_feeds', configs=bridging_configs, functions=FROM_UNITS, mode='B',
       notes='2-3 disjoint feed networks (chains of 1-2 units, optionally one closed to a loop) + one unit with its own feed '
             'that bridges them (discharging into / collecting from the head or the tail of every chain), bridge ports '
             'first/last, feed port first/last; EVERY order in which the feeds are walked (forced through '
             'set_feed_priority) x every order of the unit list (<= 4 units; identity/reverse/10 seeded orders for more); '
             'fresh objects per run')
def gap_bridging_feeds(w, cfg):
    check_orders(w, cfg)


@group('C19/gap_loop_bypass', configs=bypass_configs, functions=FROM_UNITS, mode='B',
       notes='a loop of 2-3 (thorough: 2-4) units with the product at its last unit + a unit outside the loop that feeds '
             'the loop at each position in turn (own feed / on an upstream splitter that also feeds the loop head / with a '
             'second unit behind it), 8 port layouts; every feed order x every order of the unit list (<= 5 units; 24 seeded '
             'orders for 6)')
def gap_loop_bypass(w, cfg):
    check_orders(w, cfg)


@group('C19/gap_interlocked_loops', configs=interlocked_configs, functions=FROM_UNITS, mode='B',
       notes='two disjoint loops of 2-3 units tied together by the streams P[i]->Q[j], Q[k]->P[l] (quick: k=j, l=i), feed at '
             'P[0], product at the end of Q, 3 rotations of the stream list (= port orders), feed port first/last; every '
             'order of the unit list for 4 units, identity/reverse/40 seeded orders for 5 (thorough: 30 for 5-6 units)')
def gap_interlocked_loops(w, cfg):
    check_orders(w, cfg)


@group('C19/gap_hanging_loops', configs=hanging_configs, functions=FROM_UNITS, mode='B',
       notes='a base chain of 1-2 units + a loop of 1-2 extra units hanging on a base unit + a second loop hanging on a unit '
             'of the first loop (+ optionally a third on the second), 4 orders of the stream list (= port orders, feed / '
             'product port first or last); every order of the unit list for <= 4 units, identity/reverse/40 seeded orders '
             'beyond (thorough: 200 and loops of 2+2(+1) extra units)')
def gap_hanging_loops(w, cfg):
    check_orders(w, cfg)


# =========================================================================== feed sizes / priorities as real numbers (mode S)

def _bridge2():
    return port_spec(3, [(2, 0), (2, 1)], feeds=[0, 1, 2], products=[0, 1])


def _bridge3():
    return port_spec(4, [(3, 0), (3, 1), (3, 2)], feeds=[0, 1, 2, 3], products=[0, 1, 2])


def _collect2():
    return port_spec(3, [(0, 2), (1, 2)], feeds=[0, 1, 2], products=[2])


def _bypass_own_feed():
    # 0 -> 1 -> 2 -> 0 loop, 3 (own feed) enters at 2, make-up feed on 1
    return port_spec(4, [(0, 1), (1, 2), (2, 0), (3, 2)], feeds=[0, 1, 3], products=[2])


def _mixer3():
    # one unit with two feed ports in front of a unit with one more feed
    return port_spec(2, [(0, 1)], feeds=[0, 0, 1], products=[1])


def _interlocked():
    return port_spec(5, [(1, 0), (2, 3), (3, 4), (4, 2), (0, 2), (2, 0), (0, 1)], feeds=[0, 2, 3], products=[4])


def _chain_bridge_loop():
    # chain 0 -> 1 closed to a loop, chain 2, bridge 3 discharging into 1 and 2
    return port_spec(4, [(0, 1), (1, 0), (3, 1), (3, 2)], feeds=[0, 2, 3], products=[1, 2])


def feed_size_configs(tier):
    out = []
    def add(name, spec, perm, kinds):
        assert spec is not None and len(kinds) == len(feed_ports(spec)), name
        out.append({'name': name, 'spec': spec, 'perm': perm, 'kinds': kinds})
    S, P, N = 'size', 'prio', 'plain'
    add('bridge2;sizes', _bridge2(), [0, 1, 2], [S, S, S])
    add('bridge2;sizes;reversed-units', _bridge2(), [2, 1, 0], [S, S, S])
    add('bridge2;priorities', _bridge2(), [0, 1, 2], [P, P, P])
    add('bridge2;one-priority+sizes', _bridge2(), [1, 0, 2], [S, P, S])
    add('bridge2;sizes+one-sizeless', _bridge2(), [0, 1, 2], [S, N, S])
    add('collect2;sizes', _collect2(), [2, 0, 1], [S, S, S])
    add('bypass-own-feed;sizes', _bypass_own_feed(), [0, 1, 2, 3], [S, S, S])
    add('bypass-own-feed;priorities', _bypass_own_feed(), [2, 3, 0, 1], [P, P, P])
    add('mixer3;sizes', _mixer3(), [0, 1], [S, S, S])
    add('interlocked;sizes', _interlocked(), [0, 1, 2, 3, 4], [S, S, S])
    add('chain-bridge-loop;sizes', _chain_bridge_loop(), [0, 1, 2, 3], [S, S, S])
    add('bridge3;sizes', _bridge3(), [0, 1, 2, 3], [S, S, S, S])
    fam = [(f'bridging;{nm}', sp) for nm, sp in bridging_specs('quick')] + [(f'bypass;{nm}', sp) for nm, sp in bypass_specs('quick')]
    fam = [(nm, sp) for nm, sp in fam if 2 <= len(feed_ports(sp)) <= (3 if tier == 'quick' else 4)]
    for q, (nm, sp) in enumerate(fam[::(5 if tier == 'quick' else 1)]):
        n = len(sp['ins']); ident = list(range(n))
        perm = (ident, ident[::-1], ident[1:] + ident[:1])[q % 3]
        add(f'{nm};sizes', sp, perm, [S] * len(feed_ports(sp)))
        if tier != 'quick':
            add(f'{nm};priorities', sp, perm[::-1], [P] * len(feed_ports(sp)))
    if tier != 'quick':
        add('bridge3;priorities', _bridge3(), [3, 2, 1, 0], [P, P, P, P])
        add('bridge2;size+priority-on-every-feed', _bridge2(), [0, 1, 2], [S + P, S + P, S + P])
        add('interlocked;priorities', _interlocked(), [4, 3, 2, 1, 0], [P, P, P])
        add('chain-bridge-loop;priorities', _chain_bridge_loop(), [3, 2, 1, 0], [P, P, P])
        add('collect2;priorities', _collect2(), [0, 1, 2], [P, P, P])
    return out


@group('C19/gap_feed_sizes', configs=feed_size_configs,
       functions=['thermosteam.network:Network.from_units', 'thermosteam.network:Network.from_feedstock',
                  'thermosteam.network:sort_feeds_big_to_small', 'thermosteam.network:AbstractStream.set_feed_priority',
                  'thermosteam._stream:Stream.F_mass', 'thermosteam.utils.stream_filters:feeds_from_units'],
       assumptions=['feed flows are real numbers >= 0 (an empty feed is included), feed priorities are arbitrary real '
                    'numbers; the flowsheet structure and the unit order are enumerated per configuration'])
def gap_feed_sizes(w, cfg):
    W.reset_caches()
    tmo.AbstractStream.feed_priorities.clear()
    spec = cfg['spec']
    try:
        units = build(spec)
        for j, ((k, i), kind) in enumerate(zip(feed_ports(spec), cfg['kinds'])):
            if 'size' in kind:
                s, _ = W.make_stream(w, f'feed{j}', IDS, 'l', present={('l', 'Water'): 'maybe'})
                units[k].ins[i] = s
            if 'prio' in kind:
                units[k].ins[i].set_feed_priority(w.real(f'priority{j}'))
        tally = Tally()
        canary = ReversedCanary(spec)
        run(tally, spec, units, cfg['perm'], {}, canary=canary)
        tally.emit(w)
        canary.emit(w)
        # vacuity guard of the input family: the sizes / priorities really decide which feed is walked first
        given = [units[k] for k in cfg['perm']]
        listed = tmo.utils.feeds_from_units(given)
        walked = list(listed)
        nw.sort_feeds_big_to_small(walked)
        w.canary('canary: whatever the sizes and priorities, the first listed feed is walked first', walked[0] is listed[0])
        w.note(spec=spec, walked=[listed.index(s) for s in walked])
    finally:
        tmo.AbstractStream.feed_priorities.clear()


# =========================================================================== histories on the same objects (mode B)

def repeat_configs(tier):
    out = []
    seen = set()
    src = B.dag_exhaustive_configs('quick') + [c for c in B.cyclic_exhaustive_configs('quick') if c['name'].endswith(';last')]
    for c in src:
        n = len(c['spec']['ins'])
        if tier == 'quick' and n == 4 and ('ports=asc' not in c['name'] and 'ports=xlast' not in c['name']): continue
        key = str(c['spec'])
        if key in seen: continue
        seen.add(key)
        out.append({'name': c['name'], 'spec': c['spec']})
    for fam in (bridging_specs, bypass_specs, interlocked_specs, hanging_specs):
        for name, spec in fam('quick')[::(3 if tier == 'quick' else 1)]:
            out.append({'name': name, 'spec': spec})
    return out


@group('C19/gap_repeat_calls', configs=repeat_configs, functions=FROM_UNITS + ['thermosteam.network:AbstractStream.get_feed_priority'],
       mode='B',
       notes='histories on ONE set of flowsheet objects: from_units(list) -> from_units(reversed list) -> from_units(tuple) '
             '-> from_units(set) -> from_units(dict keys) -> feed priorities set so that the last feed is walked first -> '
             'priorities reversed -> priorities removed; after every call the statement is read off the new network AND again '
             'off the first network; flowsheets: the exhaustive DAG / cyclic families of C19_network_order.py with <= 4 units '
             '(quick: 2 of 4 port layouts for 4 units) + every third flowsheet of the four gap families')
def gap_repeat_calls(w, cfg):
    spec = cfg['spec']
    n = len(spec['ins'])
    tally = Tally()
    canary = ReversedCanary(spec)
    tmo.AbstractStream.feed_priorities.clear()
    units = build(spec)
    fp = feed_ports(spec)
    ident = list(range(n)); rev = ident[::-1]
    rot = ident[1:] + ident[:1]
    try:
        first = run(tally, spec, units, ident, {'step': 'first call'}, tag='first call: ', canary=canary)
        steps = [('second call, reversed list', rev, None, None),
                 ('tuple', rot, tuple, None),
                 ('set', ident, set, None),
                 ('dict keys', rev, (lambda g: dict.fromkeys(g).keys()), None),
                 ('priorities: last feed first', ident, None, list(range(len(fp)))[::-1]),
                 ('priorities reversed', rot, None, list(range(len(fp)))),
                 ('priorities removed', rev, None, 'clear')]
        for name, perm, container, prio in steps:
            if prio == 'clear':
                tmo.AbstractStream.feed_priorities.clear()
            elif prio is not None:
                set_priorities(spec, units, prio)
                tally.check('get_feed_priority reads back what set_feed_priority stored',
                            [units[k].ins[i].get_feed_priority() for k, i in fp] == [prio.index(j) for j in range(len(fp))])
            run(tally, spec, units, perm, {'step': name}, arg=container, tag='later call: ', canary=canary)
            if first is not None:
                judge(tally, spec, units, first, {'step': name}, tag='first network re-read after a later call: ')
    finally:
        tmo.AbstractStream.feed_priorities.clear()
    tally.emit(w)
    canary.emit(w)
    w.note(spec=spec, cyclic=is_cyclic(spec))


# =========================================================================== Network.sort with several / nested sub-networks (mode B)

GROUPINGS = {
    2: [[[0, 1]]],
    3: [[0, [1, 2]], [[0, 2], 1], [[0, 1, 2]], [[0, [1, 2]]], [[[0, 1], 2]]],
    4: [[[0, 1], [2, 3]], [[0, 2], [1, 3]], [[0, 3], [2, 1]], [[0, 1], 2, 3], [0, [1, 2], 3], [[0, [1, 2]], 3],
        [[0, 1, 2], 3], [0, [1, [2, 3]]], [[[0, 1], [2, 3]]]],
}


def _mk_items(struct, units):
    return [nw.Network(_mk_items(i, units)) if isinstance(i, list) else units[i] for i in struct]


def _flat_struct(i):
    if not isinstance(i, list): return [i]
    return [x for j in i for x in _flat_struct(j)]


def sort_grouped_configs(tier):
    out = []
    rng = random.Random(SEED * 631 + 17)
    for c in digraph_configs(3):
        if c['n'] >= 2: out.append(c)
    four = [c for c in digraph_configs(4) if c['n'] == 4]
    if tier == 'quick':
        four = rng.sample(four, 40)
    out += four
    return out


def _level_ok(net, struct, reach, index, bad):
    """Every network level: an item comes after all items (of the same level) that reach it."""
    groups = [_flat_struct(i) for i in struct]
    ireach = _item_reach(groups, reach)
    path = net.path
    ipos = {}
    for x, g in enumerate(groups):
        for p, it in enumerate(path):
            if set(index[u] for u in (flatten(it) if isinstance(it, nw.Network) else [it])) == set(g):
                ipos[x] = p
    if len(ipos) != len(groups):
        bad.append(('items lost', struct)); return
    for x in ireach:
        for y in ireach[x]:
            if ipos[x] > ipos[y]: bad.append((groups[x], groups[y]))
    for x, i in enumerate(struct):
        if isinstance(i, list):
            _level_ok(path[ipos[x]], i, reach, index, bad)


def _levels_acyclic(struct, reach):
    groups = [_flat_struct(i) for i in struct]
    ireach = _item_reach(groups, reach)
    if any(x in ireach[y] for x in ireach for y in ireach[x]): return False
    return all(_levels_acyclic(i, reach) for i in struct if isinstance(i, list))


@group('C19/gap_sort_grouped', configs=sort_grouped_configs, mode='B',
       functions=['thermosteam.network:Network.sort', 'thermosteam.network:PathSource.__init__',
                  'thermosteam.network:PathSource.downstream_from', 'thermosteam.network:Network.add_recycle',
                  'thermosteam.network:Network.streams', 'thermosteam.network:nested_network_units',
                  'thermosteam.network:Network.__init__'],
       notes='Network.sort with the real PathSource on ALL labelled digraphs without self-loops on 2-3 units and on 40 '
             'seeded (thorough: all 4096) digraphs on 4 units, x ends in {nothing, every stream against a hidden ranking '
             '(all n! rankings)}, x items grouped into one, two or nested sub-networks (9 groupings for 4 units, 5 for 3)')
def gap_sort_grouped(w, cfg):
    n = cfg['n']; edges = [tuple(e) for e in cfg['edges']]
    spec = loose_spec(n, edges)
    tally = Tally()
    ncanary = [0, 0]
    cuts = [None] + [list(p) for p in itertools.permutations(range(n))]
    for rank in cuts:
        for struct in GROUPINGS[n]:
            units = build(spec)
            index = {u: k for k, u in enumerate(units)}
            cut = [] if rank is None else [e for e in spec['edges'] if rank[e[0]] >= rank[e[2]]]
            ends = {units[e[0]].outs[e[1]] for e in cut}
            ends_before = set(ends)
            succ = {u: set() for u in range(n)}
            for e in spec['edges']:
                if e not in cut: succ[e[0]].add(e[2])
            reach = _reach(succ)
            items = _mk_items(struct, units)
            net = nw.Network(list(items))
            groups = [_flat_struct(i) for i in struct]
            ireach = _item_reach(groups, reach)
            acyclic = not any(u in reach[u] for u in reach) and _levels_acyclic(struct, reach)
            before = connections(units)
            info = {'ends_rank': rank, 'grouping': struct}
            try:
                with warnings.catch_warnings(record=True) as caught:
                    warnings.simplefilter('always')
                    net.sort(ends)
            except Exception as e:
                tally.check('no-unexpected-exception', False, exception=f'{type(e).__name__}: {e}', **info)
                continue
            tally.check('no-unexpected-exception', True)
            warned = any('could not be determined' in str(c.message) for c in caught)
            info['result'] = show(net, index)
            path = net.path
            tally.check('result is a permutation of the items',
                        len(path) == len(items) and all(any(p is i for p in path) for i in items), **info)
            tally.check('flattened path contains every unit exactly once',
                        sorted(index.get(u, -1) for u in flatten(net)) == list(range(n)), **info)
            tally.check('Network.units of every (sub)network is still the set of units on its path',
                        all(m.units == set(flatten(m)) for m in subnetworks(net)), **info)
            if acyclic:
                bad = []
                _level_ok(net, struct, reach, index, bad)
                tally.check('acyclic: on every level every item comes after all items that reach it', not bad, against=bad, **info)
                tally.check('acyclic: no recycle is added', not any_recycle_attribute(net), **info)
                tally.check('acyclic: the loop ends with stop true (no warning)', not warned, **info)
                if any(ireach.values()):
                    ncanary[1] += 1
                    rbad = []
                    net.path = net.path[::-1]
                    _level_ok(net, struct, reach, index, rbad)
                    net.path = net.path[::-1]
                    if rbad: ncanary[0] += 1
            else:
                ipos = {x: next((p for p, it in enumerate(path) if it is items[x]), None) for x in range(len(items))}
                if None not in ipos.values():
                    against = [(x, y) for x in ireach for y in ireach[x] if ipos[x] > ipos[y]]
                    notmutual = [(groups[x], groups[y]) for x, y in against if x not in ireach[y]]
                    tally.check('cyclic: an item stays before one that reaches it only if both reach each other, or sort warns',
                                not notmutual or warned, not_mutual=notmutual, **info)
            tally.check('frame: flowsheet connections unchanged', connections(units) == before, **info)
            tally.check('frame: ends unchanged', ends == ends_before, **info)
    tally.emit(w)
    if ncanary[1]:
        w.ensure('canary refuted: the reversed top-level order is rejected in every acyclic run with a reaching pair',
                 ncanary[0] == ncanary[1])
    w.canary('canary: the reversed order is also accepted', ncanary[0] == 0)
    w.note(spec=spec)


# =========================================================================== the joining steps inside from_units (mode B)

JOIN_OPS = ('join_linear_network', 'join_recycle_network', 'join_network_at_unit', '_append_network',
            '_append_linear_network', '_append_recycle_network', '_insert_linear_network', '_insert_recycle_network',
            '_add_linear_network')


class JoinMonitor:
    """Wraps the joining operations of Network for the duration of one from_units call; every call (also the nested
    ones) is checked against the two conservation sentences: no unit is lost or invented, and a loop that was reported
    (a network carrying a recycle stream) does not vanish without a recycle stream being reported by the result."""

    def __init__(self, tally, info):
        self.tally = tally; self.info = info; self.saved = {}; self.calls = {}
        self.refutable = 0; self.refuted = 0

    def __enter__(self):
        for name in JOIN_OPS:
            orig = getattr(nw.Network, name)
            self.saved[name] = orig
            setattr(nw.Network, name, self._wrap(name, orig))
        return self

    def __exit__(self, *a):
        for name, orig in self.saved.items():
            setattr(nw.Network, name, orig)

    def _wrap(self, name, orig):
        mon = self

        def wrapper(net, *args):
            other = next((a for a in args if isinstance(a, nw.Network)), None)
            own0 = set(flatten(net))
            units0 = own0 | set(flatten(other))
            had_recycle = bool(net.get_all_recycles() or other.get_all_recycles())
            r = orig(net, *args)
            mon.calls[name] = mon.calls.get(name, 0) + 1
            t = mon.tally
            after = set(flatten(net))
            t.check(f'{name}: the joined network lists exactly the units of both networks', after == units0, **mon.info)
            t.check(f'{name}: when one of the two networks reported a recycle stream the joined network reports one',
                    not had_recycle or bool(net.get_all_recycles()), **mon.info)
            if units0 - own0:       # vacuity guard: the wrong claim "the receiver keeps exactly its own units" must fail here
                mon.refutable += 1
                if after != own0: mon.refuted += 1
            return r
        wrapper.__name__ = name
        return wrapper


def join_step_configs(tier):
    rng = random.Random(SEED * 641 + 19)
    out = []
    for fam in (bridging_specs, bypass_specs, interlocked_specs, hanging_specs):
        for name, spec in fam('quick')[::(2 if tier == 'quick' else 1)]:
            n = len(spec['ins'])
            out.append({'name': name, 'spec': spec, 'perms': some_perms(n, 6, rng), 'feed_orders': 'all'})
    for c in B.cyclic_random_configs(tier)[:(60 if tier == 'quick' else 600)] + B.dag_random_configs(tier)[:(30 if tier == 'quick' else 300)]:
        k = len(feed_ports(c['spec']))
        ident = list(range(k))
        orders = [ident, ident[::-1]]
        for _ in range(2):
            p = ident[:]; rng.shuffle(p)
            if p not in orders: orders.append(p)
        out.append({'name': c['name'], 'spec': c['spec'], 'perms': c['perms'][:4], 'feed_orders': orders})
    return out


@group('C19/gap_join_steps', configs=join_step_configs, mode='B',
       functions=['thermosteam.network:Network.' + o for o in JOIN_OPS] +
                 ['thermosteam.network:Network.first_unit', 'thermosteam.network:Network.isdisjoint',
                  'thermosteam.network:Network.recycle_sink', 'thermosteam.network:Network.get_recycle_units',
                  'thermosteam.network:Network._remove_overlap', 'thermosteam.network:Network.add_recycle',
                  'thermosteam.network:Network.from_feedstock'],
       notes='every call of a joining operation of Network that from_units really makes (also the nested calls) on: every '
             'second flowsheet of the four gap families (identity/reverse/6 seeded unit orders x every feed order) and the '
             'first 60 + 30 (thorough: 600 + 300) seeded cyclic / acyclic flowsheets of C19_network_order.py (4 unit orders x '
             'identity/reverse/2 seeded feed orders)')
def gap_join_steps(w, cfg):
    spec = cfg['spec']
    tally = Tally()
    calls = {}
    refutable = refuted = 0
    tmo.AbstractStream.feed_priorities.clear()
    for perm in perms_of(cfg):
        for order in feed_orders_of(cfg):
            units = build(spec)
            try:
                set_priorities(spec, units, order)
                with JoinMonitor(tally, {'perm': perm, 'feed_order': order}) as mon:
                    try:
                        with warnings.catch_warnings(record=True):
                            warnings.simplefilter('always')
                            nw.Network.from_units([units[k] for k in perm])
                        tally.check('no-unexpected-exception', True)
                    except Exception as e:
                        tally.check('no-unexpected-exception', False, exception=f'{type(e).__name__}: {e}', perm=perm, feed_order=order)
                for k, v in mon.calls.items(): calls[k] = calls.get(k, 0) + v
                refutable += mon.refutable; refuted += mon.refuted
            finally:
                tmo.AbstractStream.feed_priorities.clear()
    tally.emit(w)
    if refutable:
        w.ensure('canary refuted: "the receiver keeps exactly its own units" is rejected in every step whose argument brings new units',
                 refuted == refutable)
    w.canary('canary: a joining step never adds a unit to the receiver', refuted == 0)
    w.note(spec=spec, calls=calls)


# =========================================================================== helpers the joining steps rely on (mode B)

def helper_configs(tier):
    out = [c for c in digraph_configs(3, self_loops=False) if c['n'] >= 2]
    if tier != 'quick':
        out += [dict(c, name='4;' + c['name']) for c in digraph_configs(4) if c['n'] == 4][::5]
    return out


@group('C19/gap_loop_helpers', configs=helper_configs, mode='B',
       functions=['thermosteam.network:Network.get_recycle_units', 'thermosteam.network:Network.recycle_sink',
                  'thermosteam.network:Network.first_unit', 'thermosteam.network:Network.get_first_unit',
                  'thermosteam.network:Network.get_last_unit', 'thermosteam.network:Network.streams',
                  'thermosteam.network:Network.isdisjoint', 'thermosteam.network:Network.issubset',
                  'thermosteam.network:Network.__eq__', 'thermosteam.utils.stream_filters:streams_from_units'],
       notes='ALL labelled digraphs without self-loops on 2-3 units (thorough: + every fifth on 4 units); networks = every '
             'non-empty subset of the units, flat and with the last two units nested; every non-empty set of wanted units')
def gap_loop_helpers(w, cfg):
    n = cfg['n']; edges = [tuple(e) for e in cfg['edges']]
    spec = loose_spec(n, edges)
    tally = Tally()
    wrong = [0, 0]
    units = build(spec)
    index = {u: k for k, u in enumerate(units)}
    before = connections(units)
    succ = _succ(spec)
    pred = {u: set() for u in range(n)}
    for a in succ:
        for b in succ[a]: pred[b].add(a)
    down = _reach(succ); up = _reach(pred)
    subsets = [list(c) for r in range(1, n + 1) for c in itertools.combinations(range(n), r)]
    for members in subsets:
        for order in itertools.permutations(members):
            for nested in ((False, True) if len(order) >= 2 else (False,)):
                if nested:
                    inner = nw.Network([units[k] for k in order[-2:]])
                    net = nw.Network([units[k] for k in order[:-2]] + [inner])
                else:
                    net = nw.Network([units[k] for k in order])
                info = {'members': list(order), 'nested': nested}
                S = set(order)
                # the units on a route from a unit of the network back to a unit of the network
                exp = {v for v in range(n) if any(v in down[a] for a in S) and any(v in up[b] for b in S)}
                got = {index[u] for u in net.get_recycle_units()}
                tally.check('Network.get_recycle_units = the units on a route that leaves the network and comes back to it',
                            got == exp, got=sorted(got), expected=sorted(exp), **info)
                if exp != S:       # vacuity guard: the wrong claim "the recycle units are the units of the network" must fail here
                    wrong[1] += 1
                    if got != S: wrong[0] += 1
                tally.check('get_first_unit / get_last_unit = first / last unit of the flattened path',
                            net.get_first_unit() is units[order[0]] and net.get_last_unit() is units[order[-1]], **info)
                streams = set()
                for k in order: streams.update(units[k]._ins._streams); streams.update(units[k]._outs._streams)
                tally.check('Network.streams = every inlet and outlet stream of the units of the network',
                            set(map(id, net.streams)) == set(map(id, streams)), **info)
                for wanted in subsets:
                    exp_first = next((k for k in order if k in wanted), None)
                    try:
                        got_first = index[net.first_unit({units[k] for k in wanted})]
                    except ValueError:
                        got_first = None
                    tally.check('first_unit = the wanted unit that comes first on the (flattened) path; ValueError if there is none',
                                got_first == exp_first, wanted=wanted, got=got_first, **info)
                    other = nw.Network([units[k] for k in wanted])
                    tally.check('isdisjoint / issubset compare the unit sets of two networks',
                                net.isdisjoint(other) == (not (S & set(wanted))) and net.issubset(other) == (S <= set(wanted)),
                                wanted=wanted, **info)
                # the loop head is the unit the (first) recycle stream returns to
                for e in spec['edges']:
                    s = units[e[0]].outs[e[1]]
                    for rec in (s, {s}):
                        net.recycle = rec
                        tally.check('recycle_sink = the unit the recycle stream returns to', net.recycle_sink is units[e[2]], **info)
                    net.recycle = None
                tally.check('recycle_sink is None without a recycle', net.recycle_sink is None, **info)
                same = nw.Network(list(net.path))
                tally.check('two networks with the same path and recycle compare equal; a different recycle does not',
                            (net == same) and not (net != same) and (not spec['edges'] or not (net == nw.Network(list(net.path), units[spec['edges'][0][0]].outs[spec['edges'][0][1]]))),
                            **info)
    tally.check('frame: flowsheet connections unchanged', connections(units) == before)
    tally.emit(w)
    if wrong[1]:
        w.ensure('canary refuted: "the recycle units are the units of the network" is rejected wherever it is wrong', wrong[0] == wrong[1])
    w.canary('canary: get_recycle_units always returns the units of the network', wrong[0] == 0)
    w.note(spec=spec)


# =========================================================================== unconnected inlets (mode B)

def unconnected_configs(tier):
    rng = random.Random(SEED * 643 + 23)
    out = []
    src = [c for c in B.dag_exhaustive_configs('quick') if 'ports=x' in c['name']] + B.dag_random_configs('quick')[:40] + \
          B.cyclic_random_configs('quick')[:40]
    for name, spec in bridging_specs('quick')[::4]:
        src.append({'name': name, 'spec': spec, 'perms': some_perms(len(spec['ins']), 4, rng)})
    for c in src:
        fp = feed_ports(c['spec'])
        if len(fp) < 2: continue
        perms = perms_of(c) if c['perms'] != 'all' else some_perms(len(c['spec']['ins']), 4, rng)
        pats = [[j == m for j in range(len(fp))] for m in range(len(fp))]          # exactly one unconnected inlet
        pats.append([j != 0 for j in range(len(fp))])                                # all but the first
        pats.append([True] * len(fp))                                                # no inlet connected at all
        out.append({'name': c['name'], 'spec': c['spec'], 'perms': perms[:6], 'patterns': pats})
    return out


@group('C19/gap_unconnected_inlets', configs=unconnected_configs, functions=FROM_UNITS, mode='B',
       notes='flowsheets of the exhaustive DAG family with extra feed ports (<= 4 units), 40 + 40 seeded acyclic / cyclic '
             'flowsheets and every fourth bridging-feed flowsheet, in which feed ports are left UNCONNECTED (they hold the '
             'placeholder stream a unit creates for ins=None): each single feed port in turn, all but the first, all; <= 6 '
             'unit orders each')
def gap_unconnected_inlets(w, cfg):
    spec = cfg['spec']
    tally = Tally()
    canary = ReversedCanary(spec)
    fp = feed_ports(spec)
    for perm in cfg['perms']:
        for pat in cfg['patterns']:
            units = build(spec)
            for (k, i), missing in zip(fp, pat):
                if missing: units[k].ins[i] = None
            run(tally, spec, units, perm, {'unconnected': [list(p) for p, m in zip(fp, pat) if m]}, canary=canary)
    tally.emit(w)
    canary.emit(w)
    w.note(spec=spec)
