# -*- coding: utf-8 -*-
"""
C12 (gap groups) — changing how a stream represents phases never changes what it contains.

The groups of C12_phase_representation.py state the property over the raw rows of the flow indexer
(`_imol._phases` zipped with `data.rows`) and drive the stream through the anchored entry points only.
The groups here put under the same step contract

  * the public observation channels, read before and after every operation of a history (so that remembered
    index lists / phase indexers are consulted again): `phases`, `len`, `imol[phase, ID]`, `imol[phase]`,
    `imol[ID]`, `mol[k]`, also through an interchangeable label (exact label absent), the phase views obtained
    by iterating over the stream, `stream[phase]` of a single-phase stream, and the vapour / liquid / solid split;
  * alternative entry points of the conversions: `MultiStream.phase = 'lg'` (several letters), `= ''` (default
    phase), `MultiStream.from_streams` (single-phase streams joined into a multi-phase one; the joined streams are
    its phase views);
  * exact zeros: a phase emptied through its view / through the parent / by writing 0. by name, followed by a
    conversion that depends on which phases are empty;
  * growth in place by the paths the existing group does not take: `copy_like` from a single-phase stream of a new
    phase, from a stream of another property package (other chemical order), into a single-phase receiver, and
    `mix_from` (one inlet, several inlets, the receiver among the inlets, conserve_phases) — stated for these: every
    phase taken over has its material in the row of that phase (other case only when the exact label is absent from
    the resulting set), the views are live and share T and P, labels are interchangeable as the statement says;
  * alternative entry points of save / restore: `Stream.temporary()` (save on entry, restore on exit, conversions
    in between), `Stream.from_data` / `MultiStream.from_data`, saving and restoring through a phase view,
    restoring the same snapshot a second time after further writes;
  * long histories (30 operations) over all of the above.

Every operation is executed on the real stream and stated with the step contract of C12_phase_representation
(`_step`), whose clauses are the sentences of the property; the operations added here are stated with the same clause
builders.
"""
import itertools
import random
import thermosteam as tmo
from engine.api import group, CheckAbort
from engine.sx import tmo_world as W
from . import C12_phase_representation as B
from .C12_phase_representation import (PH, IDS, _swap, _covers, _src, _src_name, _obs, _nonempty, _dest, _alias_labels,
                                       _rows_clauses, _common_clauses, _class_clause, _view_reads, _call, _ptuple)

IDS_B = ('Ethanol', 'Water')          # the same chemicals in another order: a different property package
W.preload([IDS, IDS_B])


# --------------------------------------------------------------------------- sources

def _build(w, src):
    """Stream / MultiStream as in the base file, or kind 'J': single-phase streams joined by MultiStream.from_streams."""
    if src['kind'] != 'J':
        return B._build(w, src)
    parts = []
    leaves = {}
    for n, p in enumerate(src['phases']):
        present = {'default': 'zero'}
        if p in src['pos']: present[p, 'Water'] = 'pos'
        if p in src['maybe']: present[p, 'Ethanol'] = 'maybe'
        x, lv = W.make_stream(w, 'a', IDS, p, present=present)
        x.T = w.real(f'T{n}', lo=0., lo_strict=True)
        x.P = w.real(f'P{n}', lo=0., lo_strict=True)
        parts.append(x)
        leaves.update(lv)
    s = tmo.MultiStream.from_streams(parts)
    return s, leaves


def _start(w, cfg):
    W.reset_caches()
    src = cfg['src']
    s, leaves = _build(w, src)
    st = B._State()
    st.s = s
    st.CASs = s.chemicals.CASs
    st.tc = s._thermal_condition
    st.T, st.P = s.T, s.P
    st.total = W.leaves_total_by_CAS(s, leaves)
    st.held = {}
    st.held_at = {}
    st.saved = None
    st.vsaved = {}
    st.applied = 0
    st.first = dict(st.total)
    if src['kind'] == 'J':
        # the conversion "single-phase streams -> one multi-phase stream": every stream's material is in the row of its
        # phase, and the per-phase sub-streams of the result are live views sharing T and P
        post = _obs(s)
        planted = {(p, s.chemicals[ID].CAS): v for (p, ID), v in leaves.items() if not (isinstance(v, float) and v == 0.)}
        w.ensure('join: phases are the phases of the joined streams',
                 w.And(post['phases'] == _ptuple(src['phases']), post['class'] == 'MultiStream'), got=post['phases'])
        _rows_clauses(w, 'join', st, planted, post)
        w.ensure('join: rep_ok', W.rep_ok(w, s))
        _view_reads(w, 'join', st, post, fresh=post['phases'])
        for p in post['phases']:
            st.held[p] = s[p]
            st.held_at[p] = post['phases']
    return st


# --------------------------------------------------------------------------- public observation channels

def _channels(w, tag, st, fractions=False):
    """The sentences of the property read through the public accessors of the stream (by name, by position, through
    an interchangeable label, through the views handed out by iteration).  The reference is the content of the rows,
    which the step contract has just fixed."""
    s = st.s
    post = _obs(s)
    raw = post['flows']
    phases = post['phases']
    IDs = s.chemicals.IDs
    CASs = st.CASs
    w.ensure(f'{tag}: [public] phases and len are the phase set',
             w.And(tuple(s.phases) == phases, len(s) == len(phases)), got=tuple(s.phases), rows=phases)
    tot = {c: 0. for c in CASs}
    for (p, c), v in raw.items():
        tot[c] = tot[c] + v
    mol = s.mol
    w.ensure(f'{tag}: [public] imol[ID] and mol[k] are the total flow of every chemical',
             w.And(*[w.eq(s.imol[ID], tot[c]) for ID, c in zip(IDs, CASs)],
                   *[w.eq(mol[k], tot[c]) for k, c in enumerate(CASs)]))
    if post['class'] == 'MultiStream':
        for p in (*phases, *_alias_labels(phases)):
            row = _dest(p, phases)
            by_row = s.imol[p]
            txt = (f'{tag}: [by name] imol[{p}, ID] and imol[{p}] read the material of phase {p}' if row == p else
                   f'{tag}: [by name] imol[{p}, ID] and imol[{p}] (exact label absent) read the material of phase {row}')
            w.ensure(txt, w.And(*[w.eq(s.imol[p, ID], raw.get((row, c), 0.)) for ID, c in zip(IDs, CASs)],
                                *[w.eq(by_row[k], raw.get((row, c), 0.)) for k, c in enumerate(CASs)]))
        views = list(s)
        labels = [v.phase for v in views]
        ok = sorted(labels) == sorted(phases)          # (in whatever order)
        w.ensure(f'{tag}: [iteration] one phase view per phase, each reading its row, T and P',
                 w.And(ok, *[w.And(*[w.eq(v.imol[ID], raw.get((v.phase, c), 0.)) for ID, c in zip(IDs, CASs)],
                                   v._thermal_condition is s._thermal_condition,
                                   w.eq(v.T, post['T']), w.eq(v.P, post['P']))
                             for v in views] if ok else []), labels=labels)
    else:
        p = phases[0]
        try:
            v = s[p]
        except tmo.UndefinedPhase:
            v = None
        if v is not None:
            w.ensure(f'{tag}: [public] stream[{p}] of the single-phase stream reads its contents, T and P',
                     w.And(*[w.eq(v.imol[ID], raw.get((p, c), 0.)) for ID, c in zip(IDs, CASs)],
                           v._thermal_condition is s._thermal_condition, v.phase == p))
    if fractions:
        F = 0.
        for c in CASs: F = F + tot[c]
        grp = {'g': 0., 'l': 0., 's': 0.}
        for (p, c), v in raw.items():
            grp[p.lower()] = grp[p.lower()] + v
        w.ensure(f'{tag}: [public] vapour / liquid / solid split is the material of those phases',
                 w.And(w.eq(s.vapor_fraction * F, grp['g']), w.eq(s.liquid_fraction * F, grp['l']),
                       w.eq(s.solid_fraction * F, grp['s'])))


# --------------------------------------------------------------------------- operations added here

def _other(w, name, phases, pkg, i, k):
    """Another stream (Stream for one letter, MultiStream otherwise) with Ethanol > 0 in every phase, own T and P."""
    ids = IDS_B if pkg == 'B' else IDS
    present = {'default': 'zero'}
    for p in phases: present[p, 'Ethanol'] = 'pos'
    o, _ = W.make_stream(w, name, ids, phases if len(phases) == 1 else tuple(phases), present=present)
    o.T = w.real(f't{i}_{k}', lo=0., lo_strict=True)
    o.P = w.real(f'p{i}_{k}', lo=0., lo_strict=True)
    return o


def _parse_inlets(arg):
    out = []
    for part in arg.split('+'):
        if part == '@':
            out.append(('@', None))
        elif part.endswith('^B'):
            out.append((part[:-2], 'B'))
        else:
            out.append((part, 'A'))
    return out


def _after_growth(w, tag, st, need, incoming, in_place=True):
    """The stream took over the contents of other streams in place (`incoming`: their rows before the call, the
    receiver's own included when it is among the inlets).  Each phase's material is in the row of that phase (other
    case only when the exact label is absent from the resulting phase set); phase views stay live and share T and P."""
    s = st.s
    post = _obs(s)
    st.T, st.P = s.T, s.P
    st.total = W.total_by_CAS(s)
    if in_place:
        w.ensure(f'{tag}: still multi-phase, with a row for every phase taken over (up to case)',
                 w.And(post['class'] == 'MultiStream', _covers(post['phases'], tuple(need))), phases=post['phases'], need=need)
    else:
        # the phase set is rebuilt from the phases of the inlets: it may also shrink, down to a single-phase stream
        _class_clause(w, tag, post, len(post['phases']) == 1)
    agg = {}
    for fl in incoming:
        for k, v in fl.items():
            agg[k] = agg.get(k, 0.) + v
    tgt = post['phases']
    exp = {}
    lost = []
    for (p, cas), v in agg.items():
        q = _dest(p, tgt)
        if q is None:
            lost.append(p)
            continue
        exp[q, cas] = exp.get((q, cas), 0.) + v
    w.ensure(f'{tag}: every non-empty phase taken over has a row (same label, or other case only when the exact label is absent)',
             w.And(not lost), lost=sorted(set(lost)), phases=tgt)
    for q in tgt:
        w.ensure(f'{tag}: row {q} holds exactly the material of phase {q} taken over (plus {_swap(q)} only if that label is absent)',
                 w.And(*[w.eq(post['flows'].get((q, cas), 0.), exp.get((q, cas), 0.)) for cas in st.CASs]))
    _common_clauses(w, tag, st, post, st.T, st.P, word='shared by parent and views')
    _view_reads(w, tag, st, post, fresh=(*post['phases'], *_alias_labels(post['phases'])))


def _step2(w, st, i, op, must_apply=False):
    s = st.s
    kind = op[0]
    arg = op[1] if len(op) > 1 else None
    base_kinds = ('set', 'add', 'drop', 'single', 'as_stream', 'reduce', 'vle', 'lle', 'sle', 'vwrite', 'vread', 'pwrite',
                  'TP', 'copy_from', 'save', 'restore')
    if kind in base_kinds:
        return B._step(w, st, i, op, must_apply=must_apply)
    tag = f'#{i} {kind}' + (f':{_argname(arg)}' if arg else '')
    pre = _obs(s)
    ne = _nonempty(pre)
    multi = pre['class'] == 'MultiStream'
    phases = pre['phases']
    flows = dict(pre['flows'])

    def skip():
        if must_apply:
            raise RuntimeError(f'configuration error: {op} does not apply to {pre["class"]}{phases} with non-empty {ne}')
        return False

    # ---- conversions through the phase setter of a multi-phase stream
    if kind in ('phase_multi', 'phase_default'):
        if not multi: return skip()
        if kind == 'phase_multi':
            target = tuple(arg)
            if len(set(target)) < 2: return skip()
            value = ''.join(target)
        else:
            target = ('l',)
            value = ''
        if not _covers(target, ne): return skip()
        _call(w, tag, lambda: setattr(s, 'phase', value))
        post = _obs(s)
        if kind == 'phase_multi':
            w.ensure(f'{tag}: phases are the requested set', w.And(post['phases'] == _ptuple(target)), got=post['phases'])
        # (which single phase an empty label stands for is not fixed by the statement: only that nothing is lost)
        _class_clause(w, tag, post, len(set(target)) == 1)
        _rows_clauses(w, tag, st, flows, post)
        _common_clauses(w, tag, st, post, pre['T'], pre['P'])
        _view_reads(w, tag, st, post)
    # ---- exact zeros and writes by name through an interchangeable label
    elif kind in ('vempty', 'vzero', 'pzero', 'pwrite_alias'):
        row = _dest(arg, phases) if multi else (arg if arg == phases[0] else None)
        if row is None: return skip()
        if kind == 'pwrite_alias' and (not multi or arg in phases): return skip()
        if kind in ('vempty', 'vzero') and not multi: return skip()
        cas = st.CASs[0]
        if kind == 'vempty':
            v = _call(w, tag, lambda: s[arg])
            v.empty()
            for c in st.CASs:
                st.total[c] = st.total[c] - flows.pop((row, c), 0.)
        else:
            if kind == 'pwrite_alias':
                x = w.real(f'x{i}', lo=0., lo_strict=True)
            else:
                x = 0.
            if kind == 'vzero':
                v = _call(w, tag, lambda: s[arg])
                v.imol['Water'] = x
            elif multi:
                s.imol[arg, 'Water'] = x
            else:
                s.imol['Water'] = x
            st.total[cas] = st.total[cas] - flows.pop((row, cas), 0.) + x
            if kind == 'pwrite_alias': flows[row, cas] = x
        post = _obs(s)
        w.ensure(f'{tag}: phases and class unchanged', w.And(post['phases'] == phases, post['class'] == pre['class']))
        _rows_clauses(w, tag, st, flows, post)
        _common_clauses(w, tag, st, post, pre['T'], pre['P'])
        _view_reads(w, tag, st, post, fresh=(arg,) if multi else ())
        if kind in ('vempty', 'vzero') and arg not in st.held:
            st.held[arg] = v
            st.held_at[arg] = phases
    elif kind in ('prow', 'vpos'):
        # other forms of the same writes: a whole row by name through the parent; by position through the view
        row = _dest(arg, phases) if multi else None
        if row is None: return skip()
        x = w.real(f'x{i}', lo=0., lo_strict=True)
        if kind == 'prow':
            y = w.real(f'y{i}', lo=0., lo_strict=True)
            s.imol[arg] = [x, y]
            new_row = {st.CASs[0]: x, st.CASs[1]: y}
        else:
            v = _call(w, tag, lambda: s[arg])
            v.mol[0] = x
            new_row = {st.CASs[0]: x}
        for c, val in new_row.items():
            st.total[c] = st.total[c] - flows.get((row, c), 0.) + val
            flows[row, c] = val
        post = _obs(s)
        w.ensure(f'{tag}: phases and class unchanged', w.And(post['phases'] == phases, post['class'] == pre['class']))
        _rows_clauses(w, tag, st, flows, post)
        _common_clauses(w, tag, st, post, pre['T'], pre['P'])
        _view_reads(w, tag, st, post, fresh=(arg,))
        if kind == 'vpos' and arg not in st.held:
            st.held[arg] = v
            st.held_at[arg] = phases
    elif kind == 'pempty':
        s.empty()
        flows = {}
        st.total = {c: 0. for c in st.CASs}
        post = _obs(s)
        w.ensure(f'{tag}: phases and class unchanged', w.And(post['phases'] == phases, post['class'] == pre['class']))
        _rows_clauses(w, tag, st, flows, post)
        _common_clauses(w, tag, st, post, pre['T'], pre['P'])
        _view_reads(w, tag, st, post, fresh=phases if multi else ())
    # ---- growth in place
    elif kind in ('copy_any', 'copy_single'):
        # arg: 'g' | 'lgL' | 'g^B' ...
        (oph, pkg), = _parse_inlets(arg)
        if kind == 'copy_single' and len(oph) != 1: return skip()
        if not multi and len(oph) < 2: return skip()       # stays single-phase: nothing about phase views to state
        other = _other(w, f'o{i}', oph, pkg, i, 0)
        incoming = [_obs(other)['flows']]
        _call(w, tag, lambda: s.copy_like(other))
        w.ensure(f'{tag}: T and P are those of the other stream', w.And(w.eq(s.T, other.T), w.eq(s.P, other.P)))
        _after_growth(w, tag, st, oph, incoming)
    elif kind in ('mix_grow', 'mix_conserve'):
        # mix_conserve: conserve_phases=True, the receiver (single- or multi-phase) first takes the phases of all inlets
        conserve = kind == 'mix_conserve'
        spec = _parse_inlets(arg)
        if not multi and not conserve: return skip()
        inlets = []
        need = ''
        incoming = []
        for k, (oph, pkg) in enumerate(spec):
            if oph == '@':
                inlets.append(s)
                incoming.append(flows)
            else:
                inlets.append(_other(w, f'o{i}_{k}', oph, pkg, i, k))
                incoming.append(_obs(inlets[-1])['flows'])
                need += oph
        if not multi and sum(1 for fl in incoming if fl) < 2:
            # a single-phase receiver takes the phases of its inlets only when it really mixes (two or more non-empty
            # inlets); with one it copies the flows and keeps its own label, which is mixing's business, not a conversion
            return skip()
        _call(w, tag, lambda: s.mix_from(inlets, energy_balance=False, conserve_phases=conserve))
        _after_growth(w, tag, st, need, incoming, in_place=not conserve)
    # ---- save / restore by other entry points
    elif kind == 'temporary':
        t = w.real(f't{i}', lo=0., lo_strict=True)
        pp = w.real(f'p{i}', lo=0., lo_strict=True)
        saved_total = dict(st.total)
        ctx = _call(w, tag, lambda: s.temporary(T=t, P=pp))
        with ctx:
            st.T, st.P = s.T, s.P          # (what the stream is like inside is not the property's business)
            for j, iop in enumerate(arg):
                _step2(w, st, f'{i}.{j}', tuple(iop))
        st.T, st.P = pre['T'], pre['P']
        st.total = saved_total
        post = _obs(s)
        w.ensure(f'{tag}: phases restored',
                 w.And(post['phases'] == phases,
                       post['class'] == pre['class'] or (len(post['phases']) == 1 and post['class'] == 'Stream')),
                 got=(post['class'], post['phases']), saved=(pre['class'], phases))
        keys = sorted(set(pre['flows']) | set(post['flows']))
        w.ensure(f'{tag}: flows restored exactly',
                 w.And(*[w.eq(post['flows'].get(k, 0.), pre['flows'].get(k, 0.)) for k in keys]))
        _common_clauses(w, tag, st, post, pre['T'], pre['P'], word='restored')
        _view_reads(w, tag, st, post)
    elif kind == 'from_data':
        cls = {'Stream': tmo.Stream, 'MultiStream': tmo.MultiStream}[arg]
        n = _call(w, tag, lambda: cls.from_data(s.get_data(), thermo=s._thermo))
        post = _obs(s)
        w.ensure(f'{tag}: saving changes nothing', w.And(W.same_snapshot(w, pre, post), post['obj'] is pre['obj']))
        _common_clauses(w, tag, st, post, pre['T'], pre['P'])
        new = _obs(n)
        w.ensure(f'{tag}: the stream made from the saved data has the same phases',
                 w.And(new['phases'] == phases, (new['class'] == 'Stream') == (len(phases) == 1)
                       or new['class'] == pre['class']), got=(new['class'], new['phases']))
        keys = sorted(set(pre['flows']) | set(new['flows']))
        w.ensure(f'{tag}: the stream made from the saved data has the same flows, T and P',
                 w.And(*[w.eq(new['flows'].get(k, 0.), pre['flows'].get(k, 0.)) for k in keys],
                       w.eq(new['T'], pre['T']), w.eq(new['P'], pre['P'])))
    elif kind == 'save_view':
        row = _dest(arg, phases) if multi else None
        if row is None: return skip()
        v = _call(w, tag, lambda: s[arg])
        st.vsaved[arg] = {'data': v.get_data(), 'row': {c: flows.get((row, c), 0.) for c in st.CASs},
                          'T': pre['T'], 'P': pre['P']}
        post = _obs(s)
        w.ensure(f'{tag}: saving changes nothing', w.And(W.same_snapshot(w, pre, post), post['obj'] is pre['obj']))
        _common_clauses(w, tag, st, post, pre['T'], pre['P'])
        if arg not in st.held:
            st.held[arg] = v
            st.held_at[arg] = phases
    elif kind == 'restore_view':
        row = _dest(arg, phases) if multi else None
        if row is None or arg not in st.vsaved: return skip()
        sv = st.vsaved[arg]
        v = _call(w, tag, lambda: s[arg])
        _call(w, tag, lambda: v.set_data(sv['data']))
        for c in st.CASs:
            st.total[c] = st.total[c] - flows.pop((row, c), 0.) + sv['row'][c]
            flows[row, c] = sv['row'][c]
        flows = {k: x for k, x in flows.items() if not (isinstance(x, float) and x == 0.)}
        st.T, st.P = sv['T'], sv['P']
        post = _obs(s)
        IDs = s.chemicals.IDs
        w.ensure(f'{tag}: the view shows the saved flows, T and P again and is still the view of its phase',
                 w.And(*[w.eq(v.imol[ID], sv['row'][c]) for ID, c in zip(IDs, st.CASs)], w.eq(v.T, sv['T']),
                       w.eq(v.P, sv['P']), type(v) is tmo.Stream, v.phase == arg or (arg not in phases and v.phase == row)))
        w.ensure(f'{tag}: phases and class unchanged', w.And(post['phases'] == phases, post['class'] == pre['class']))
        _rows_clauses(w, tag, st, flows, post)
        _common_clauses(w, tag, st, post, sv['T'], sv['P'], word='restored (shared with the view)')
        _view_reads(w, tag, st, post, fresh=(arg,))
    else:
        raise RuntimeError(f'unknown operation {op}')
    st.applied += 1
    return True


def _run(w, cfg, canary):
    st = _start(w, cfg)
    s = st.s
    chan = cfg.get('channels', 'all')
    if chan != 'none': _channels(w, 'start', st)
    n = len(cfg['ops'])
    for i, op in enumerate(cfg['ops']):
        op = tuple(op)
        done = _step2(w, st, i, op, must_apply=cfg.get('must_apply', False))
        if done and (chan == 'all' or (chan == 'end' and i == n - 1)):
            _channels(w, f'#{i} {op[0]}', st, fractions=(i == n - 1 and cfg.get('fractions', False)))
    got = W.total_by_CAS(s)
    for cas in st.CASs:
        w.ensure(f'end: total[{cas}] is what was planted and written', w.eq(got[cas], st.total[cas]))
    w.ensure('end: T, P are what was planted and written', w.And(w.eq(s.T, st.T), w.eq(s.P, st.P)))
    c0 = st.CASs[0]
    if canary == 'total':
        w.canary('canary: total changes by 1', w.eq(got[c0], st.total[c0] + 1))
    elif canary == 'T':
        w.canary('canary: T changes by 1', w.eq(s.T, st.T + 1))
    elif canary == 'name':
        w.canary('canary: read by name, Water is 1 more than the total', w.eq(s.imol['Water'], got[c0] + 1))
    w.note(applied=st.applied, phases=s.phases, cls=type(s).__name__, total=got, first=st.first)


def _argname(a):
    if isinstance(a, (list, tuple)):
        return '[' + ' '.join(_opname(o) for o in a) + ']' if a and isinstance(a[0], (list, tuple)) else ''.join(a)
    return str(a)


def _opname(op):
    return op[0] + (':' + _argname(op[1]) if len(op) > 1 else '')


def _cfg(src, ops, must_apply=False, **kw):
    d = {'name': f"src={_src_name(src)};ops=" + ','.join(_opname(o) for o in ops), 'src': src,
         'ops': [list(o) for o in ops]}
    if must_apply: d['must_apply'] = True
    for k, v in kw.items():
        if v:
            d[k] = v
            d['name'] += f';{k}={v}'
    return d


def _dedup(out):
    seen = set(); res = []
    for c in out:
        if c['name'] not in seen:
            seen.add(c['name']); res.append(c)
    return res


def _may_apply(src, op):
    """Whether the operation can apply to the freshly built source at all (decided on the structure only)."""
    kind = op[0]
    arg = op[1] if len(op) > 1 else None
    ph = tuple(src['phases'])
    multi = src['kind'] != 'S'
    pos = set(src['pos'])
    if kind in ('phase_multi', 'phase_default', 'pwrite_alias', 'prow', 'vpos', 'vwrite', 'vread', 'vempty', 'vzero', 'drop',
                'save_view', 'restore_view', 'mix_grow', 'copy_single') and not multi:
        return False
    if kind in ('vwrite', 'vread', 'vpos', 'prow', 'vempty', 'vzero', 'save_view'): return _dest(arg, ph) is not None
    if kind in ('pwrite', 'pzero'): return arg in ph
    if kind == 'pwrite_alias': return arg not in ph and _swap(arg) in ph
    if kind == 'add': return arg not in ph
    if kind == 'drop': return arg in ph and arg not in pos and len(ph) > 1
    if kind in ('set', 'phase_multi'): return _covers(tuple(arg), pos)
    if kind == 'single': return _covers((arg,), pos)
    if kind == 'phase_default': return _covers(('l',), pos)
    return True


def _joined(tier):
    """Sources made by MultiStream.from_streams."""
    out = [_src('J', 'lg', 'lg', 'g'), _src('J', 'gL', 'L', 'g'), _src('J', 'sl', 's', 'l'), _src('J', 'slg', 'lg', 's'),
           _src('J', 'lL', 'lL', 'L')]
    if tier == 'thorough':
        out += [_src('J', ph, ph, ph[-1]) for ph in B._subsets(2) if len(ph) <= 4]
        out += [_src('J', ph, ph[0], ph[-1]) for ph in B._subsets(2) if len(ph) <= 3]
        out += [_src('J', ph, '', ph[0]) for ph in ('lg', 'gL', 'slg')]
    return out


# --------------------------------------------------------------------------- C12/gap_public_channels

ONE_OPS = [('set', 'lg'), ('set', 'lL'), ('set', 'slgSL'), ('set', 'gS'), ('set', 'l'), ('add', 'g'), ('add', 'L'), ('add', 's'),
           ('drop', 'g'), ('drop', 'l'), ('single', 'l'), ('single', 'L'), ('single', 'g'), ('single', 'S'), ('as_stream',),
           ('reduce',), ('vle',), ('lle',), ('sle',), ('phase_multi', 'lg'), ('phase_multi', 'sL'), ('phase_multi', 'slgSL'),
           ('phase_default',), ('pwrite_alias', 'L'), ('pwrite_alias', 'l'), ('pwrite_alias', 's'), ('pwrite_alias', 'S'),
           ('vwrite', 'l'), ('vwrite', 'L'), ('vwrite', 'g'), ('pwrite', 'l'), ('pwrite', 'S'), ('TP',),
           ('prow', 'l'), ('prow', 'L'), ('prow', 'g'), ('vpos', 'l'), ('vpos', 'S'), ('vpos', 'g')]


def channel_configs(tier):
    out = []
    if tier == 'thorough':
        srcs = B.sources('quick')
    else:
        keep = {'S:l/w=l/e=l', 'S:g/w=-/e=g', 'S:S/w=S/e=S', 'S:L/w=-/e=-', 'S:s/w=s/e=s', 'M:lg/w=lg/e=g', 'M:lg/w=-/e=l',
                'M:lL/w=l/e=L', 'M:lL/w=lL/e=L', 'M:sl/w=s/e=l', 'M:gL/w=gL/e=L', 'M:gL/w=-/e=g', 'M:slg/w=s/e=g',
                'M:slg/w=lg/e=s', 'M:lgL/w=lgL/e=L', 'M:slgSL/w=slgSL/e=L', 'M:slgSL/w=s/e=L', 'M:S/w=S/e=S'}
        srcs = [x for x in B.sources(tier, small=True) if _src_name(x) in keep or x['kind'] == 'M']
    srcs = srcs + _joined(tier)
    for src in srcs:
        for op in ONE_OPS:
            if _may_apply(src, op):
                out.append(_cfg(src, [op], fractions=(op[0] in ('set', 'reduce', 'single', 'vle', 'phase_multi'))))
    # a second conversion on the same object: the accessors consulted before are consulted again
    pairs = [(a, b) for a in ONE_OPS for b in ONE_OPS if a[0] not in ('TP',) and b[0] not in ('TP',)]
    if tier != 'thorough':
        pairs = random.Random(1212).sample(pairs, 100)
    base = [_src('S', 'l', 'l', 'l'), _src('S', 'S', 'S', 'S'), _src('M', 'lg', 'lg', 'g'), _src('M', 'gL', 'L', 'g'),
            _src('M', 'slg', 'lg', 's'), _src('J', 'lg', 'lg', 'g')]
    rnd = random.Random(121)
    for a, b in pairs:
        ok = [src for src in base if _may_apply(src, a)]
        for src in (ok if tier == 'thorough' or len(ok) < 2 else rnd.sample(ok, 2)):
            out.append(_cfg(src, [a, b]))
    return _dedup(out)


@group('C12/gap_public_channels', configs=channel_configs,
       functions=['thermosteam._multi_stream:MultiStream.phases', 'thermosteam._multi_stream:MultiStream.phase',
                  'thermosteam._multi_stream:MultiStream.__iter__', 'thermosteam._multi_stream:MultiStream.__len__',
                  'thermosteam._multi_stream:MultiStream.__getitem__', 'thermosteam._multi_stream:MultiStream.mol',
                  'thermosteam._multi_stream:MultiStream.from_streams', 'thermosteam._multi_stream:MultiStream.vapor_fraction',
                  'thermosteam._multi_stream:MultiStream.liquid_fraction', 'thermosteam._multi_stream:MultiStream.solid_fraction',
                  'thermosteam._multi_stream:get_phase_fraction', 'thermosteam._stream:Stream.__getitem__',
                  'thermosteam._stream:Stream.__len__', 'thermosteam._stream:Stream.phases', 'thermosteam._stream:Stream.mol',
                  'thermosteam._stream:Stream.vapor_fraction', 'thermosteam._stream:Stream.liquid_fraction',
                  'thermosteam._stream:Stream.solid_fraction', 'thermosteam.indexer:MaterialIndexer.__getitem__',
                  'thermosteam.indexer:MaterialIndexer.__setitem__', 'thermosteam.indexer:MaterialIndexer._get_index_data',
                  'thermosteam.indexer:MaterialIndexer._get_index_and_kind', 'thermosteam.indexer:MaterialIndexer._set_cache',
                  'thermosteam.indexer:MaterialIndexer._set_phases', 'thermosteam.indexer:MaterialIndexer.from_data',
                  'thermosteam.indexer:MaterialIndexer.__iter__', 'thermosteam.indexer:ChemicalIndexer.__getitem__',
                  'thermosteam.indexer:get_sparse_chemical_data', 'thermosteam.indexer:set_sparse_chemical_data',
                  'thermosteam.indexer:reset_sparse_chemical_data', 'thermosteam._phase:PhaseIndexer'])
def public_channels(w, cfg):
    _run(w, cfg, 'name')


# --------------------------------------------------------------------------- C12/gap_zero_and_empty

def zero_configs(tier):
    """A phase is emptied (through its view, by name with an exact zero, through the parent), then a conversion whose
    outcome depends on which phases are empty is applied, and the views are used again."""
    out = []
    srcs = [_src('M', 'lg', 'lg', 'g'), _src('M', 'lL', 'lL', 'L'), _src('M', 'slg', 'slg', 'g'), _src('M', 'gL', 'gL', 'g'),
            _src('J', 'lg', 'lg', 'g')]
    if tier == 'thorough':
        srcs = [_src('M', ph, ph, ph[-1]) for ph in B._subsets(2)] + _joined(tier)
    after = [('reduce',), ('as_stream',), ('single', 'l'), ('single', 'g'), ('single', 'S'), ('set', 'lg'), ('set', 'sL'),
             ('vle',), ('lle',), ('sle',), ('phase_default',), ('phase_multi', 'lg'), ('save',)]
    rnd = random.Random(120)
    for src in srcs:
        ph = src['phases']
        for p in ph:
            for z in (('vempty', p), ('vzero', p), ('pzero', p)):
                for a in (after if tier == 'thorough' else rnd.sample(after, 4)):
                    out.append(_cfg(src, [z, a, ('vwrite', p), ('pwrite', p)], channels='end'))
                out.append(_cfg(src, [z, ('drop', p), ('add', p), ('vwrite', p)], channels='end'))
                out.append(_cfg(src, [('save',), z, ('reduce',), ('restore',), ('vread', p)], channels='end'))
            if tier == 'thorough' or p == ph[0]:
                rest = [q for q in ph if q != p]
                # all but one phase emptied one after the other: reduce / as_stream must find the one that is left
                seq = [('vempty', q) for q in rest]
                for a in (('reduce',), ('as_stream',), ('vle',)):
                    out.append(_cfg(src, [*seq, a], channels='end'))
        for a in (after if tier == 'thorough' else rnd.sample(after, 5)):
            out.append(_cfg(src, [('vwrite', ph[0]), ('pempty',), a, ('vwrite', ph[0])], channels='end'))
    return _dedup(out)


@group('C12/gap_zero_and_empty', configs=zero_configs,
       functions=['thermosteam._stream:Stream.empty', 'thermosteam.indexer:Indexer.empty', 'thermosteam.indexer:Indexer.isempty',
                  'thermosteam._multi_stream:MultiStream.reduce_phases', 'thermosteam._multi_stream:MultiStream.as_stream',
                  'thermosteam._multi_stream:MultiStream.phase', 'thermosteam._multi_stream:MultiStream.phases',
                  'thermosteam.indexer:MaterialIndexer.phases_are_empty', 'thermosteam.indexer:MaterialIndexer.to_material_indexer',
                  'thermosteam.indexer:MaterialIndexer.to_chemical_indexer', 'thermosteam.indexer:MaterialIndexer.__setitem__',
                  'thermosteam.indexer:ChemicalIndexer.__setitem__', 'thermosteam._multi_stream:MultiStream.__getitem__'])
def zero_and_empty(w, cfg):
    _run(w, cfg, 'total')


# --------------------------------------------------------------------------- C12/gap_growth_paths

def growth_configs(tier):
    """Phase views and reads by name are taken, the phase set grows in place by a path other than copy_like from a
    multi-phase stream of the same package, and the same views / names are used again from both sides."""
    out = []
    cases = [('lg', 's'), ('lg', 'L'), ('gL', 'l'), ('sl', 'g'), ('lS', 's')]
    if tier == 'thorough':
        cases = [(ph, q) for ph in B._subsets(2) if len(ph) <= 3 for q in PH if q not in ph]
    for ph, q in cases:
        srcs = [_src('M', ph, ph, ph[-1])]
        if tier == 'thorough': srcs += [_src('M', ph, ph[0], ph[-1]), _src('M', ph, '', ph[0]), _src('J', ph, ph, ph[-1])]
        big = ''.join(sorted(set(ph) | {q}))
        grow = [('copy_single', q), ('copy_single', q + '^B'), ('copy_any', big + '^B'), ('copy_any', q + ph[-1]), ('mix_grow', q),
                ('mix_grow', q + '+' + ph[0]), ('mix_grow', '@+' + q), ('mix_grow', q + '^B+' + ph), ('mix_grow', big + '+@')]
        for src in srcs:
            for g in grow:
                if _swap(q) in ph:
                    # q is an interchangeable label before the growth and an exact one afterwards
                    out.append(_cfg(src, [('vread', q), g, ('vwrite', q), ('pwrite', q), ('vread', _swap(q))]))
                    out.append(_cfg(src, [('pwrite_alias', q), g, ('pwrite', q), ('vwrite', _swap(q))]))
                out.append(_cfg(src, [('vwrite', ph[0]), ('vread', ph[-1]), g, ('pwrite', ph[0]), ('vwrite', ph[-1]), ('TP',)]))
                out.append(_cfg(src, [('add', q), ('vread', q), ('drop', q), g, ('vwrite', q), ('pwrite', q)]))
                if tier == 'thorough' or src['pos'] == ph:
                    out.append(_cfg(src, [('save',), g, ('vwrite', q), ('restore',), ('vwrite', ph[0])]))
                    out.append(_cfg(src, [g, ('reduce',), g, ('vwrite', q)]))
    # a single-phase receiver that becomes multi-phase by taking over a multi-phase stream / the phases of its inlets
    for p in ('l', 'g', 'S') if tier != 'thorough' else PH:
        src = _src('S', p, p, p)
        for oph in ('lg', 'gL^B', 'slg'):
            out.append(_cfg(src, [('copy_any', oph), ('vwrite', oph[0]), ('pwrite', oph[1]), ('TP',)]))
        for inl in ('g+l', '@+g+s', 'L+sg^B', 'l+l'):
            out.append(_cfg(src, [('mix_conserve', inl), ('vwrite', p), ('pwrite', p), ('TP',)]))
    for ph, inl in [('lg', 's+L'), ('lg', '@+s'), ('gL', 'l+s^B'), ('sl', '@+gS+g')]:
        src = _src('M', ph, ph, ph[-1])
        out.append(_cfg(src, [('vwrite', ph[0]), ('mix_conserve', inl), ('vwrite', ph[0]), ('pwrite', ph[-1]), ('TP',)]))
    return _dedup(out)


@group('C12/gap_growth_paths', configs=growth_configs,
       functions=['thermosteam._multi_stream:MultiStream.copy_like', 'thermosteam._stream:Stream.copy_like',
                  'thermosteam._stream:Stream.mix_from', 'thermosteam.indexer:MaterialIndexer.copy_like',
                  'thermosteam.indexer:MaterialIndexer.mix_from', 'thermosteam.indexer:MaterialIndexer._expand_phases',
                  'thermosteam.indexer:MaterialIndexer._set_phases', 'thermosteam.indexer:MaterialIndexer._set_cache',
                  'thermosteam.indexer:MaterialIndexer._get_index_data', 'thermosteam.indexer:MaterialIndexer.get_phase',
                  'thermosteam._multi_stream:MultiStream.__getitem__', 'thermosteam._multi_stream:MultiStream.__iter__',
                  'thermosteam._phase:PhaseIndexer', 'thermosteam.indexer:index_overlap'])
def growth_paths(w, cfg):
    _run(w, cfg, 'T')


# --------------------------------------------------------------------------- C12/gap_save_restore_entries

INNER = [[('set', 'lg')], [('set', 'slgSL')], [('single', 'l')], [('vle',)], [('lle',), ('vwrite', 'L')], [('reduce',)],
         [('add', 's'), ('pwrite', 's')], [('vwrite', 'l'), ('TP',)], [('pempty',)], [('as_stream',)],
         [('copy_any', 'sl')], [('mix_grow', 's')], [('vempty', 'g'), ('reduce',)]]


def entry_configs(tier):
    out = []
    srcs = B.sources('quick', small=True) + _joined(tier)
    if tier != 'thorough':
        keep = {'S:l/w=l/e=l', 'S:g/w=-/e=g', 'S:S/w=S/e=S', 'M:lg/w=lg/e=g', 'M:lL/w=l/e=L', 'M:gL/w=gL/e=L', 'M:slg/w=s/e=g',
                'M:slgSL/w=slgSL/e=L', 'M:lg/w=-/e=-', 'M:l/w=l/e=l', 'J:lg/w=lg/e=g', 'J:slg/w=lg/e=s'}
        srcs = [s for s in srcs if _src_name(s) in keep]
    for src in srcs:
        ph = src['phases']
        # save on entry, restore on exit
        for inner in INNER:
            out.append(_cfg(src, [('vread', ph[0]), ('temporary', inner), ('vwrite', ph[0])], channels='end'))
        out.append(_cfg(src, [('temporary', [('temporary', [('set', 'lgS')]), ('single', 'l')]), ('TP',)], channels='end'))
        # a new stream from saved data
        for cls in ('Stream', 'MultiStream'):
            out.append(_cfg(src, [('from_data', cls)], channels='none'))
            out.append(_cfg(src, [('vle',), ('from_data', cls)], channels='none'))
        # the same snapshot restored twice, with writes after the first restore
        for m in (('pwrite', ph[0]), ('vwrite', ph[-1]), ('set', 'slgSL'), ('single', 'l'), ('TP',), ('pempty',)):
            out.append(_cfg(src, [('save',), m, ('restore',), m, ('pwrite', ph[0]), ('TP',), ('restore',)], channels='end'))
        # save / restore through a phase view
        if src['kind'] != 'S':
            for p in (ph[0], ph[-1]):
                for m in (('vwrite', p), ('vempty', p), ('pwrite', p), ('TP',), ('add', 's'), ('lle',), ('pempty',)):
                    out.append(_cfg(src, [('save_view', p), m, ('restore_view', p), ('vwrite', p)], channels='end'))
                out.append(_cfg(src, [('save_view', p), ('save',), ('vwrite', p), ('restore_view', p), ('pwrite', p),
                                      ('restore',), ('restore_view', p)], channels='end'))
            for a in _alias_labels(ph)[:1]:
                out.append(_cfg(src, [('save_view', a), ('vwrite', a), ('restore_view', a), ('vread', _swap(a))], channels='end'))
    return _dedup(out)


@group('C12/gap_save_restore_entries', configs=entry_configs,
       functions=['thermosteam._stream:Stream.temporary', 'thermosteam._stream:TemporaryStream',
                  'thermosteam._stream:Stream.from_data', 'thermosteam._stream:Stream.get_data',
                  'thermosteam._stream:Stream.set_data', 'thermosteam._stream:StreamData', 'thermosteam._stream:Stream.empty',
                  'thermosteam.indexer:Indexer.copy', 'thermosteam.indexer:ChemicalIndexer._copy_without_data',
                  'thermosteam.indexer:MaterialIndexer._copy_without_data', 'thermosteam.indexer:ChemicalIndexer.copy_like',
                  'thermosteam.indexer:MaterialIndexer.copy_like', 'thermosteam._thermal_condition:ThermalCondition.copy_like',
                  'thermosteam._phase:Phase.copy', 'thermosteam._phase:LockedPhase'])
def save_restore_entries(w, cfg):
    _run(w, cfg, 'T')


# --------------------------------------------------------------------------- C12/gap_long_histories

LONG_ALPHABET = (B.ALPHABET
                 + [('phase_multi', 'lg'), ('phase_multi', 'sL'), ('phase_default',), ('pwrite_alias', 'L'), ('pwrite_alias', 's'),
                    ('vempty', 'l'), ('vempty', 'g'), ('vzero', 'L'), ('pzero', 'l'), ('pzero', 's'), ('pempty',),
                    ('copy_single', 's'), ('copy_any', 'gL^B'), ('mix_grow', 'L'), ('mix_grow', '@+g'), ('mix_conserve', '@+s'), ('mix_conserve', 'g+l'),
                    ('temporary', [('set', 'lg'), ('vwrite', 'l')]), ('temporary', [('single', 'l')]),
                    ('from_data', 'Stream'), ('save_view', 'l'), ('restore_view', 'l'), ('save_view', 'g'),
                    ('restore_view', 'g'), ('vread', 'S'), ('vread', 's'), ('vread', 'l'), ('add', 'S'), ('drop', 'S'),
                    ('prow', 'l'), ('prow', 'S'), ('vpos', 'g'), ('vpos', 'L')])

LONG_SOURCES = B.SEQ_SOURCES + [_src('J', 'lg', 'lg', 'g'), _src('J', 'slg', 'lg', 's')]


def long_configs(tier):
    rnd = random.Random(3012)
    out = []
    plan = {30: 400, 12: 1500} if tier == 'thorough' else {30: 30, 12: 60}
    for n, count in plan.items():
        for _ in range(count):
            src = rnd.choice(LONG_SOURCES)
            ops = [rnd.choice(LONG_ALPHABET) for _ in range(n)]
            out.append(_cfg(src, ops, channels='all'))
    return _dedup(out)


@group('C12/gap_long_histories', configs=long_configs,
       functions=['thermosteam._stream:Stream.phases', 'thermosteam._multi_stream:MultiStream.phases',
                  'thermosteam._multi_stream:MultiStream.phase', 'thermosteam._multi_stream:MultiStream.as_stream',
                  'thermosteam._multi_stream:MultiStream.reduce_phases', 'thermosteam._multi_stream:MultiStream.__getitem__',
                  'thermosteam._multi_stream:MultiStream.__iter__', 'thermosteam._multi_stream:MultiStream.from_streams',
                  'thermosteam._multi_stream:MultiStream.copy_like', 'thermosteam._stream:Stream.mix_from',
                  'thermosteam._stream:Stream.get_data', 'thermosteam._stream:Stream.set_data',
                  'thermosteam._stream:Stream.temporary', 'thermosteam._stream:Stream.from_data',
                  'thermosteam._stream:Stream.vle', 'thermosteam._stream:Stream.lle', 'thermosteam._stream:Stream.sle',
                  'thermosteam._multi_stream:MultiStream.vle', 'thermosteam._multi_stream:MultiStream.lle',
                  'thermosteam._multi_stream:MultiStream.sle', 'thermosteam.indexer:MaterialIndexer._expand_phases',
                  'thermosteam.indexer:MaterialIndexer._get_index_data', 'thermosteam.indexer:MaterialIndexer.to_material_indexer',
                  'thermosteam.indexer:MaterialIndexer.to_chemical_indexer', 'thermosteam.indexer:ChemicalIndexer.to_material_indexer'],
       notes='histories of 30 and of 12 operations drawn with a fixed seed (30 + 60 quick, 400 + 1500 thorough) over 61 '
             'operations and 9 sources; values unbounded')
def long_histories(w, cfg):
    _run(w, cfg, 'total')
