# -*- coding: utf-8 -*-
"""
C17 (gap round) -- more of the real reaction-arithmetic code under contract.

The groups of C17_reaction_arithmetic.py exercise every operator once, on fresh plain `Reaction` objects whose
reactant is chemical 0 (last phase row) and observe through `_reaction` (and `__call__` on a phase-less Stream).
This file adds, with the same sentences of the property as clauses:

  gap_item_operand      items of a reaction set (`ReactionItem`: own copy / X / basis) as operands of every operator,
                        on either side, in-place forms included (conversion link item <-> set must survive)
  gap_history           second and later operations on the same objects (repeated +, += twice, += then -=, operands
                        re-based back and forth, moved to another chemical order or handed to a set before the
                        operation, results used after the operands were mutated)
  gap_position          reactant in another column / phase row than the one every existing configuration uses;
                        backwards() with the product in the second phase row; wt basis
  gap_subset            slices of a set (sub-sets share the conversions), nested / stepped / negative indices,
                        reduce / copy / + on sub-sets, conversions changed through a ReactionSystem
  gap_set_rebase        re-based copies of sets and items act alike on the same material; P + Q with mixed bases
  gap_apply             the arithmetic results applied through the public entry points: __call__ on Stream (wt),
                        MultiStream (phase-tagged), sparse data, ndarray; force_reaction; conversion
  gap_incompatible      operands over other phases / another chemicals object: whatever happens, operands are left
                        unchanged; if a sum is formed nevertheless it acts like the operands in parallel by name

Helpers are those of C17_reaction_arithmetic.py (imported, not modified).  All groups run on the contract level of the
sparse kernels (l0=True) like the rest of C17.
"""
import numpy as np
import thermosteam as tmo
from engine.api import group, CheckAbort
from engine.sx import sym as _sym
from engine.sx import tmo_world as W
from contracts.C17_reaction_arithmetic import (
    IDS, RXN, _TH, _rows, dense, plant, mk_feed, feed_leaves, chems, plant_MW, rxn_spec, build,
    snap, same, disjoint, act, MWs, other_basis, ensure_each, poke, _parallel_expected)

# --------------------------------------------------------------------------- helpers (harness only)

def pub(r):
    """The definition of a reaction (set) read through the PUBLIC interface: reactant(s) by name, conversion,
    coefficients by (phase,) chemical name through the indexer view, basis."""
    ch = r.chemicals
    ph = r.phases
    if isinstance(r, tmo.reaction.ReactionSet):
        return {'reactant': repr(r.reactants), 'X': list(r.X), 'basis': r.basis, 'phases': tuple(ph),
                'stoich': [v for s in r.stoichiometry for v in dense(s)], 'chemicals': id(ch)}
    ist = r.istoichiometry
    if ph:
        by_name = [ist[p, ID] for p in ph for ID in ch.IDs]
    else:
        by_name = [ist[ID] for ID in ch.IDs]
    return {'reactant': repr(r.reactant), 'X': [r.X], 'basis': r.basis, 'phases': tuple(ph), 'stoich': by_name,
            'chemicals': id(ch)}


def isnap(r):
    """snap() of C17_reaction_arithmetic; for an item of a set the conversion is the item's own entry of the shared array."""
    s = snap(r)
    if isinstance(r, tmo.reaction.ReactionItem): s['X'] = [r._X[r._index]]
    return s


def readers(r):
    """Derived public reads of a single reaction: net conversion by reactant name, yield / demand per chemical name."""
    IDs = r.chemicals.IDs
    xn = r.X_net()
    return [xn[k] for k in sorted(xn, key=repr)] + [r.product_yield(ID) for ID in IDs] + [r.reactant_demand(ID) for ID in IDs]


def both(r):
    return isnap(r), pub(r)


def unchanged(w, pre, r):
    """Operand `r` has the definition recorded in `pre = both(r)`: private slots and public reads."""
    return w.And(same(w, pre[0], isnap(r)), same(w, pre[1], pub(r)))


def convert(vals, mw, to):
    """The same material in the other basis (mass = mol * MW)."""
    return [v * m for v, m in zip(vals, mw)] if to == 'wt' else [v / m for v, m in zip(vals, mw)]


def act_as(rxn, vals, basis, nrows, n):
    """Products, expressed in `basis`, of applying rxn (whatever its basis) to the material whose flows in `basis` are vals."""
    if rxn._basis == basis:
        return act(rxn, vals, nrows, n)
    mw = MWs(n, nrows)
    res = act(rxn, convert(vals, mw, rxn._basis), nrows, n)
    return convert(res, mw, basis)


def make_set(cls, specs, Xs, basis):
    rxns = [build(s, X, basis) for s, X in zip(specs, Xs)]
    return getattr(tmo, cls)(rxns), rxns


def set_specs(w, n, ph, names='abc', ridx=(0, 1, 0), fixed=None):
    return [rxn_spec(w, nm, n, ph, ridx=r, fixed=(fixed or {}).get(nm)) for nm, r in zip(names, ridx)]


def parallel_of(rxns, vals, basis, nrows, n):
    """Applying the reactions in parallel to the material whose flows in `basis` are vals: every reaction acts on the
    FEED (expressed in its own basis), the changes are added."""
    out = list(vals)
    for r in rxns:
        res = act_as(r, vals, basis, nrows, n)
        out = [o + (x - v) for o, x, v in zip(out, res, vals)]
    return out


_ENGINE_EXC = (_sym.EngineUnsupported, _sym.EngineNondeterminism, _sym.PathCap, _sym.Infeasible, CheckAbort)
RETURNS = 'the operations return normally'


def guarded(fn):
    """The property states what every operation RETURNS.  An exception of the code under check inside the body is the failed
    clause `RETURNS` (a named obligation like any other, so that it is also seen by the native fall-back) instead of
    the engine's anonymous no-unexpected-exception.  Engine limitations are passed on untouched."""
    def body(w, cfg):
        try:
            fn(w, cfg)
        except _ENGINE_EXC:
            raise
        except Exception as e:
            msg = f'{type(e).__name__}: {e}'
            if isinstance(e, TypeError) and 'SymReal' in msg and not any(t in msg for t in ('subscriptable', 'iterable', 'has no len', 'callable')):
                raise                                   # float()/index/hash of a symbolic value: engine limitation
            w.ensure(RETURNS, False, exception=msg[:300])
            return
        w.ensure(RETURNS, True)
    body.__name__ = fn.__name__
    body.__doc__ = fn.__doc__
    return body


PERM = (1, 0, 2)                                    # the same three chemicals in another order (another Chemicals object)
_c = tmo.Chemicals([W.chemical(IDS[i]) for i in PERM])
_c.compile()
_CH_OTHER = {3: _c}


def other_chems(w, n=3):
    """The other-order chemicals with the molecular weights planted by plant_MW (by chemical)."""
    ch = _CH_OTHER[n]
    ch.__dict__['MW'] = np.array([chems(n).MW[i] for i in PERM], dtype=object if w.symbolic else float)
    return ch


def permute(vals, n, to_other=True):
    """A dense image (rows of n entries) re-ordered from the order of chems(n) to the order of _CH_OTHER (or back)."""
    out = []
    for q in range(len(vals) // n):
        row = vals[q * n:(q + 1) * n]
        if to_other: out += [row[i] for i in PERM]
        else:
            back = [None] * n
            for pos, i in enumerate(PERM): back[i] = row[pos]
            out += back
    return out


# --------------------------------------------------------------------------- items of a set as operands

ITEM_OPS_BIN = ['item+d', 'd+item', 'item+item', 'item+d-d', 'd+item-item']
ITEM_OPS_INP = ['item+=d', 'item-=d', 'd+=item', 'd-=item', 'item+=item']
ITEM_OPS_UN = ['neg', 'mul', 'rmul', 'truediv', 'copy', 'rebase', 'backwards']


def item_operand_configs(tier):
    out = []
    for cls in ['ParallelReaction', 'SeriesReaction']:
        for ph in ['', 'gl']:
            for bases in ['mol+mol', 'wt+wt', 'mol+wt', 'wt+mol']:
                for op in ITEM_OPS_BIN + ITEM_OPS_INP + ITEM_OPS_UN:
                    unary = op in ITEM_OPS_UN or op in ('item+item', 'item+=item')
                    if unary and bases in ('mol+wt', 'wt+mol'): continue
                    if tier == 'quick':
                        if cls == 'SeriesReaction' and (ph or bases != 'mol+mol' or op not in ('item+=d', 'd+item', 'mul')): continue
                        if bases == 'wt+wt' and (ph or op not in ('item+d', 'item+=d', 'rebase')): continue
                        if bases in ('mol+wt', 'wt+mol') and (ph or op not in ('item+d', 'd+item', 'item+=d', 'd-=item')): continue
                        if ph and op in ('rmul', 'truediv', 'd+item-item', 'item+item'): continue
                    out.append({'name': f'{cls};ph={ph or "-"};basis={bases};op={op}', 'cls': cls, 'ph': ph, 'bases': bases, 'op': op})
    return out


ITEM_OPERAND_FUNCS = [RXN + 'ReactionItem.copy', RXN + 'ReactionItem.X', RXN + 'ReactionItem.__init__', RXN + 'ReactionItem.basis',
                      RXN + 'Reaction.__add__', RXN + 'Reaction.__sub__', RXN + 'Reaction.__iadd__', RXN + 'Reaction.__isub__',
                      RXN + 'Reaction.__mul__', RXN + 'Reaction.__rmul__', RXN + 'Reaction.__truediv__', RXN + 'Reaction.__neg__',
                      RXN + 'Reaction.backwards', RXN + 'Reaction._math_compatible_reaction', RXN + 'Reaction.has_reaction',
                      RXN + 'Reaction.istoichiometry', RXN + 'Reaction.reactant', RXN + 'ReactionSet.reactants',
                      RXN + 'ReactionSet.stoichiometry', RXN + 'ReactionSet.__getitem__', RXN + 'set_reaction_basis']


@group('C17/gap_item_operand', configs=item_operand_configs, functions=ITEM_OPERAND_FUNCS, l0=True)
@guarded
def item_operand(w, cfg):
    """An item of a reaction set is a reaction: every sentence of the property about a, b holds with an item in the place
    of a or b, and the set the item belongs to is an operand that binary forms must spare."""
    W.reset_caches()
    n = 3
    plant_MW(w, n)
    ph, op = tuple(cfg['ph']), cfg['op']
    nrows = len(ph)
    bs, bd = cfg['bases'].split('+')
    i = 2                                            # the item: third reaction of the set (reactant 0, like the first)
    rrow = nrows - 1 if nrows else 0
    prod = (0, 1)                                    # a product of the item (needed by backwards)
    fixed = {'c': {prod: w.real('c.p', lo=0., lo_strict=True)}} if op == 'backwards' else None
    specs = set_specs(w, n, ph, fixed=fixed)
    Xs = [w.real(f'X{j}') for j in range(3)]
    S, rxns = make_set(cfg['cls'], specs, Xs, bs)
    S0, _ = make_set(cfg['cls'], specs, Xs, bs)      # an identical, untouched set (reference)
    sd = rxn_spec(w, 'd', n, ph, ridx=0)
    Xd = w.real('Xd')
    d = build(sd, Xd, bd)
    vals = feed_leaves(w, nrows, n)
    item = S[i]
    pS, pd, pI = both(S), both(d), both(item)
    pre = [both(r) for r in rxns]
    before = act(S, vals, nrows, n)
    Xi, si = Xs[i], specs[i]
    k = w.real('k', lo=0., lo_strict=True)
    j = (rrow * n + 1)
    spare_set = True
    res = None

    if op in ('item+d', 'd+item', 'item+d-d', 'd+item-item'):
        w.assume(w.Or(w.eq(Xd, 0.), w.ne(Xi + Xd, 0.)))
        w.assume(w.Or(w.eq(Xi, 0.), w.ne(Xi + Xd, 0.)))
        first = op.startswith('item')
        res = item + d if first else d + item
        order = ([si, sd], [Xi, Xd], [bs, bd]) if first else ([sd, si], [Xd, Xi], [bd, bs])
        if op in ('item+d', 'd+item'):
            got = act(res, vals, nrows, n)
            ensure_each(w, '(a+b)(feed) = a and b in parallel', got, _parallel_expected(w, *order, vals, nrows, n))
            w.ensure('a+b keeps the basis of a', res._basis == order[2][0])
            w.canary('canary: (a+b)(feed) = feed', w.eq(got[j], vals[j]))
        else:
            w.assume(w.And(w.ne(Xi, 0.), w.ne(Xd, 0.)))
            psum = both(res)
            back = res - d if first else res - item
            w.ensure('a+b unchanged by subtraction', unchanged(w, psum, res))
            got = act(back, vals, nrows, n)
            ensure_each(w, '((a+b)-b)(feed) = a(feed)', got, act(build(order[0][0], order[1][0], order[2][0]), vals, nrows, n))
            w.ensure('(a+b)-b is a new object sharing no storage with a, b, the set',
                     w.And(back is not res, disjoint(back, res), disjoint(back, d), disjoint(back, S)))
            w.canary('canary: ((a+b)-b)(feed) = feed', w.eq(got[j], vals[j]))
            poke(back)
    elif op == 'item+item':
        other = S[0]
        w.assume(w.Or(w.eq(Xs[0], 0.), w.ne(Xi + Xs[0], 0.)))
        res = item + other
        got = act(res, vals, nrows, n)
        ensure_each(w, '(a+b)(feed) = a and b in parallel', got,
                    _parallel_expected(w, [si, specs[0]], [Xi, Xs[0]], [bs, bs], vals, nrows, n))
        w.canary('canary: (a+b)(feed) = feed', w.eq(got[j], vals[j]))
    elif op in ('item+=d', 'item-=d', 'item+=item'):
        spare_set = False                          # the receiver belongs to the set: its conversion is the set's
        rhs = S[0] if op == 'item+=item' else d
        Xr = Xs[0] if op == 'item+=item' else Xd
        plus = op != 'item-=d'
        w.assume(w.Or(w.eq(Xr, 0.), w.ne(Xi + Xr if plus else Xi - Xr, 0.)))
        ref_item = S0[i]
        binary = ref_item + (S0[0] if op == 'item+=item' else d) if plus else ref_item - d
        r = item
        if plus: r += rhs
        else: r -= rhs
        what = 'a += b' if plus else 'a -= b'
        bin_ = 'a + b' if plus else 'a - b'
        got = act(r, vals, nrows, n)
        ensure_each(w, f'({what})(feed) = ({bin_})(feed)', got, act(binary, vals, nrows, n))
        w.ensure(f'{what} is the same reaction as {bin_}', w.And(same(w, isnap(r), isnap(binary)), same(w, pub(r), pub(binary))))
        # an in-place form changes the conversion of the item: the set shows it, the other conversions stay
        newX = list(Xs); newX[i] = Xi + Xr if plus else Xi - Xr
        w.ensure('set shows the new conversion of its item, others unchanged', w.all_eq(list(S.X), newX))
        w.ensure('a fresh item shows the new conversion', w.eq(S[i].X, newX[i]))
        # ... and stays linked afterwards (item -> set, set -> item)
        x = w.real('x')
        item.X = x
        w.ensure('set shows a conversion given to the item afterwards', w.eq(S.X[i], x))
        S.X[i] = x + 1.
        w.ensure('item shows a conversion given to the set afterwards', w.eq(item.X, x + 1.))
        if op != 'item+=item':
            w.ensure('b unchanged by the in-place form', unchanged(w, pd, d))
            w.ensure('the in-place result shares no storage with b', disjoint(r, d))
        w.canary(f'canary: ({what})(feed) = feed', w.eq(got[j], vals[j]))
    elif op in ('d+=item', 'd-=item'):
        plus = op == 'd+=item'
        w.assume(w.Or(w.eq(Xi, 0.), w.ne(Xd + Xi if plus else Xd - Xi, 0.)))
        binary = d + item if plus else d - item
        r = d
        if plus: r += item
        else: r -= item
        what = 'a += b' if plus else 'a -= b'
        bin_ = 'a + b' if plus else 'a - b'
        got = act(r, vals, nrows, n)
        ensure_each(w, f'({what})(feed) = ({bin_})(feed)', got, act(binary, vals, nrows, n))
        w.ensure(f'{what} is the same reaction as {bin_}', w.And(same(w, isnap(r), isnap(binary)), same(w, pub(r), pub(binary))))
        w.ensure('the in-place result shares no storage with the set', disjoint(r, S))
        res = r
        pd = None
        w.canary(f'canary: ({what})(feed) = feed', w.eq(got[j], vals[j]))
    elif op in ('neg', 'mul', 'rmul', 'truediv'):
        res = -item if op == 'neg' else (item * k if op == 'mul' else (k * item if op == 'rmul' else item / k))
        got = act(res, vals, nrows, n)
        w.ensure('result keeps stoichiometry, reactant, basis of the item',
                 same(w, pI[0], snap(res), keys=('stoich', 'reactant', 'basis', 'phases', 'chemicals')))
        if op != 'neg':
            X2 = Xi / k if op == 'truediv' else Xi * k
            ensure_each(w, 'k*a, a/k act like a with its conversion multiplied / divided by k', got, act(build(si, X2, bs), vals, nrows, n))
        w.canary('canary: result acts like the item', w.eq(got[j], act(build(si, Xi, bs), vals, nrows, n)[j]))
    elif op in ('copy', 'rebase'):
        res = item.copy(other_basis(bs)) if op == 'rebase' else item.copy()
        ref = act(build(si, Xi, bs), vals, nrows, n)
        if op == 'copy':
            ensure_each(w, 'copy acts like the item', act(res, vals, nrows, n), ref)
            w.ensure('copy is the same reaction as the item', w.And(same(w, pI[0], isnap(res)), same(w, pI[1], pub(res))))
        else:
            w.ensure('re-based copy has the requested basis', res._basis == other_basis(bs))
            ensure_each(w, 're-based copy acts alike on the same material', act_as(res, vals, bs, nrows, n), ref)
        w.canary('canary: copy has another conversion', w.eq(res.X, Xi + 1.))
    else:
        res = item.backwards(reactant=IDS[1])
        st = snap(res)['stoich']
        w.ensure('reversed reaction has the product as reactant', repr(res._reactant_index) == repr((0, 1) if nrows else 1))
        w.ensure('reversed reaction is normalised on its reactant', w.eq(st[0 * n + 1], -1.))
        w.ensure('conversion of the reversed reaction', w.eq(res.X, Xi))
        w.canary('canary: reversed reaction keeps the coefficients', w.eq(st[rrow * n + 0], -1.))

    if res is not None:
        w.ensure('result is a new object sharing no storage with the set, the item', w.And(res is not item, disjoint(res, S), disjoint(res, item)))
        poke(res)                                  # independence: mutating the result must not reach set, item, b
    if spare_set:
        w.ensure('set unchanged', unchanged(w, pS, S))
        w.ensure('item unchanged', unchanged(w, pI, item))
        w.ensure('reactions the set was built from unchanged', w.And(*[unchanged(w, p0, r) for p0, r in zip(pre, rxns)]))
        ensure_each(w, 'set acts as before', act(S, vals, nrows, n), before)
        if pd is not None:
            w.ensure('b unchanged', unchanged(w, pd, d))
    per = max(nrows, 1) * n
    others = lambda sn: [v for q, v in enumerate(sn['stoich']) if q // per != i]
    w.ensure('the other reactions of the set keep stoichiometry, reactant and conversion',
             w.And(w.all_eq(others(pS[0]), others(snap(S))), pS[0]['reactant'] == snap(S)['reactant'],
                   *[w.eq(S.X[q], Xs[q]) for q in range(3) if q != i]))


# --------------------------------------------------------------------------- histories: later operations on the same objects

HIST = ['add;add', 'add;iadd', 'iadd;iadd', 'iadd;isub', 'imul;itruediv', 'imul;imul', 'there-and-back;add', 'there-and-back;iadd',
        'rebased;add', 'rebased;iadd', 'setX;add', 'setX;isub', 'in-set;add', 'in-set;iadd', 'in-set;mul',
        'outlives:add', 'outlives:sub', 'outlives:mul', 'outlives:neg', 'outlives:copy', 'outlives:rebase', 'outlives:backwards',
        'outlives:iadd', 'outlives:isub', 'moved;add', 'moved;iadd', 'moved;sum-sub', 'moved;mul']


def history_configs(tier):
    out = []
    for ph in ['', 'gl']:
        for basis in ['mol', 'wt']:
            for sc in HIST:
                if tier == 'quick':
                    if basis == 'wt' and (ph or sc not in ('there-and-back;add', 'rebased;iadd', 'in-set;add', 'outlives:rebase', 'iadd;isub')): continue
                    if ph and sc in ('imul;imul', 'setX;isub', 'in-set;mul', 'outlives:neg', 'outlives:copy', 'outlives:mul', 'there-and-back;iadd'): continue
                if sc.startswith('moved;') and (ph or (tier == 'quick' and basis == 'wt' and sc != 'moved;add')): continue   # reset_chemicals forks per coefficient
                out.append({'name': f'ph={ph or "-"};basis={basis};{sc}', 'ph': ph, 'basis': basis, 'scenario': sc})
    return out


HISTORY_FUNCS = [RXN + 'Reaction.__add__', RXN + 'Reaction.__iadd__', RXN + 'Reaction.__sub__', RXN + 'Reaction.__isub__',
                 RXN + 'Reaction.__mul__', RXN + 'Reaction.__imul__', RXN + 'Reaction.__itruediv__', RXN + 'Reaction.__neg__',
                 RXN + 'Reaction.copy', RXN + 'Reaction.backwards', RXN + 'Reaction.basis', RXN + 'Reaction.X',
                 RXN + 'set_reaction_basis', RXN + 'Reaction._rescale', RXN + 'Reaction._math_compatible_reaction',
                 RXN + 'ReactionSet.__init__', RXN + 'Reaction.istoichiometry', RXN + 'Reaction.reactant', RXN + 'Reaction.reset_chemicals']


@group('C17/gap_history', configs=history_configs, functions=HISTORY_FUNCS, l0=True)
@guarded
def history(w, cfg):
    """The sentences of the property hold for every pair of reactions, not only for freshly constructed ones: operands that
    were already combined, scaled, re-based in place (basis setter), given a new conversion (X setter), moved to another
    chemicals object (reset_chemicals) or handed to a reaction set behave like fresh reactions with the same definition, and a
    result keeps its definition whatever happens to the operands afterwards (it is a new object)."""
    W.reset_caches()
    n = 3
    plant_MW(w, n)
    ph, basis, sc = tuple(cfg['ph']), cfg['basis'], cfg['scenario']
    nrows = len(ph)
    ob = other_basis(basis)
    rrow = nrows - 1 if nrows else 0
    Xa, Xb = w.real('Xa'), w.real('Xb')
    fixed = {(0, 1): w.real('a.p', lo=0., lo_strict=True)} if sc == 'outlives:backwards' else None
    sa = rxn_spec(w, 'a', n, ph, fixed=fixed)
    sb = rxn_spec(w, 'b', n, ph)
    a, b = build(sa, Xa, basis), build(sb, Xb, basis)
    vals = feed_leaves(w, nrows, n)
    fresh_a = lambda X=Xa: build(sa, X, basis)
    fresh_b = lambda: build(sb, Xb, basis)
    j = rrow * n + 1
    k = w.real('k', lo=0., lo_strict=True)
    sum_ok = lambda X, Y: w.Or(w.eq(Y, 0.), w.ne(X + Y, 0.))

    if sc in ('add;add', 'add;iadd'):
        w.assume(sum_ok(Xa, Xb))
        c1 = a + b
        p1 = both(c1)
        got1 = act(c1, vals, nrows, n)
        expected = parallel_of([fresh_a(), fresh_b()], vals, basis, nrows, n)
        if sc == 'add;add':
            poke(c1)
            pa, pb = both(a), both(b)
            c2 = a + b
            got = act(c2, vals, nrows, n)
            ensure_each(w, '(a+b)(feed) = a and b in parallel (second sum of the same operands)', got, expected)
            w.ensure('second a+b is a new object sharing no storage with a, b, the first sum',
                     w.And(c2 is not c1, c2 is not a, disjoint(c2, c1), disjoint(c2, a), disjoint(c2, b)))
            w.ensure('a unchanged', unchanged(w, pa, a))
            w.ensure('b unchanged', unchanged(w, pb, b))
        else:
            pb = both(b)
            r = a
            r += b
            got = act(r, vals, nrows, n)
            ensure_each(w, '(a += b)(feed) = (a + b)(feed)', got, got1)
            w.ensure('a += b is the same reaction as a + b', w.And(same(w, isnap(r), p1[0]), same(w, pub(r), p1[1])))
            w.ensure('the earlier a + b is unchanged by a += b', unchanged(w, p1, c1))
            w.ensure('b unchanged', unchanged(w, pb, b))
        w.canary('canary: (a+b)(feed) = feed', w.eq(got[j], vals[j]))
    elif sc == 'iadd;iadd':
        w.assume(w.Or(w.eq(Xb, 0.), w.And(w.ne(Xa + Xb, 0.), w.ne(Xa + Xb + Xb, 0.))))
        pb = both(b)
        r = a
        r += b
        r += b
        got = act(r, vals, nrows, n)
        ensure_each(w, '(a += b; a += b)(feed) = a, b and b in parallel', got,
                    parallel_of([fresh_a(), fresh_b(), fresh_b()], vals, basis, nrows, n))
        w.ensure('b unchanged', unchanged(w, pb, b))
        w.ensure('result shares no storage with b', disjoint(r, b))
        w.canary('canary: second += does nothing', w.eq(got[j], parallel_of([fresh_a(), fresh_b()], vals, basis, nrows, n)[j]))
    elif sc == 'iadd;isub':
        w.assume(w.Or(w.eq(Xb, 0.), w.And(w.ne(Xa + Xb, 0.), w.ne(Xa, 0.))))
        pb = both(b)
        r = a
        r += b
        r -= b
        got = act(r, vals, nrows, n)
        ensure_each(w, '((a += b) -= b)(feed) = a(feed)', got, act(fresh_a(), vals, nrows, n))
        w.ensure('b unchanged', unchanged(w, pb, b))
        w.canary('canary: ((a += b) -= b)(feed) = feed', w.eq(got[j], vals[j]))
    elif sc in ('imul;itruediv', 'imul;imul'):
        k2 = w.real('k2', lo=0., lo_strict=True)
        r = a
        r *= k
        if sc == 'imul;itruediv': r /= k2
        else: r *= k2
        X2 = Xa * k / k2 if sc == 'imul;itruediv' else Xa * k * k2
        got = act(r, vals, nrows, n)
        ensure_each(w, 'scaled twice in place acts like a with its conversion scaled twice', got, act(fresh_a(X2), vals, nrows, n))
        w.ensure('scaling in place keeps stoichiometry, reactant, basis',
                 same(w, isnap(fresh_a()), isnap(r), keys=('stoich', 'reactant', 'basis', 'phases', 'chemicals')))
        w.canary('canary: scaled twice acts like a', w.eq(got[j], act(fresh_a(), vals, nrows, n)[j]))
    elif sc in ('there-and-back;add', 'there-and-back;iadd', 'rebased;add', 'rebased;iadd'):
        w.assume(sum_ok(Xa, Xb))
        a.basis = ob                               # in place (basis setter)
        if sc.startswith('there'): a.basis = basis
        ba = a._basis
        pa, pb = both(a), both(b)
        if sc.endswith(';add'):
            c = a + b
            w.ensure('a unchanged', unchanged(w, pa, a))
            w.ensure('a+b is a new object sharing no storage with a, b', w.And(c is not a, c is not b, disjoint(c, a), disjoint(c, b)))
        else:
            c = a
            c += b
            binary = (fresh_a().copy(ob) if ba == ob else fresh_a()) + fresh_b()
            w.ensure('a += b is the same reaction as a + b', w.And(same(w, isnap(c), isnap(binary)), same(w, pub(c), pub(binary))))
            w.ensure('result shares no storage with b', disjoint(c, b))
        w.ensure('result keeps the basis of a', c._basis == ba)
        got = act_as(c, vals, basis, nrows, n)
        ensure_each(w, '(a+b)(feed) = a and b in parallel (a re-based in place before)', got,
                    parallel_of([fresh_a(), fresh_b()], vals, basis, nrows, n))
        w.ensure('b unchanged', unchanged(w, pb, b))
        w.canary('canary: (a+b)(feed) = feed', w.eq(got[j], vals[j]))
    elif sc in ('setX;add', 'setX;isub'):
        x = w.real('x')
        a.X = x
        pa, pb = both(a), both(b)
        if sc == 'setX;add':
            w.assume(sum_ok(x, Xb))
            c = a + b
            got = act(c, vals, nrows, n)
            ensure_each(w, '(a+b)(feed) = a and b in parallel (conversion of a set before)', got,
                        parallel_of([fresh_a(x), fresh_b()], vals, basis, nrows, n))
            w.ensure('a unchanged', unchanged(w, pa, a))
        else:
            w.assume(w.Or(w.eq(Xb, 0.), w.ne(x - Xb, 0.)))
            binary = fresh_a(x) - fresh_b()
            c = a
            c -= b
            got = act(c, vals, nrows, n)
            ensure_each(w, '(a -= b)(feed) = (a - b)(feed)', got, act(binary, vals, nrows, n))
            w.ensure('a -= b is the same reaction as a - b', w.And(same(w, isnap(c), isnap(binary)), same(w, pub(c), pub(binary))))
        w.ensure('b unchanged', unchanged(w, pb, b))
        w.canary('canary: result(feed) = feed', w.eq(got[j], vals[j]))
    elif sc.startswith('moved;'):
        # both reactions were moved to another chemicals object (same chemicals, other order) before they are combined;
        # feeds and products are compared chemical by chemical
        ch2 = other_chems(w, n)
        a.reset_chemicals(ch2)
        b.reset_chemicals(ch2)
        pa, pb = both(a), both(b)
        vals2 = permute(vals, n)
        if sc in ('moved;add', 'moved;iadd'):
            w.assume(sum_ok(Xa, Xb))
            if sc == 'moved;add': c = a + b
            else:
                c = a.copy(); c += b
            expected = parallel_of([fresh_a(), fresh_b()], vals, basis, nrows, n)
            label = '(a+b)(feed) = a and b in parallel (reactions moved to another chemical order)'
        elif sc == 'moved;sum-sub':
            w.assume(w.Or(w.eq(Xb, 0.), w.And(w.ne(Xa + Xb, 0.), w.ne(Xa, 0.))))
            c = (a + b) - b
            expected = act(fresh_a(), vals, nrows, n)
            label = '((a+b)-b)(feed) = a(feed) (reactions moved to another chemical order)'
        else:
            c = k * a
            expected = act(fresh_a(Xa * k), vals, nrows, n)
            label = 'k*a acts like a with its conversion multiplied by k (reaction moved to another chemical order)'
        got = permute(act(c, vals2, nrows, n), n, to_other=False)
        ensure_each(w, label, got, expected)
        w.ensure('result is on the chemicals of the operands, with their reactant', w.And(c.chemicals is ch2, c.reactant == a.reactant))
        w.ensure('a unchanged', unchanged(w, pa, a))
        w.ensure('b unchanged', unchanged(w, pb, b))
        w.ensure('result is a new object sharing no storage with a, b', w.And(c is not a, c is not b, disjoint(c, a), disjoint(c, b)))
        w.canary('canary: result(feed) = feed', w.eq(got[j], vals[j]))
    elif sc.startswith('in-set;'):
        # a was handed to a reaction set before (a set and its source reactions must not reach each other); the set got a new conversion
        se = rxn_spec(w, 'e', n, ph, ridx=1)
        e = build(se, w.real('Xe'), basis)
        P = tmo.ParallelReaction([a, e])
        P.X[0] = w.real('y')
        pP = both(P)
        beforeP = act(P, vals, nrows, n)
        pa, pb = both(a), both(b)
        w.assume(sum_ok(Xa, Xb))
        if sc == 'in-set;add':
            c = a + b
            got = act(c, vals, nrows, n)
            ensure_each(w, '(a+b)(feed) = a and b in parallel (a belongs to a set)', got,
                        parallel_of([fresh_a(), fresh_b()], vals, basis, nrows, n))
            w.ensure('a+b shares no storage with a, b, the set', w.And(disjoint(c, a), disjoint(c, b), disjoint(c, P)))
            poke(c)
        elif sc == 'in-set;mul':
            c = k * a
            got = act(c, vals, nrows, n)
            ensure_each(w, 'k*a acts like a with its conversion multiplied by k (a belongs to a set)', got, act(fresh_a(Xa * k), vals, nrows, n))
            w.ensure('k*a shares no storage with a, the set', w.And(disjoint(c, a), disjoint(c, P)))
            poke(c)
        else:
            binary = fresh_a() + fresh_b()
            c = a
            c += b
            got = act(c, vals, nrows, n)
            ensure_each(w, '(a += b)(feed) = (a + b)(feed)', got, act(binary, vals, nrows, n))
            w.ensure('a += b is the same reaction as a + b', w.And(same(w, isnap(c), isnap(binary)), same(w, pub(c), pub(binary))))
        if sc != 'in-set;iadd':
            w.ensure('a unchanged', unchanged(w, pa, a))
            w.ensure('the set a belongs to is unchanged', unchanged(w, pP, P))
            ensure_each(w, 'the set a belongs to acts as before', act(P, vals, nrows, n), beforeP)
        w.ensure('b unchanged', unchanged(w, pb, b))
        w.canary('canary: result(feed) = feed', w.eq(got[j], vals[j]))
    else:
        op = sc.split(':')[1]
        if op in ('add', 'iadd'): w.assume(sum_ok(Xa, Xb))
        if op in ('sub', 'isub'): w.assume(w.Or(w.eq(Xb, 0.), w.ne(Xa - Xb, 0.)))
        second = b
        if op == 'add': res = a + b
        elif op == 'sub': res = a - b
        elif op == 'mul': res = k * a
        elif op == 'neg': res = -a
        elif op == 'copy': res = a.copy()
        elif op == 'rebase': res = a.copy(ob)
        elif op == 'backwards': res = a.backwards(reactant=IDS[1])
        else:
            res = fresh_a()
            if op == 'iadd': res += b
            else: res -= b
        pr = both(res)
        got0 = act(res, vals, nrows, n)
        # everything that can happen to the operands afterwards
        for o in (a, second):
            o.X = o.X + 1.
            o *= 3.
            o.basis = other_basis(o._basis)
        w.ensure('result keeps its definition when the operands change afterwards (it is a new object)', unchanged(w, pr, res))
        ensure_each(w, 'result acts as before when the operands change afterwards', act(res, vals, nrows, n), got0)
        w.canary('canary: result(feed) = feed', w.eq(got0[j], vals[j]))


# --------------------------------------------------------------------------- reactant at another position

POS_OPS = ['add', 'iadd', 'sum-sub', 'sum-isub', 'isub', 'mul', 'truediv', 'imul', 'itruediv', 'neg', 'copy', 'rebase',
           'backwards-named', 'backwards-auto', 'backwards-X']


def position_configs(tier):
    out = []
    for n in ([3] if tier == 'quick' else [3, 4]):
        for ph in ['', 'gl'] + (['gls'] if tier != 'quick' else []):
            nrows = len(ph)
            spots = [(n - 1, 0)] if tier == 'quick' else [(r, q) for r in range(n) for q in range(max(nrows, 1))
                                                          if (r, q) != (0, max(nrows - 1, 0))]
            if tier != 'quick' and n == 4: spots = [(3, 0), (2, max(nrows - 1, 0))]
            for ridx, rrow in spots:
                for bases in ['mol+mol', 'wt+wt', 'mol+wt', 'wt+mol']:
                    for op in POS_OPS:
                        binary = op in ('add', 'iadd', 'sum-sub', 'sum-isub', 'isub')
                        if not binary and bases in ('mol+wt', 'wt+mol'): continue
                        if ph == 'gls' and (bases != 'mol+mol' or not binary): continue
                        if tier == 'quick':
                            if bases == 'wt+wt' and (ph or op not in ('add', 'backwards-named', 'rebase')): continue
                            if bases in ('mol+wt', 'wt+mol') and (ph or op not in ('iadd', 'sum-sub')): continue
                            if ph and op in ('truediv', 'itruediv', 'neg', 'copy'): continue
                        out.append({'name': f'n={n};ph={ph or "-"};reactant=({rrow},{ridx});basis={bases};op={op}', 'n': n, 'ph': ph,
                                    'ridx': ridx, 'rrow': rrow, 'bases': bases, 'op': op})
    return out


POSITION_FUNCS = [RXN + 'Reaction.__add__', RXN + 'Reaction.__iadd__', RXN + 'Reaction.__sub__', RXN + 'Reaction.__isub__',
                  RXN + 'Reaction.__mul__', RXN + 'Reaction.__truediv__', RXN + 'Reaction.__imul__', RXN + 'Reaction.__itruediv__',
                  RXN + 'Reaction.__neg__', RXN + 'Reaction.copy', RXN + 'Reaction.backwards', RXN + 'Reaction._rescale',
                  RXN + 'set_reaction_basis', RXN + 'Reaction._math_compatible_reaction', RXN + 'Reaction._reaction',
                  RXN + 'Reaction.X_net', RXN + 'Reaction.product_yield', RXN + 'Reaction.reactant_demand']


@group('C17/gap_position', configs=position_configs, functions=POSITION_FUNCS, l0=True)
@guarded
def position(w, cfg):
    """Every configuration of the first round has the reactant in column 0 and in the last phase row; the sentences are
    about all reactions.  Here the reactant is the last chemical, in the first phase row (thorough: every position);
    backwards() finds its new reactant in the second phase row."""
    W.reset_caches()
    n, ph, op = cfg['n'], tuple(cfg['ph']), cfg['op']
    plant_MW(w, n)
    nrows = len(ph)
    ridx, rrow = cfg['ridx'], cfg['rrow']
    ba, bb = cfg['bases'].split('+')
    Xa, Xb = w.real('Xa'), w.real('Xb')
    vals = feed_leaves(w, nrows, n)
    k = w.real('k', lo=0., lo_strict=True)
    pidx = (ridx + 1) % n
    prow = (rrow + 1) % nrows if nrows else 0       # the product of backwards(): another column, another phase row
    j = prow * n + pidx
    if op.startswith('backwards'):
        p = w.real('a.p', lo=0., lo_strict=True)
        fixed = {(prow, pidx): p}
        for q in range(max(nrows, 1)):
            for c in range(n):
                if (q, c) not in ((rrow, ridx), (prow, pidx)):
                    fixed[q, c] = 0. if (c == pidx or op == 'backwards-auto') else w.real(f'a.s{q}.{c}', hi=0.)
        sa = rxn_spec(w, 'a', n, ph, ridx=ridx, rrow=rrow, fixed=fixed)
        a = build(sa, Xa, ba)
        pa = both(a)
        kw = {} if op == 'backwards-auto' else {'reactant': IDS[pidx]}
        if op == 'backwards-X': kw['X'] = Xb
        res = a.backwards(**kw)
        st = isnap(res)['stoich']
        w.ensure('operand unchanged', unchanged(w, pa, a))
        w.ensure('reversed reaction is a new object sharing no storage with the operand', w.And(res is not a, disjoint(res, a)))
        w.ensure('reversed reaction has the product as reactant',
                 w.And(repr(res._reactant_index) == repr((prow, pidx) if nrows else pidx),
                       res.reactant == ((ph[prow], IDS[pidx]) if nrows else IDS[pidx])))
        w.ensure('reversed reaction is normalised on its reactant', w.eq(st[prow * n + pidx], -1.))
        w.ensure('old reactant is a product of the reversed reaction', w.gt(st[rrow * n + ridx], 0.))
        w.ensure('conversion of the reversed reaction', w.eq(res.X, Xb if op == 'backwards-X' else Xa))
        w.ensure('reversed reaction keeps the basis', res._basis == ba)
        poke(res)
        w.ensure('operand unchanged after mutating the result', unchanged(w, pa, a))
        w.canary('canary: reversed reaction keeps the coefficients', w.eq(st[rrow * n + ridx], -1.))
        return
    sa = rxn_spec(w, 'a', n, ph, ridx=ridx, rrow=rrow)
    sb = rxn_spec(w, 'b', n, ph, ridx=ridx, rrow=rrow)
    a, b = build(sa, Xa, ba), build(sb, Xb, bb)
    fresh_a = lambda X=Xa: build(sa, X, ba)
    fresh_b = lambda: build(sb, Xb, bb)
    pa, pb = both(a), both(b)
    res = None
    if op in ('add', 'iadd'):
        w.assume(w.Or(w.eq(Xb, 0.), w.ne(Xa + Xb, 0.)))
        c = a + b
        got = act(c, vals, nrows, n)
        ensure_each(w, '(a+b)(feed) = a and b in parallel', got, _parallel_expected(w, [sa, sb], [Xa, Xb], [ba, bb], vals, nrows, n))
        w.ensure('a+b keeps basis and reactant of a', w.And(c._basis == ba, c.reactant == a.reactant))
        if op == 'iadd':
            r = fresh_a()
            r += b
            ensure_each(w, '(a += b)(feed) = (a + b)(feed)', act(r, vals, nrows, n), got)
            w.ensure('a += b is the same reaction as a + b', w.And(same(w, isnap(r), isnap(c)), same(w, pub(r), pub(c))))
            w.ensure('a += b shares no storage with b', disjoint(r, b))
        res = c
        w.canary('canary: (a+b)(feed) = feed', w.eq(got[j], vals[j]))
    elif op in ('sum-sub', 'sum-isub'):
        w.assume(w.Or(w.eq(Xb, 0.), w.And(w.ne(Xa + Xb, 0.), w.ne(Xa, 0.))))
        c = a + b
        if op == 'sum-sub':
            pc = both(c)
            d = c - b
            w.ensure('a+b unchanged by subtraction', unchanged(w, pc, c))
        else:
            d = c
            d -= b
        got = act(d, vals, nrows, n)
        ensure_each(w, '((a+b)-b)(feed) = a(feed)', got, act(fresh_a(), vals, nrows, n))
        res = d
        w.canary('canary: ((a+b)-b)(feed) = feed', w.eq(got[j], vals[j]))
    elif op == 'isub':
        w.assume(w.Or(w.eq(Xb, 0.), w.ne(Xa - Xb, 0.)))
        d = a - b
        got = act(d, vals, nrows, n)
        r = fresh_a()
        r -= b
        ensure_each(w, '(a -= b)(feed) = (a - b)(feed)', act(r, vals, nrows, n), got)
        w.ensure('a -= b is the same reaction as a - b', w.And(same(w, isnap(r), isnap(d)), same(w, pub(r), pub(d))))
        w.ensure('a -= b shares no storage with b', disjoint(r, b))
        res = d
        w.canary('canary: (a-b)(feed) = feed', w.eq(got[j], vals[j]))
    elif op in ('mul', 'truediv', 'imul', 'itruediv'):
        div = 'truediv' in op
        binary = a / k if div else k * a
        got = act(binary, vals, nrows, n)
        ensure_each(w, 'k*a, a/k act like a with its conversion multiplied / divided by k', got,
                    act(fresh_a(Xa / k if div else Xa * k), vals, nrows, n))
        w.ensure('result keeps stoichiometry, reactant, basis of a',
                 w.And(same(w, pa[0], isnap(binary), keys=('stoich', 'reactant', 'basis', 'phases', 'chemicals')),
                       same(w, pa[1], pub(binary), keys=('stoich', 'reactant', 'basis', 'phases', 'chemicals'))))
        if op.startswith('i'):
            r = fresh_a()
            if div: r /= k
            else: r *= k
            ensure_each(w, 'in-place scaling acts like the binary form', act(r, vals, nrows, n), got)
            w.ensure('in-place scaling gives the same reaction as the binary form', w.And(same(w, isnap(r), isnap(binary)), same(w, pub(r), pub(binary))))
        w.ensure('k*a, a/k read (net conversion, yields, demands by name) like a with its conversion multiplied / divided by k',
                 w.all_eq(readers(binary), readers(fresh_a(Xa / k if div else Xa * k))))
        res = binary
        w.canary('canary: k*a acts like a', w.eq(got[j], act(fresh_a(), vals, nrows, n)[j]))
    else:
        res = -a if op == 'neg' else (a.copy() if op == 'copy' else a.copy(other_basis(ba)))
        got = act_as(res, vals, ba, nrows, n)
        if op == 'neg':
            w.ensure('-a keeps stoichiometry, reactant, basis of a',
                     same(w, pa[0], isnap(res), keys=('stoich', 'reactant', 'basis', 'phases', 'chemicals')))
            w.canary('canary: -a acts like a', w.eq(got[j], act(fresh_a(), vals, nrows, n)[j]))
        else:
            ensure_each(w, 'copy (re-based copy: on the same material) acts like a', got, act(fresh_a(), vals, nrows, n))
            if op == 'copy': w.ensure('copy is the same reaction as a', w.And(unchanged(w, pa, res), w.all_eq(readers(res), readers(fresh_a()))))
            else: w.ensure('re-based copy has the requested basis and the same reactant', w.And(res._basis == other_basis(ba), res.reactant == a.reactant))
            w.canary('canary: copy(feed) = feed', w.eq(got[j], vals[j]))
    w.ensure('a unchanged', unchanged(w, pa, a))
    w.ensure('b unchanged', unchanged(w, pb, b))
    w.ensure('result is a new object sharing no storage with a, b', w.And(res is not a, res is not b, disjoint(res, a), disjoint(res, b)))
    poke(res)
    w.ensure('a unchanged after mutating the result', unchanged(w, pa, a))
    w.ensure('b unchanged after mutating the result', unchanged(w, pb, b))


# --------------------------------------------------------------------------- sub-sets (slices) of a reaction set, reaction systems

SLICES = {'0:2': slice(0, 2), '1:': slice(1, None), '::2': slice(None, None, 2), '-2:': slice(-2, None), '::-1': slice(None, None, -1),
          '1:|0:1': (slice(1, None), slice(0, 1)), '::-1|1:': (slice(None, None, -1), slice(1, None))}
SUB_DIRECTIONS = ['sub.X[q]=x', 'sub.X=arr', 'parent.X[q]=x', 'parent.X=arr', 'item-of-sub.X=x', 'item-of-parent.X=x', 'item-of-sub*=k',
                  'reduce', 'copy', 'rebase', 'add', 'system.X=', 'system-member.X=']


def subset_configs(tier):
    out = []
    for cls in ['ParallelReaction', 'SeriesReaction']:
        for ph in ['', 'gl']:
            for sl in SLICES:
                for d in SUB_DIRECTIONS:
                    if cls == 'SeriesReaction' and d in ('reduce', 'add'): continue
                    if cls == 'SeriesReaction' and ph and d == 'rebase': continue      # undecided within 120 s (series of re-based phase-tagged reactions)
                    if d.startswith('system') and sl != '0:2': continue
                    if tier == 'quick':
                        if cls == 'SeriesReaction' and (ph or sl not in ('1:', '::-1') or d not in ('sub.X[q]=x', 'parent.X=arr', 'copy')): continue
                        if ph and (sl not in ('0:2', '::2') or d in ('sub.X=arr', 'item-of-parent.X=x', 'item-of-sub*=k', 'rebase')): continue
                        if sl in ('-2:', '1:|0:1', '::-1|1:') and d not in ('sub.X[q]=x', 'parent.X[q]=x', 'reduce'): continue
                    out.append({'name': f'{cls};ph={ph or "-"};S[{sl}];{d}', 'cls': cls, 'ph': ph, 'slice': sl, 'direction': d})
    return out


SUBSET_FUNCS = [RXN + 'ReactionSet.__getitem__', RXN + 'ReactionSet.X', RXN + 'ReactionSet.__iter__', RXN + 'ReactionSet.copy',
                RXN + 'ReactionSet._rescale', RXN + 'ReactionSet.reactants', RXN + 'ReactionSet.stoichiometry', RXN + 'ReactionItem.__init__',
                RXN + 'ReactionItem.X', RXN + 'ParallelReaction.reduce', RXN + 'ParallelReaction.__add__', RXN + 'ParallelReaction._reaction',
                RXN + 'SeriesReaction._reaction', RXN + 'ReactionSystem.__init__', RXN + 'ReactionSystem.X', RXN + 'ReactionSystem.__getitem__',
                RXN + 'ReactionSystem._reaction', RXN + 'Reaction.__imul__']


@group('C17/gap_subset', configs=subset_configs, functions=SUBSET_FUNCS, l0=True)
@guarded
def subset(w, cfg):
    """A slice of a reaction set is a collection of items of that set: changing a conversion through the slice (or an item
    of it) changes the set and vice versa; copying / reducing / adding slices returns new objects and spares the set."""
    W.reset_caches()
    n = 3
    plant_MW(w, n)
    ph, d = tuple(cfg['ph']), cfg['direction']
    nrows = len(ph)
    cls = getattr(tmo, cfg['cls'])
    basis = 'mol'
    specs = set_specs(w, n, ph, ridx=(0, 1, 0))
    Xs = [w.real(f'X{q}') for q in range(3)]
    S, rxns = make_set(cfg['cls'], specs, Xs, basis)
    sl = SLICES[cfg['slice']]
    idx = list(range(3))
    sub = S
    for s_ in (sl if isinstance(sl, tuple) else (sl,)):
        sub = sub[s_]
        idx = idx[s_]
    m = len(idx)
    vals = feed_leaves(w, nrows, n)
    fresh = lambda X, which=None: cls([build(specs[q], X[q], basis) for q in (idx if which is None else which)])
    w.ensure('slice shows the conversions of the set', w.all_eq(list(sub.X), [Xs[q] for q in idx]))
    ensure_each(w, 'slice acts like the reactions it stands for', act(sub, vals, nrows, n), act(fresh(Xs), vals, nrows, n))
    w.ensure('slice names the reactants of the reactions it stands for', sub.reactants == fresh(Xs).reactants)
    pS, psub = both(S), both(sub)
    beforeS = act(S, vals, nrows, n)
    x = w.real('x')
    q = m - 1                       # position inside the slice
    Q = idx[q]                      # position inside the set
    jS = (specs[Q]['rrow'] * n + 2) if nrows else 2
    if d in ('sub.X[q]=x', 'sub.X=arr', 'parent.X[q]=x', 'parent.X=arr', 'item-of-sub.X=x', 'item-of-parent.X=x', 'item-of-sub*=k'):
        item_before = sub[q]        # an item handed out before the change
        newX = list(Xs); newX[Q] = x
        if d == 'sub.X[q]=x': sub.X[q] = x
        elif d == 'sub.X=arr':
            arr = sub.X.copy(); arr[q] = x
            sub.X = arr
        elif d == 'parent.X[q]=x': S.X[Q] = x
        elif d == 'parent.X=arr':
            arr = S.X.copy(); arr[Q] = x
            S.X = arr
        elif d == 'item-of-sub.X=x': sub[q].X = x
        elif d == 'item-of-parent.X=x': S[Q].X = x
        else:
            k = w.real('k', lo=0., lo_strict=True)
            it = sub[q]
            it *= k
            newX[Q] = x = Xs[Q] * k
        w.ensure('set shows the new conversion, others unchanged', w.all_eq(list(S.X), newX))
        w.ensure('slice shows the new conversion, others unchanged', w.all_eq(list(sub.X), [newX[t] for t in idx]))
        w.ensure('items (old and fresh, of slice and set) show the new conversion',
                 w.And(w.eq(item_before.X, x), w.eq(sub[q].X, x), w.eq(S[Q].X, x), w.eq(list(S)[Q].X, x)))
        ensure_each(w, 'set acts with the new conversion', act(S, vals, nrows, n), act(fresh(newX, range(3)), vals, nrows, n))
        ensure_each(w, 'slice acts with the new conversion', act(sub, vals, nrows, n), act(fresh(newX), vals, nrows, n))
        ensure_each(w, 'item of the slice acts with the new conversion', act(item_before, vals, nrows, n), act(build(specs[Q], x, basis), vals, nrows, n))
        w.ensure('stoichiometry and reactants of the set unchanged', same(w, pS[0], isnap(S), keys=('stoich', 'reactant', 'basis', 'phases', 'chemicals')))
        w.canary('canary: set ignores the new conversion', w.eq(act(S, vals, nrows, n)[jS], beforeS[jS]))
        return
    if d.startswith('system'):
        # conversions given through a reaction system reach the member set, its slices and items (and vice versa)
        sd = rxn_spec(w, 'd', n, ph, ridx=2)
        dd = build(sd, w.real('Xd'), basis)
        sys_ = tmo.ReactionSystem(S, dd)
        item_before = sub[q]
        newX = list(Xs); newX[Q] = x
        xd = w.real('xd')
        if d == 'system.X=':
            sys_.X = [np.array(newX, dtype=object if w.symbolic else float), xd]
        else:
            sys_[0][Q].X = x
            sys_[1].X = xd
        w.ensure('system shows the new conversions', w.And(w.all_eq(list(sys_.X[0]), newX), w.eq(sys_.X[1], xd)))
        w.ensure('set, slice, items and the single reaction show the new conversions',
                 w.And(w.all_eq(list(S.X), newX), w.all_eq(list(sub.X), [newX[t] for t in idx]), w.eq(item_before.X, x), w.eq(dd.X, xd)))
        ref = tmo.ReactionSystem(fresh(newX, range(3)), build(sd, xd, basis))
        ensure_each(w, 'system acts with the new conversions', act(sys_, vals, nrows, n), act(ref, vals, nrows, n))
        w.canary('canary: system ignores the new conversion', w.eq(sys_.X[0][Q], Xs[Q]))
        return
    # ---- new objects from a slice
    if d == 'reduce':
        same_reactant = [t for t in idx if specs[t]['ridx'] == 0]
        if len(same_reactant) == 2:
            w.assume(w.Or(w.eq(Xs[same_reactant[1]], 0.), w.ne(Xs[0] + Xs[2], 0.)))
        R = sub.reduce()
        got = act(R, vals, nrows, n)
        ensure_each(w, 'reduced slice acts like the slice', got, act(fresh(Xs), vals, nrows, n))
        w.ensure('reduced slice has one reaction per reactant', len(R._stoichiometry) == len({specs[t]['ridx'] for t in idx}))
        w.canary('canary: reduced slice does nothing', w.eq(got[jS], vals[jS]))
    elif d in ('copy', 'rebase'):
        R = sub.copy(other_basis(basis)) if d == 'rebase' else sub.copy()
        got = act_as(R, vals, basis, nrows, n)
        ensure_each(w, 'copy of a slice (re-based copy: on the same material) acts like the slice', got, act(fresh(Xs), vals, nrows, n))
        if d == 'copy': w.ensure('copy of a slice is the same reaction set', unchanged(w, psub, R))
        else: w.ensure('re-based copy has the requested basis', R._basis == other_basis(basis))
        w.canary('canary: copy has other conversions', w.eq(R.X[0], Xs[idx[0]] + 1.))
    else:
        specs2 = set_specs(w, n, ph, names='efg', ridx=(0, 1, 0))
        Ys = [w.real(f'Y{t}') for t in range(3)]
        for t in idx: w.assume(w.Or(w.eq(Ys[t], 0.), w.ne(Xs[t] + Ys[t], 0.)))
        T, _ = make_set(cfg['cls'], specs2, Ys, basis)
        other = T
        for s_ in (sl if isinstance(sl, tuple) else (sl,)): other = other[s_]
        pT = both(T)
        R = sub + other
        got = act(R, vals, nrows, n)
        ensure_each(w, '(P+Q)(feed) = all reactions of P and Q in parallel (P, Q slices)', got,
                    parallel_of([build(specs[t], Xs[t], basis) for t in idx] + [build(specs2[t], Ys[t], basis) for t in idx], vals, basis, nrows, n))
        w.ensure('second set unchanged', unchanged(w, pT, T))
        w.ensure('P+Q shares no storage with the second set', disjoint(R, T))
        w.canary('canary: (P+Q)(feed) = P(feed)', w.eq(got[jS], act(fresh(Xs), vals, nrows, n)[jS]))
    w.ensure('result is a new object sharing no storage with the slice, the set', w.And(R is not sub, R is not S, disjoint(R, sub), disjoint(R, S)))
    R.X[0] = R.X[0] + 1.            # independence: a conversion of the result must not reach slice or set
    w.ensure('set unchanged', unchanged(w, pS, S))
    w.ensure('slice unchanged', unchanged(w, psub, sub))
    ensure_each(w, 'set acts as before', act(S, vals, nrows, n), beforeS)
    gotR = act(R, vals, nrows, n)
    S.X[Q] = x                      # ... and a conversion of the set given afterwards must not reach the result
    ensure_each(w, 'result acts as before when a conversion of the set changes afterwards', act(R, vals, nrows, n), gotR)


# --------------------------------------------------------------------------- re-based copies of sets; sets of mixed bases

def set_rebase_configs(tier):
    out = []
    for cls in ['ParallelReaction', 'SeriesReaction']:
        for ph in ['', 'gl']:
            for basis in ['mol', 'wt']:
                for op in ['set.copy(other)', 'item.copy(other)', 'set.copy(same)', 'P+Q mixed', 'reduce', 'reduce;reduce', 'setX;reduce', 'setX;copy', 'setX;add']:
                    if cls == 'SeriesReaction' and ('reduce' in op or op in ('P+Q mixed', 'setX;add')): continue
                    if cls == 'SeriesReaction' and ph and op == 'set.copy(other)': continue      # undecided within 120 s (series of re-based phase-tagged reactions)
                    if op == 'P+Q mixed' and ph: continue      # phase-tagged: > 150 s per path in the solver (rational identities in 12 coefficients)
                    if tier == 'quick':
                        if cls == 'SeriesReaction' and (ph or basis == 'wt' or op not in ('set.copy(other)', 'setX;copy')): continue
                        if ph and basis == 'wt': continue
                        if ph and op in ('set.copy(same)', 'setX;add', 'reduce;reduce'): continue
                        if basis == 'wt' and op in ('set.copy(same)', 'setX;copy', 'setX;add', 'reduce;reduce'): continue
                    out.append({'name': f'{cls};ph={ph or "-"};basis={basis};{op}', 'cls': cls, 'ph': ph, 'basis': basis, 'op': op})
    return out


SET_REBASE_FUNCS = [RXN + 'ReactionSet.copy', RXN + 'ReactionSet._rescale', RXN + 'ReactionSet.MWs', RXN + 'set_reaction_basis',
                    RXN + 'ReactionItem.copy', RXN + 'ParallelReaction.__add__', RXN + 'ParallelReaction.reduce', RXN + 'ReactionSet.X',
                    RXN + 'ReactionItem.X', RXN + 'Reaction.__add__', RXN + 'Reaction.__iadd__', RXN + 'Reaction._math_compatible_reaction']


@group('C17/gap_set_rebase', configs=set_rebase_configs, functions=SET_REBASE_FUNCS, l0=True)
@guarded
def set_rebase(w, cfg):
    """Copying / re-basing / combining / reducing reaction sets: the result is a new object that acts like the operand(s) on
    the same material, also when conversions were changed through items before (the copy, sum, reduction uses the
    conversions the set has NOW) and when the two sets of a sum have different bases."""
    W.reset_caches()
    n = 3
    plant_MW(w, n)
    ph, basis, op = tuple(cfg['ph']), cfg['basis'], cfg['op']
    nrows = len(ph)
    ob = other_basis(basis)
    cls = getattr(tmo, cfg['cls'])
    specs = set_specs(w, n, ph, ridx=(0, 1, 0))
    Xs = [w.real(f'X{q}') for q in range(3)]
    P, rxns = make_set(cfg['cls'], specs, Xs, basis)
    vals = feed_leaves(w, nrows, n)
    if op.startswith('setX;'):
        # history: conversions changed through an item and through the set's array before the operation
        Xs = [w.real('x0'), Xs[1], w.real('x2')]
        P[0].X = Xs[0]
        P.X[2] = Xs[2]
        op = op.split(';')[1]
    fresh = lambda: cls([build(s, X, basis) for s, X in zip(specs, Xs)])
    ref = act(fresh(), vals, nrows, n)
    pP = both(P)
    jS = (specs[0]['rrow'] * n + 2) if nrows else 2
    if op in ('set.copy(other)', 'set.copy(same)', 'copy'):
        R = P.copy(ob) if op == 'set.copy(other)' else (P.copy(basis) if op == 'set.copy(same)' else P.copy())
        if not (op == 'set.copy(other)' and basis == 'wt'):
            # (wt -> mol of three reactions in one clause: 50 s in the solver; the items below say the same reaction by reaction)
            ensure_each(w, 'copy of a set (re-based copy: on the same material) acts like the set', act_as(R, vals, basis, nrows, n), ref)
        w.ensure('copy has the requested basis, the same reactants and conversions',
                 w.And(R._basis == (ob if op == 'set.copy(other)' else basis), R.reactants == P.reactants, w.all_eq(list(R.X), Xs)))
        for q in range(3):
            ensure_each(w, f'item {q} of the copy acts like item {q} of the set (re-based copy: on the same material)',
                        act_as(R[q], vals, basis, nrows, n), act(build(specs[q], Xs[q], basis), vals, nrows, n))
        w.canary('canary: copy has other conversions', w.eq(R.X[0], Xs[0] + 1.))
    elif op == 'item.copy(other)':
        R = None
        for q in range(3):
            c = P[q].copy(ob)
            ensure_each(w, f're-based copy of item {q} acts like the item on the same material', act_as(c, vals, basis, nrows, n),
                        act(build(specs[q], Xs[q], basis), vals, nrows, n))
            w.ensure(f're-based copy of item {q} is a new object with the requested basis sharing no storage with the set',
                     w.And(c._basis == ob, disjoint(c, P), c.reactant == P[q].reactant))
            poke(c)
        w.canary('canary: re-based copy keeps the coefficients', w.eq(isnap(P[0].copy(ob))['stoich'][jS], pP[0]['stoich'][jS]))
    elif op == 'P+Q mixed':
        # two reactions per set (three mixed-basis sums in one clause cost the solver > 15 min)
        specs, Xs = specs[1:], Xs[1:]
        P, rxns = make_set(cfg['cls'], specs, Xs, basis)
        pP = both(P)
        ref = act(fresh(), vals, nrows, n)
        specs2 = set_specs(w, n, ph, names='fg', ridx=(1, 0))
        Ys = [w.real(f'Y{t}') for t in range(2)]
        for X, Y in zip(Xs, Ys): w.assume(w.Or(w.eq(Y, 0.), w.ne(X + Y, 0.)))
        Q, _ = make_set(cfg['cls'], specs2, Ys, ob)
        pQ = both(Q)
        R = P + Q
        got = act(R, vals, nrows, n)
        ensure_each(w, '(P+Q)(feed) = all reactions of P and Q in parallel (Q in the other basis)', got,
                    parallel_of([build(s, X, basis) for s, X in zip(specs, Xs)] + [build(s, Y, ob) for s, Y in zip(specs2, Ys)], vals, basis, nrows, n))
        w.ensure('P+Q keeps the basis of P', R._basis == basis)
        w.ensure('Q unchanged', unchanged(w, pQ, Q))
        w.ensure('P+Q shares no storage with Q', disjoint(R, Q))
        w.canary('canary: (P+Q)(feed) = P(feed)', w.eq(got[jS], ref[jS]))
    elif op == 'add':
        specs2 = set_specs(w, n, ph, names='efg', ridx=(0, 1, 0))
        Ys = [w.real(f'Y{t}') for t in range(3)]
        for X, Y in zip(Xs, Ys): w.assume(w.Or(w.eq(Y, 0.), w.ne(X + Y, 0.)))
        Q, _ = make_set(cfg['cls'], specs2, Ys, basis)
        R = P + Q
        got = act(R, vals, nrows, n)
        ensure_each(w, '(P+Q)(feed) = all reactions of P and Q in parallel (conversions of P changed before)', got,
                    parallel_of([build(s, X, basis) for s, X in zip(specs, Xs)] + [build(s, Y, basis) for s, Y in zip(specs2, Ys)], vals, basis, nrows, n))
        w.canary('canary: (P+Q)(feed) = P(feed)', w.eq(got[jS], ref[jS]))
    else:
        w.assume(w.Or(w.eq(Xs[2], 0.), w.ne(Xs[0] + Xs[2], 0.)))
        R = P.reduce()
        if op == 'reduce;reduce':
            first = R
            pfirst = both(first)
            again = P.reduce()                         # the same set reduced a second time
            R = first.reduce()                         # and the reduced set reduced again
            w.ensure('first reduction unchanged by later ones', unchanged(w, pfirst, first))
            ensure_each(w, 'the set reduced a second time acts like the set', act(again, vals, nrows, n), ref)
            w.ensure('reductions share no storage', w.And(disjoint(again, first), disjoint(R, first), disjoint(again, P)))
        got = act(R, vals, nrows, n)
        ensure_each(w, 'reduced set acts like the set', got, ref)
        w.ensure('reduced set has one reaction per reactant', w.And(len(R._stoichiometry) == 2, sorted(R.reactants) == sorted(set(P.reactants))))
        w.ensure('reduced set keeps the basis', R._basis == basis)
        w.canary('canary: reduced set does nothing', w.eq(got[jS], vals[jS]))
    if R is not None:
        w.ensure('result is a new object sharing no storage with the set', w.And(R is not P, disjoint(R, P)))
        R.X[0] = R.X[0] + 1.
    w.ensure('set unchanged', unchanged(w, pP, P))
    ensure_each(w, 'set acts as before', act(P, vals, nrows, n), ref)


# --------------------------------------------------------------------------- the public entry points on every kind of feed

APPLY_OPS = ['add', 'iadd', 'sum-sub', 'mul', 'item+d', 'item', 'reduce', 'P+Q']
APPLY_FEEDS = ['stream', 'multistream', 'sparse', 'ndarray']
APPLY_ENTRIES = ['call', 'force_reaction', 'conversion']


def apply_configs(tier):
    out = []
    for feed in APPLY_FEEDS:
        for basis in ['mol', 'wt']:
            for entry in APPLY_ENTRIES:
                for op in APPLY_OPS:
                    if entry == 'conversion' and op in ('reduce', 'P+Q') and feed != 'sparse': continue   # reaction sets have no conversion(), only _conversion(sparse data)
                    if feed == 'multistream' and basis == 'wt': continue               # mass views of two phases: > 400 paths (path cap)
                    if feed == 'multistream' and entry == 'force_reaction' and op not in ('mul', 'item'): continue   # negligible-value clean-up over 6 entries of a sum: > 600 s
                    if tier == 'quick':
                        # (the mass-flow views of wt-basis streams and the negligible-value clean-up of force_reaction fork per entry:
                        #  measured 12-40 s per configuration for the families left to the thorough tier)
                        keep = {('stream', 'wt', 'call'): ('add', 'sum-sub'),
                                ('stream', 'mol', 'force_reaction'): ('mul',),
                                ('stream', 'mol', 'conversion'): ('add',),
                                ('stream', 'mol', 'call'): ('item+d', 'reduce'),
                                ('multistream', 'mol', 'call'): ('add', 'sum-sub', 'mul', 'iadd'),
                                ('multistream', 'mol', 'conversion'): ('add',),
                                ('sparse', 'mol', 'call'): ('add', 'mul', 'reduce', 'P+Q'),
                                ('sparse', 'mol', 'force_reaction'): ('mul',),
                                ('sparse', 'wt', 'call'): ('sum-sub',),
                                ('ndarray', 'mol', 'call'): ('add', 'sum-sub'),
                                ('ndarray', 'mol', 'conversion'): ('mul', 'item'),
                                ('sparse', 'mol', 'conversion'): ('item', 'add', 'reduce'),
                                ('ndarray', 'mol', 'force_reaction'): ('item',),
                                ('ndarray', 'wt', 'call'): ('item+d',)}
                        if op not in keep.get((feed, basis, entry), ()): continue
                    out.append({'name': f'feed={feed};basis={basis};{entry};op={op}', 'feed': feed, 'basis': basis, 'entry': entry, 'op': op})
    return out


APPLY_FUNCS = [RXN + 'Reaction.__call__', RXN + 'Reaction.force_reaction', RXN + 'Reaction.conversion', RXN + 'Reaction._conversion',
               RXN + 'ParallelReaction._conversion', RXN + 'as_material_array', RXN + 'Reaction.__add__', RXN + 'Reaction.__iadd__',
               RXN + 'Reaction.__sub__', RXN + 'Reaction.__mul__', RXN + 'ParallelReaction.reduce', RXN + 'ParallelReaction.__add__',
               RXN + 'ParallelReaction._reaction', RXN + 'Reaction._reaction', RXN + 'ReactionItem.copy']


@group('C17/gap_apply', configs=apply_configs, functions=APPLY_FUNCS, l0=True)
@guarded
def apply(w, cfg):
    """"applying a + b to any feed gives the same products as applying a and b in parallel" through the public entry
    points (reaction(feed), force_reaction, conversion) on a Stream, a MultiStream (phase-tagged reactions), sparse data
    and a numpy array; both sides go through the same entry point on identical feeds.  Feasible region (products only,
    conversions in [0, 1]) so that the clean-up of infeasible flows (C05) is the identity."""
    W.reset_caches()
    n = 3
    plant_MW(w, n)
    feed, basis, entry, op = cfg['feed'], cfg['basis'], cfg['entry'], cfg['op']
    tagged = feed == 'multistream'
    ph = ('g', 'l') if tagged else ()
    nrows = len(ph)
    rrow = nrows - 1 if nrows else 0
    Xa = w.real('Xa', lo=0., hi=1.)
    Xb = w.real('Xb', lo=0., hi=1.)
    k = w.real('k', lo=0., lo_strict=True)

    def pos(name, ridx=0):
        return {(q, c): w.real(f'{name}.s{q}.{c}', lo=0.) for q in range(max(nrows, 1)) for c in range(n) if (q, c) != (rrow, ridx)}
    sa = rxn_spec(w, 'a', n, ph, fixed=pos('a'))
    sb = rxn_spec(w, 'b', n, ph, fixed=pos('b'))
    flows = [w.real(f'f.{q}', lo=0.) for q in range(max(nrows, 1) * n)]

    def react(rxn):
        """A fresh feed of the configured kind holding `flows`, handed to the configured entry point; dense result."""
        if feed in ('stream', 'multistream'):
            s = tmo.MultiStream(None, phases=ph, thermo=_TH[n]) if tagged else tmo.Stream(None, thermo=_TH[n], phase='l')
            for q, row in enumerate(_rows(s._imol.data)):
                for c in range(n): plant(row, c, flows[q * n + c])
            mat, read = s, lambda: dense(s._imol.data)
        elif feed == 'sparse':
            mat = mk_feed(flows, nrows, n)
            read = lambda: dense(mat)
        else:
            mat = np.array(flows, dtype=object if w.symbolic else float)
            read = lambda: list(mat)
        if entry == 'call': rxn(mat)
        elif entry == 'force_reaction': rxn.force_reaction(mat)
        else:
            # reaction sets have no public conversion(); on sparse data the function it would delegate to is called
            change = rxn.conversion(mat) if hasattr(rxn, 'conversion') else rxn._conversion(mat)
            out = np.ravel(change).tolist() if isinstance(change, np.ndarray) else dense(change)
            return out + read()                 # the change, and the feed (which conversion() must leave alone)
        return read()

    a, b = build(sa, Xa, basis), build(sb, Xb, basis)
    fresh_a = lambda X=Xa: build(sa, X, basis)
    fresh_b = lambda: build(sb, Xb, basis)
    if op in ('add', 'iadd'):
        w.assume(w.And(w.gt(Xa + Xb, 0.), w.le(Xa + Xb, 1.)))
        if op == 'add': c = a + b
        else:
            c = a; c += b
        if entry == 'conversion' and feed != 'sparse':      # in parallel = each from the feed, changes added
            ea, eb = react(fresh_a()), react(fresh_b())
            expected = [x + y for x, y in zip(ea[:len(flows)], eb[:len(flows)])] + ea[len(flows):]
        else:
            expected = react(tmo.ParallelReaction([fresh_a(), fresh_b()]))
        label = '(a+b)(feed) = a and b in parallel'
    elif op == 'sum-sub':
        w.assume(w.And(w.gt(Xa, 0.), w.gt(Xb, 0.), w.le(Xa + Xb, 1.)))
        c = (a + b) - b
        expected = react(fresh_a())
        label = '((a+b)-b)(feed) = a(feed)'
    elif op == 'mul':
        w.assume(w.le(Xa * k, 1.))
        c = k * a
        expected = react(fresh_a(Xa * k))
        label = '(k*a)(feed) = a with its conversion multiplied by k (feed)'
    else:
        se = rxn_spec(w, 'e', n, ph, ridx=1, fixed=pos('e', 1))
        Xe = w.real('Xe', lo=0., hi=1.)
        w.assume(w.And(w.gt(Xa + Xb, 0.), w.le(Xa + Xb, 1.)))
        mk = lambda: tmo.ParallelReaction([fresh_a(), build(se, Xe, basis), fresh_b()])
        P = mk()
        if op == 'item':
            c = P[2]
            expected = react(fresh_b())
            label = 'an item of a set acts like the reaction it stands for'
        elif op == 'item+d':
            c = P[2] + a
            if entry == 'conversion' and feed != 'sparse':
                ea, eb = react(fresh_a()), react(fresh_b())
                expected = [x + y for x, y in zip(ea[:len(flows)], eb[:len(flows)])] + ea[len(flows):]
            else:
                expected = react(tmo.ParallelReaction([fresh_b(), fresh_a()]))
            label = '(a+b)(feed) = a and b in parallel (a an item of a set)'
        elif op == 'reduce':
            c = P.reduce()
            expected = react(mk())
            label = 'reduced set acts like the set'
        else:
            Q = tmo.ParallelReaction([fresh_b(), build(se, Xe, basis), fresh_a()])
            w.assume(w.And(w.gt(Xe, 0.), w.le(Xe + Xe, 1.), w.le(2. * (Xa + Xb), 1.)))
            c = P + Q
            expected = react(tmo.ParallelReaction([fresh_a(), build(se, Xe, basis), fresh_b(), fresh_b(), build(se, Xe, basis), fresh_a()]))
            label = '(P+Q)(feed) = all reactions of P and Q in parallel'
    got = react(c)
    ensure_each(w, label, got, expected)
    if entry == 'conversion':
        w.ensure('conversion() leaves the feed alone', w.all_eq(got[len(flows):], flows))
        w.canary('canary: no change', w.eq(got[rrow * n + 1], 0.))
    else:
        w.canary('canary: feed unchanged', w.eq(got[rrow * n + 1], flows[rrow * n + 1]))


# --------------------------------------------------------------------------- operands outside the quantifier: frame only

def incompatible_configs(tier):
    out = []
    for why in ['other-phases', 'other-chemicals', 'phases-vs-none']:
        for op in ['add', 'sub', 'iadd', 'isub', 'radd']:
            for basis in ['mol+mol', 'mol+wt']:
                if tier == 'quick' and basis == 'mol+wt' and op not in ('iadd', 'isub'): continue
                if tier == 'quick' and why == 'phases-vs-none' and op in ('sub', 'radd'): continue
                out.append({'name': f'{why};basis={basis};op={op}', 'why': why, 'op': op, 'bases': basis})
    return out


@group('C17/gap_incompatible', configs=incompatible_configs, l0=True,
       functions=[RXN + 'Reaction._math_compatible_reaction', RXN + 'Reaction.__add__', RXN + 'Reaction.__sub__', RXN + 'Reaction.__iadd__',
                  RXN + 'Reaction.__isub__', RXN + 'Reaction.__radd__', RXN + 'Reaction.copy', RXN + 'set_reaction_basis'])
@guarded
def incompatible(w, cfg):
    """Reactions over other phases or another chemicals object do not share a reactant in the sense of the property; the
    operators may refuse them (ValueError, the only exception allowed).  Whatever the outcome, combining leaves both
    operands unchanged - also the in-place forms when they refuse, also when the second operand had to be re-based for
    the comparison.  (What a refused in-place form leaves behind is the receiver's old definition.)"""
    W.reset_caches()
    n = 3
    plant_MW(w, n)
    why, op = cfg['why'], cfg['op']
    ba, bb = cfg['bases'].split('+')
    ph_a = ('g', 'l') if why != 'other-chemicals' else ()
    ph_b = {'other-phases': ('l', 's'), 'other-chemicals': (), 'phases-vs-none': ()}[why]
    Xa, Xb = w.real('Xa'), w.real('Xb')
    # other-chemicals: the reactant is the chemical that has the same position in both orders (the position check cannot help)
    ridx = 2 if why == 'other-chemicals' else 0
    sa = rxn_spec(w, 'a', n, ph_a, ridx=ridx)
    sb = rxn_spec(w, 'b', n, ph_b, ridx=ridx)
    a = build(sa, Xa, ba)
    if why == 'other-chemicals':
        ch = other_chems(w, n)
        b = tmo.Reaction({IDS[ridx]: -1., IDS[0]: 1.}, reactant=IDS[ridx], X=Xb, chemicals=ch, basis=bb)
        for pos, c in enumerate(PERM): plant(b._stoichiometry, pos, sb['coef'][0, c])      # the same reaction b, written in the other order
    else:
        b = build(sb, Xb, bb)
    pa, pb = both(a), both(b)
    raised = None
    res = None
    # requires of the sums / differences themselves (they divide by the new conversion), should the operation go ahead
    if op in ('sub', 'isub'): w.assume(w.Or(w.eq(Xb, 0.), w.ne(Xa - Xb, 0.)))
    else: w.assume(w.And(w.Or(w.eq(Xb, 0.), w.ne(Xa + Xb, 0.)), w.Or(w.eq(Xa, 0.), w.ne(Xa + Xb, 0.))))
    try:
        if op == 'add': res = a + b
        elif op == 'radd': res = b.__radd__(a)
        elif op == 'sub': res = a - b
        elif op == 'iadd': a += b
        else: a -= b
    except ValueError as e:
        raised = str(e)
    if op in ('iadd', 'isub'):
        w.ensure('a refused in-place form leaves the receiver unchanged', w.Or(raised is None, unchanged(w, pa, a)))
    else:
        w.ensure('first operand unchanged', unchanged(w, pa, a))
    w.ensure('second operand unchanged', unchanged(w, pb, b))
    if res is not None:
        w.ensure('a result is a new object sharing no storage with the operands', w.And(res is not a, res is not b, disjoint(res, a), disjoint(res, b)))
    if why == 'other-chemicals' and raised is None and op in ('add', 'radd', 'iadd'):
        # a and b do share a reactant (by name): IF the sum is formed it must act like a and b in parallel, chemical by chemical
        vals = feed_leaves(w, 0, n)
        c = a if op == 'iadd' else res
        in_other = c.chemicals is ch
        got = act(c, permute(vals, n) if in_other else vals, 0, n)
        if in_other: got = permute(got, n, to_other=False)
        if c._basis != ba: got = None
        expected = parallel_of([build(sa, Xa, ba), build(sb, Xb, bb)], vals, ba, 0, n)
        if got is not None:
            ensure_each(w, 'if a sum is formed: (a+b)(feed) = a and b in parallel, chemical by chemical', got, expected)
    w.note(outcome=raised or 'returned')
    w.canary('canary: such operands are never refused', raised is None)
