# -*- coding: utf-8 -*-
"""
C20 -- separation helper functions close the material balance and meet their targets.

Contracts (sidecar) on the real functions of thermosteam/separations.py (imported from the tree under check and
executed).  Every `ensures` is a sentence of the property:

  * material balance: per chemical (matched by CAS over the whole dense image, all phases) the sum of the outlet
    streams after the call equals the sum of the inlet streams read before the call -- outlets start with ARBITRARY
    PRIOR CONTENTS (symbolic), so a helper that accumulates instead of overwriting, or leaves an outlet stale, fails;
  * no negative flow on normal return; InfeasibleRegion is the allowed alternative, and only when the request is
    infeasible (strict);
  * targets: split * mixed feed = top; requested moisture fraction reached; outlet i = phase i; top/bottom flow
    ratios reproduce K up to one common factor; chemical_splits * mixed = a; material_balance: inlets - outlets = 0
    on the chosen chemicals, variable inlets are *scaled* (composition kept);
  * frame: inlets, constant streams, the feed and every argument array are unchanged.

Dependencies replaced by their assumed contracts (DESIGN 2.6), by assignment into the namespace of
`thermosteam.separations` for the duration of one body (never by editing a file):

  * `compute_phase_fraction` (Rachford-Rice solver, flexsolve) -> an arbitrary real phi (fresh leaf): the balance
    and the K-ratio clause are proved for ANY solver output, in all three regimes phi<=0, 0<phi<1, phi>=1;
  * `np.linalg.solve` -> A-linsolve: fresh leaves x with A x = b assumed;
  * `stream.vle` / `stream.lle` (the equilibrium objects) -> their C03 contract: the phase rows of the work stream
    are replaced by arbitrary non-negative flows with the same per-chemical totals (and arbitrary T for vle);
  * energy side (mix_and_split, the wrappers): havoc'ed -- every mixture enthalpy / molar volume evaluation is a fresh
    real, every temperature solve a fresh positive real (a superset of A-models + A-root; the enthalpy balance is C02's).

`C20/real_solvers` (mode B, never counted as proved) runs partition / vle / lle on the real solvers for a small grid.

Findings on the unchanged tree (all reproduced natively, scripts and patches under .scratch/C20/): F1 lenient moisture
adjustment creates water; F2 infeasible flow at index 0 not reported; F3 partition leaves `bottom` stale; F4
material_balance crashes without constant outlets; F5 moisture outside the liquid phase of a multi-phase retentate.
"""
import os
import sys
import warnings
import numpy as np
import thermosteam as tmo
from thermosteam.exceptions import InfeasibleRegion
from engine.api import group
from engine.sx import tmo_world as W

# nonlinear VCs (rational functions of phi and K): a fresh one-shot solver per clause first (engine opt-in, see sym.Ctx.prove)
os.environ.setdefault('VERIF_PROVE_FRESH_MS', '5000')
# branch feasibility of the clipping tests (bottom_k < 0, bottom_k > feed_k): settle `unknown` with a fresh nlsat solver
os.environ.setdefault('VERIF_BRANCH_NLSAT_MS', '3000')

sep = sys.modules['thermosteam.separations']

WATER = '7732-18-5'
P2 = ('Water', 'Ethanol')
P3 = ('Water', 'Ethanol', 'Octane')
Q3 = ('Octane', 'Water', 'Ethanol')            # same chemicals, other order (another package object)
Q2 = ('Ethanol', 'Water')                       # subset of P3, other order
P4 = ('Water', 'Ethanol', 'Octane', 'Methanol')
Q4 = ('Methanol', 'Octane', 'Water', 'Ethanol')  # reordered superset of P3
PKG = {'P2': P2, 'P3': P3, 'Q3': Q3, 'Q2': Q2, 'P4': P4, 'Q4': Q4}
W.preload(list(PKG.values()))

KINDS = {'l': 'l', 'g': 'g', 's': 's', 'gl': ('g', 'l'), 'ls': ('l', 's'), 'Ll': ('L', 'l'), 'gls': ('g', 'l', 's')}


def _rows(kind):
    ph = KINDS[kind]
    return (ph,) if isinstance(ph, str) else ph


def _present(pkg, kind, mode):
    """Presence pattern of planted flows (each 'maybe' entry is one 2-way fork)."""
    IDs = PKG[pkg]
    if mode == 'all-maybe':
        return None
    p = {'default': 'zero'}
    for n, ph in enumerate(_rows(kind)):
        if mode == 'all-pos':
            for ID in IDs: p[ph, ID] = 'pos'
        elif mode == 'pos+maybe':
            p[ph, IDs[0]] = 'pos'
            p[ph, IDs[-1]] = 'maybe'
        elif mode == 'two-maybe':
            p[ph, IDs[0]] = 'maybe'
            p[ph, IDs[-1]] = 'maybe'
        elif mode == 'pos':
            p[ph, IDs[n % len(IDs)]] = 'pos'
        elif mode == 'maybe':
            p[ph, IDs[n % len(IDs)]] = 'maybe'
        elif mode == 'empty':
            pass
        else:
            raise ValueError(mode)
    return p


# Readers of the dense image.  They go through `dct.get(i, 0.)` for every position, which observes the value without
# asking "is it stored" -- no presence fork on the contract level of the kernels (l0 groups), same values on the real ones.

def _dense(sv):
    return [sv.dct.get(i, 0.) for i in range(sv.size)]


def _tot(s):
    """{CAS: total molar flow over the phases}."""
    CASs = s.chemicals.CASs
    out = {c: 0. for c in CASs}
    for ph, sv in W.rows_of(s):
        for c, v in zip(CASs, _dense(sv)):
            out[c] = out[c] + v
    return out


def _row(s, phase):
    CASs = s.chemicals.CASs
    out = {c: 0. for c in CASs}
    for ph, sv in W.rows_of(s):
        if ph == phase:
            for c, v in zip(CASs, _dense(sv)):
                out[c] = out[c] + v
    return out


def _nonneg(w, *streams):
    cs = []
    for s in streams:
        for ph, sv in W.rows_of(s):
            for v in _dense(sv):
                if not (v.__class__ in (int, float) and v == 0): cs.append(w.ge(v, 0.))
    return w.And(*cs)


def _lt(w, a, b, role):
    """a < b.  Symbolic: exact.  Native (floats): as an antecedent ('pre') it must hold by more than rounding, as a
    consequent ('post') it may fail by rounding only -- the boundary a == b of a model is not reproducible in floats."""
    if w.symbolic:
        return w.lt(a, b)
    a, b = float(a), float(b)
    tol = 1e-9 + 1e-7 * max(abs(a), abs(b))
    return a < b - tol if role == 'pre' else a < b + tol


def _rep_ok(w, *streams):
    """Stored entries are non-zero (symbolic: for all values; native: exactly, a stored 1e-17 is not a stored zero)."""
    if w.symbolic:
        return w.And(*[W.rep_ok(w, s) for s in streams])
    return all(v != 0 and 0 <= i < sv.size for s in streams for _, sv in W.rows_of(s) for i, v in sv.dct.items())


def _state(s):
    """Material state (class, phases, every entry of every row) plus T and P."""
    rows = W.rows_of(s)
    return (type(s).__name__, tuple(ph for ph, _ in rows), [_dense(sv) for _, sv in rows]), s.T, s.P


def _same_state(w, st, s):
    (cls, phases, rows), T, P = st
    (cls2, phases2, rows2), T2, P2 = _state(s)
    if cls != cls2 or phases != phases2:
        return w.And(False)
    return w.And(w.eq(T2, T), w.eq(P2, P), *[w.eq(a, b) for r, r2 in zip(rows, rows2) for a, b in zip(r, r2)])


def _arr(w, vals):
    return np.array(list(vals), dtype=object if w.symbolic else float)


class _Stubs:
    """
    Stub packages per path, one per package name.  The material clauses of C20 must hold whatever the energy side
    does, so the energy models are *havoc'ed* (a superset of A-models + A-root, and much cheaper for the solver than
    uninterpreted models with a root assumption): every evaluation of the molar enthalpy of a mixture returns a fresh
    real (molar volume: a fresh positive real), every temperature solve returns a fresh positive real.  The enthalpy
    balance itself is C02's business.
    """
    def __init__(self, w): self.w = w; self.d = {}; self.n = 0

    def __call__(self, pkg):
        if pkg not in self.d:
            th = W.stub_thermo(self.w, PKG[pkg])
            stubs, w = self, self.w
            base = type(th.mixture)

            def fresh(kind, **kw):
                stubs.n += 1
                return w.real(f'havoc{stubs.n}.{kind}', **kw)

            def H(self, phase, mol, T, P):
                return fresh('h')

            def xH(self, phase_mol, T, P):
                tuple(phase_mol)
                return fresh('xh')

            def V(self, phase, mol, T, P):
                return fresh('v', lo=0., lo_strict=True)

            def solve_T_at_HP(self, phase, mol, H, T_guess, P):
                return fresh('T_at_HP', lo=0., lo_strict=True)

            def xsolve_T_at_HP(self, phase_mol, H, T_guess, P):
                tuple(phase_mol)
                return fresh('xT_at_HP', lo=0., lo_strict=True)

            th.mixture.__class__ = type('HavocEnergyMixture', (base,), {
                '__slots__': (), 'H': H, 'xH': xH, 'V': V, 'solve_T_at_HP': solve_T_at_HP, 'xsolve_T_at_HP': xsolve_T_at_HP})
            self.d[pkg] = th
        return self.d[pkg]


# --------------------------------------------------------------------------- mix_and_split

def mas_configs(tier):
    quick = tier == 'quick'
    I = lambda kind, pkg='P3', mode='two-maybe': [kind, pkg, mode]
    fams = [  # (inlets, top kind, bottom package)
        ([I('l')], 'l', 'P3'),
        ([I('l'), I('g', 'Q2')], 'l', 'P3'),
        ([I('l'), I('l', 'Q3', 'pos+maybe')], 'l', 'Q4'),
        ([I('TOP'), I('l', 'Q2')], 'l', 'P3'),
        ([I('l', mode='empty'), I('g', 'Q2', 'maybe')], 'l', 'P3'),
        ([I('gl', mode='maybe'), I('l', 'Q2', 'pos')], 'l', 'P3'),
        ([], 'l', 'P3'),
    ]
    if not quick:
        fams += [
            ([I('l'), I('g', 'Q2'), I('s', 'Q3')], 'l', 'P3'),
            ([I('l', mode='all-maybe')], 'l', 'Q4'),
            ([I('TOP'), I('TOP')], 'l', 'P3'),
            ([I('l'), I('l', 'Q3')], 'gl', 'P3'),
            ([I('gl'), I('g', 'Q2')], 'gl', 'P3'),
            ([I('TOP'), I('l', 'Q2', 'pos')], 'gl', 'P3'),
            ([I('l', mode='maybe'), I('g', 'Q2', 'maybe'), I('l', 'Q3', 'maybe')], 'g', 'Q4'),
        ]
    out = []
    for inlets, top, bpkg in fams:
        for split in ['scalar', 'vector']:
            nm = 'in=' + '+'.join(f'{k}{p}:{m}' for k, p, m in inlets) + f';top={top};bottom={bpkg};split={split}'
            out.append({'name': nm, 'inlets': inlets, 'top': top, 'bpkg': bpkg, 'split': split})
    return out


def _split_leaves(w, cfg, top):
    """Split as the user passes it (scalar or array in the order of top's package) and {CAS: fraction}."""
    if cfg['split'] == 'scalar':
        x = w.real('split', lo=0, hi=1)
        return x, {cas: x for cas in top.chemicals.CASs}
    vals = [w.real(f'split.{ID}', lo=0, hi=1) for ID in top.chemicals.IDs]
    return _arr(w, vals), dict(zip(top.chemicals.CASs, vals))


def _inlet_world(w, cfg, th, top_pkg='P3'):
    """top (prior contents), bottom (prior contents), inlets [(stream, frame state or None)]."""
    tk = cfg['top']
    top, _ = W.stream_on(w, 'top', th(top_pkg), KINDS[tk], present=_present(top_pkg, tk, 'pos+maybe' if any(
        i[0] == 'TOP' for i in cfg['inlets']) else 'pos'))
    bottom, _ = W.stream_on(w, 'bot', th(cfg['bpkg']), 'l', present=_present(cfg['bpkg'], 'l', 'pos'))
    inlets = []
    for n, (k, p, m) in enumerate(cfg['inlets']):
        if k == 'TOP':
            inlets.append((top, None))
        else:
            s, _ = W.stream_on(w, f'i{n}', th(p), KINDS[k], present=_present(p, k, m))
            inlets.append((s, _state(s)))
    return top, bottom, inlets


def _sum_inlets(top, inlets):
    expected = {c: 0. for c in top.chemicals.CASs}
    for s, _ in inlets:
        for cas, v in _tot(s).items():
            expected[cas] = expected[cas] + v
    return expected


@group('C20/mix_and_split', configs=mas_configs,
       functions=['thermosteam.separations:mix_and_split', 'thermosteam._stream:Stream.mix_from',
                  'thermosteam._stream:Stream.split_to', 'thermosteam._multi_stream:MultiStream.split_to'],
       assumptions=['A-models', 'A-root'])
def mix_and_split(w, cfg):
    """top = split * (sum of inlets), bottom = the rest; prior contents of both outlets are overwritten."""
    W.reset_caches()
    th = _Stubs(w)
    top, bottom, inlets = _inlet_world(w, cfg, th)
    split, xs = _split_leaves(w, cfg, top)
    split0 = split.copy() if cfg['split'] == 'vector' else split
    expected = _sum_inlets(top, inlets)
    sep.mix_and_split([s for s, _ in inlets], top, bottom, split)
    t, b = _tot(top), _tot(bottom)
    for cas in top.chemicals.CASs:
        w.ensure(f'top[{cas}] + bottom[{cas}] = sum of inlets', w.eq(t[cas] + b.get(cas, 0.), expected[cas]))
        w.ensure(f'top[{cas}] = split * mixed feed', w.eq(t[cas], xs[cas] * expected[cas]))
    for cas in b:
        if cas not in t:
            w.ensure(f'bottom[{cas}] = 0 (chemical not in the feed)', w.eq(b[cas], 0.))
    w.ensure('no negative flows', _nonneg(w, top, bottom))
    w.ensure('outlets rep_ok', _rep_ok(w, top, bottom))
    for n, (s, st) in enumerate(inlets):
        if st is not None:
            w.ensure(f'inlet {n} unchanged (flows, phases, T, P)', _same_state(w, st, s))
    if cfg['split'] == 'vector':
        w.ensure('split array unchanged', w.all_eq(list(split), list(split0)))
    c0 = top.chemicals.CASs[0]
    w.canary('canary: top + bottom = sum of inlets + 1', w.eq(t[c0] + b.get(c0, 0.), expected[c0] + 1))
    w.note(expected=expected, top=t, bottom=b)


# --------------------------------------------------------------------------- adjust_moisture_content

def amc_configs(tier):
    quick = tier == 'quick'
    out = []
    fams = [('l', 'P2', None), ('l', 'P3', None), ('l', 'P2', 'Water'), ('l', 'P3', 'Ethanol'), ('ls', 'P2', None)]
    if not quick:
        fams += [('l', 'Q3', None), ('l', 'Q3', 'Octane'), ('ls', 'P3', None), ('ls', 'P2', 'Water'), ('gl', 'P2', None)]
    for kind, pkg, ID in fams:
        for strict in [None, False] + ([] if quick else [True]):
            out.append({'name': f'streams={kind};pkg={pkg};ID={ID};strict={strict}', 'kind': kind, 'pkg': pkg, 'ID': ID,
                        'strict': strict})
    # multi-phase retentate that also holds moisture outside its liquid phase (the helper writes the 'l' row only)
    for kind, pkg, ID in [('gl', 'P2', None)] + ([] if quick else [('ls', 'P2', 'Water')]):
        out.append({'name': f'streams={kind};pkg={pkg};ID={ID};strict=None;moisture-in-any-phase', 'kind': kind, 'pkg': pkg,
                    'ID': ID, 'strict': None, 'anyphase': True})
    return out


def _moisture_present(pkg, kind, ID, who, anyphase=False):
    """Moisture only in the liquid phase (the phase the helper writes) unless `anyphase`; other chemicals anywhere."""
    IDs = PKG[pkg]
    mID = ID or 'Water'
    p = {'default': 'zero'}
    rows = _rows(kind)
    for ph in rows:
        for k in IDs:
            if k == mID:
                if ph == 'l' or (anyphase and who == 'ret'): p[ph, k] = 'maybe'
            elif k == [i for i in IDs if i != mID][0]:
                p[ph, k] = 'pos' if (who == 'ret' and ph == rows[-1]) else ('maybe' if ph == rows[-1] else 'zero')
            elif who == 'ret' and ph == 'l':
                p[ph, k] = 'maybe'
    return p


def _mass(s):
    """{CAS: mass flow} and the total, from the raw molar rows and the package's molecular weights."""
    MW = dict(zip(s.chemicals.CASs, [float(i) for i in s.chemicals.MW]))
    t = _tot(s)
    m = {c: MW[c] * t[c] for c in t}
    tot = 0.
    for c in m: tot = tot + m[c]
    return m, tot


def _moisture_clauses(w, cfg, ret, perm, pre, call, prefix=''):
    """
    Shared by adjust_moisture_content and mix_and_split_with_moisture_content.
    pre = {CAS: total of retentate + permeate before the adjustment}, call() runs the helper.
    """
    mc = cfg['_mc']
    mcas = W.chemical(cfg['ID'] or 'Water').CAS
    strict = cfg['strict']
    pre_ret, pre_perm = cfg['_pre_ret'], cfg['_pre_perm']
    MWm = float(ret.chemicals[cfg['ID'] or 'Water'].MW)
    dry = 0.
    for c, v in pre_ret.items():
        if c != mcas: dry = dry + float(dict(zip(ret.chemicals.CASs, ret.chemicals.MW))[c]) * v
    # moisture (mol) the retentate needs for the requested fraction, and what is available in both streams
    need = dry * mc / (1 - mc) / MWm
    avail = pre_ret[mcas] + pre_perm.get(mcas, 0.)
    try:
        call()
    except InfeasibleRegion:
        w.ensure(prefix + 'InfeasibleRegion only when strict and the moisture available is insufficient',
                 w.And(strict is not False, _lt(w, avail, need, 'post')))
        w.canary(prefix + 'canary: InfeasibleRegion with sufficient moisture', w.ge(avail, need))
        return
    r, p = _tot(ret), _tot(perm)
    for cas in r:
        w.ensure(prefix + f'retentate[{cas}] + permeate[{cas}] conserved', w.eq(r[cas] + p.get(cas, 0.), pre[cas]))
        if cas != mcas:
            w.ensure(prefix + f'other chemical [{cas}] stays where it was',
                     w.And(w.eq(r[cas], pre_ret[cas]), w.eq(p.get(cas, 0.), pre_perm.get(cas, 0.))))
    w.ensure(prefix + 'no negative flows on normal return', _nonneg(w, ret, perm))
    m, tot = _mass(ret)
    w.ensure(prefix + 'requested moisture fraction reached when enough moisture is available',
             w.Implies(w.ge(avail, need), w.eq(m[mcas], mc * tot)))
    w.ensure(prefix + 'normal return with insufficient moisture only when not strict',
             w.Implies(_lt(w, avail, need, 'pre'), strict is False))
    w.canary(prefix + 'canary: moisture fraction = requested + 0.01', w.eq(m[mcas], (mc + 0.01) * tot))
    w.note(need=need, avail=avail, ret=r, perm=p)


@group('C20/adjust_moisture_content', configs=amc_configs,
       functions=['thermosteam.separations:adjust_moisture_content'])
def adjust_moisture_content(w, cfg):
    """Moves moisture between permeate and retentate: balance closed, requested fraction reached, rest untouched."""
    W.reset_caches()
    cfg = dict(cfg)
    kind, pkg, ID = cfg['kind'], cfg['pkg'], cfg['ID']
    ret, _ = W.make_stream(w, 'ret', PKG[pkg], KINDS[kind], present=_moisture_present(pkg, kind, ID, 'ret', cfg.get('anyphase', False)))
    perm, _ = W.make_stream(w, 'perm', PKG[pkg], KINDS[kind], present=_moisture_present(pkg, kind, ID, 'perm'))
    cfg['_mc'] = mc = w.real('moisture_content', lo=0, hi=0.95, lo_strict=True, hi_strict=True)
    cfg['_pre_ret'], cfg['_pre_perm'] = _tot(ret), _tot(perm)
    pre = {c: cfg['_pre_ret'][c] + cfg['_pre_perm'][c] for c in cfg['_pre_ret']}
    kw = {} if cfg['strict'] is None else {'strict': cfg['strict']}
    _moisture_clauses(w, cfg, ret, perm, pre,
                      lambda: sep.adjust_moisture_content(ret, perm, mc, ID, **kw))


# --------------------------------------------------------------------------- mix_and_split_with_moisture_content

def masm_configs(tier):
    quick = tier == 'quick'
    I = lambda kind, pkg='P2', mode='two-maybe': [kind, pkg, mode]
    fams = [([I('l', mode='all-pos')], 'P2', None), ([I('l'), I('l', 'Q2', 'pos')], 'P2', None)]
    if not quick:
        fams += [([I('l', 'P3', 'all-maybe')], 'P3', None), ([I('l', mode='all-pos'), I('l', 'Q2', 'maybe')], 'P2', 'Water'),
                 ([I('l', 'P3', 'all-pos')], 'P3', 'Ethanol')]
    out = []
    for inlets, pkg, ID in fams:
        for split in ['scalar', 'vector']:
            for strict in [None, False]:
                nm = 'in=' + '+'.join(f'{k}{p}:{m}' for k, p, m in inlets) + f';pkg={pkg};ID={ID};split={split};strict={strict}'
                out.append({'name': nm, 'inlets': inlets, 'pkg': pkg, 'ID': ID, 'split': split, 'strict': strict,
                            'top': 'l', 'bpkg': pkg})
    return out


@group('C20/mix_and_split_with_moisture_content', configs=masm_configs,
       functions=['thermosteam.separations:mix_and_split_with_moisture_content', 'thermosteam.separations:mix_and_split',
                  'thermosteam.separations:adjust_moisture_content'],
       assumptions=['A-models', 'A-root'])
def mix_and_split_with_moisture_content(w, cfg):
    """Retentate + permeate = sum of inlets, other chemicals follow the split, moisture fraction as requested."""
    W.reset_caches()
    cfg = dict(cfg)
    th = _Stubs(w)
    ret, perm, inlets = _inlet_world(w, cfg, th, top_pkg=cfg['pkg'])
    split, xs = _split_leaves(w, cfg, ret)
    expected = _sum_inlets(ret, inlets)
    cfg['_mc'] = mc = w.real('moisture_content', lo=0, hi=0.95, lo_strict=True, hi_strict=True)
    # state between the two steps, by the statement of mix_and_split (checked in its own group)
    cfg['_pre_ret'] = {c: xs[c] * expected[c] for c in expected}
    cfg['_pre_perm'] = {c: expected[c] - xs[c] * expected[c] for c in expected}
    kw = {} if cfg['strict'] is None else {'strict': cfg['strict']}
    _moisture_clauses(w, cfg, ret, perm, expected,
                      lambda: sep.mix_and_split_with_moisture_content([s for s, _ in inlets], ret, perm, split, mc,
                                                                      cfg['ID'], **kw))
    for n, (s, st) in enumerate(inlets):
        w.ensure(f'inlet {n} unchanged (flows, phases, T, P)', _same_state(w, st, s))


# --------------------------------------------------------------------------- phase_split

def ps_configs(tier):
    quick = tier == 'quick'
    fams = [('gl', 'P3', ['P3', 'P3'], 'two-maybe'), ('gl', 'P3', ['Q4', 'P3'], 'two-maybe'), ('Ll', 'P3', ['P3', 'Q4'], 'pos+maybe'),
            ('gls', 'P2', ['P2', 'P2', 'P2'], 'maybe'), ('l', 'P3', ['P3'], 'two-maybe'),
            ('gl', 'P3', ['P3'], 'pos'), ('gl', 'P3', ['P3', 'P3', 'P3'], 'pos'), ('l', 'P3', ['P3', 'P3'], 'pos')]
    if not quick:
        fams += [('gl', 'P3', ['P3', 'P3'], 'all-maybe'), ('gls', 'P3', ['P3', 'Q4', 'Q3'], 'two-maybe'), ('ls', 'Q3', ['Q4', 'Q4'], 'two-maybe'),
                 ('g', 'Q3', ['Q4'], 'all-maybe'), ('gls', 'P2', ['P2', 'P2'], 'pos')]
    return [{'name': f'feed={k}{p}:{m};outlets=' + '+'.join(o), 'feed': k, 'pkg': p, 'outs': o, 'mode': m}
            for k, p, o, m in fams]


@group('C20/phase_split', configs=ps_configs,
       functions=['thermosteam.separations:phase_split', 'thermosteam._stream:Stream.copy_like',
                  'thermosteam._multi_stream:MultiStream.__getitem__', 'thermosteam._multi_stream:MultiStream.__iter__'])
def phase_split(w, cfg):
    """Outlet i receives phase i of the feed (and nothing else); the feed is unchanged."""
    W.reset_caches()
    kind = cfg['feed']
    feed, _ = W.make_stream(w, 'feed', PKG[cfg['pkg']], KINDS[kind], present=_present(cfg['pkg'], kind, cfg['mode']))
    feed.T = w.real('feed.T', lo=0, lo_strict=True)
    outs = []
    for n, p in enumerate(cfg['outs']):
        o, _ = W.make_stream(w, f'o{n}', PKG[p], 'l' if n % 2 else 'g', present=_present(p, 'l' if n % 2 else 'g', 'pos'))
        outs.append(o)
    pre = _state(feed)
    pre_outs = [_state(o) for o in outs]
    phases = _rows(kind)
    rows = {ph: _row(feed, ph) for ph in phases}
    try:
        sep.phase_split(feed, outs)
    except RuntimeError:
        w.ensure('RuntimeError only when the number of outlets differs from the number of phases', len(outs) != len(phases))
        w.ensure('nothing changed when the call is refused',
                 w.And(_same_state(w, pre, feed), *[_same_state(w, st, o) for st, o in zip(pre_outs, outs)]))
        w.canary('canary: refused call emptied outlet 0', w.eq(_tot(outs[0])[WATER], 0.))
        return
    w.ensure('normal return only with one outlet per phase', len(outs) == len(phases))
    w.ensure('feed unchanged (flows, phases, T, P)', _same_state(w, pre, feed))
    total = {c: 0. for c in feed.chemicals.CASs}
    for n, (ph, o) in enumerate(zip(phases, outs)):
        got = _tot(o)
        for cas, v in got.items():
            w.ensure(f'outlet {n}[{cas}] = feed[{ph},{cas}]', w.eq(v, rows[ph].get(cas, 0.)))
            if cas in total: total[cas] = total[cas] + v
        w.ensure(f'outlet {n} is a single-phase stream in phase {ph}', (not isinstance(o, tmo.MultiStream)) and o.phase == ph)
        w.ensure(f'outlet {n} rep_ok, no negative flows', w.And(_rep_ok(w, o), _nonneg(w, o)))
    ft = _tot(feed)
    for cas in total:
        w.ensure(f'sum of outlets[{cas}] = feed', w.eq(total[cas], ft[cas]))
    c0 = feed.chemicals.CASs[0]
    w.canary('canary: outlet 0 = feed phase 0 + 1', w.eq(_tot(outs[0])[c0], rows[phases[0]][c0] + 1))


# --------------------------------------------------------------------------- dependency stubs (assumed contracts)

class _rebound:
    """Assign names in the namespace of thermosteam.separations for the duration of a body; always restored."""
    def __init__(self, **names): self.names = names; self.saved = {}
    def __enter__(self):
        for k, v in self.names.items():
            self.saved[k] = sep.__dict__[k]
            sep.__dict__[k] = v
        return self
    def __exit__(self, *exc):
        for k, v in self.saved.items(): sep.__dict__[k] = v
        return False


def _phi_stub(w, calls):
    """`compute_phase_fraction` -> any real number (fresh leaf); its array arguments are recorded for the frame."""
    def compute_phase_fraction(zs, Ks, guess=None, za=0., zb=0.):
        phi = w.real(f'phi{len(calls)}')
        calls.append({'zs': list(zs), 'Ks': list(Ks), 'guess': guess, 'za': za, 'zb': zb, 'phi': phi})
        return phi
    return compute_phase_fraction


class _Reports:
    """Collects the RuntimeWarnings a helper issues (the non-strict way of reporting infeasibility)."""
    def __enter__(self):
        self.cm = warnings.catch_warnings(record=True)
        self.log = self.cm.__enter__()
        warnings.simplefilter('always')
        return self
    def __exit__(self, *exc):
        self.cm.__exit__(*exc)
        return False
    @property
    def n(self): return sum(1 for i in self.log if issubclass(i.category, RuntimeWarning))


# --------------------------------------------------------------------------- handle_infeasible_flow_rates / check_partition_infeasibility

def hif_configs(tier):
    out = []
    for n in ([1, 2, 3] if tier == 'quick' else [1, 2, 3, 4]):
        for strict in [False, True]:
            out.append({'name': f'handle;N={n};strict={strict}', 'what': 'handle', 'N': n, 'strict': strict})
    for idx in [[], [0], [1], [0, 2], [2, 3]]:
        for strict in [False, True]:
            out.append({'name': f'check;index={idx};strict={strict}', 'what': 'check', 'index': idx, 'strict': strict})
    return out


@group('C20/handle_infeasible_flow_rates', configs=hif_configs,
       functions=['thermosteam.separations:handle_infeasible_flow_rates',
                  'thermosteam.separations:check_partition_infeasibility'])
def handle_infeasible_flow_rates(w, cfg):
    """Flows are clipped into [0, feed]; infeasibility is reported (InfeasibleRegion when strict, else a warning)
    exactly when some flow was outside -- whichever position it has."""
    strict = cfg['strict']
    if cfg['what'] == 'check':
        index = np.array(cfg['index'], dtype=int)
        anchor = w.real('anchor')     # the structure is the input here; one leaf keeps the canary refutable by a model
        raised = False
        with _Reports() as rep:
            try:
                sep.check_partition_infeasibility(index, strict)
            except InfeasibleRegion:
                raised = True
        infeasible = len(cfg['index']) > 0
        w.ensure('InfeasibleRegion iff strict and some index is infeasible', raised == (strict and infeasible))
        w.ensure('warning iff not strict and some index is infeasible', (rep.n > 0) == ((not strict) and infeasible))
        w.ensure('index array unchanged', list(index) == cfg['index'])
        w.canary('canary: anchor = anchor + 1', w.eq(anchor, anchor + 1))
        return
    N = cfg['N']
    m0 = [w.real(f'mol{i}') for i in range(N)]
    x0 = [w.real(f'maxmol{i}', lo=0) for i in range(N)]
    mol, maxmol = _arr(w, m0), _arr(w, x0)
    outside = w.Or(*[w.Or(w.lt(m, 0.), w.gt(m, x)) for m, x in zip(m0, x0)])
    with _Reports() as rep:
        try:
            sep.handle_infeasible_flow_rates(mol, maxmol, strict)
        except InfeasibleRegion:
            w.ensure('InfeasibleRegion only when strict and some flow is outside [0, feed]', w.And(strict, outside))
            w.ensure('feed array unchanged', w.all_eq(list(maxmol), x0))
            w.canary('canary: InfeasibleRegion although every flow is inside', w.Not(outside))
            return
    w.ensure('normal return when strict only if every flow is inside [0, feed]', w.Implies(outside, not strict))
    w.ensure('infeasibility reported by a warning iff some flow is outside [0, feed]',
             w.And(w.Implies(outside, rep.n > 0), w.Implies(w.Not(outside), rep.n == 0)))
    for i in range(N):
        w.ensure(f'mol[{i}] clipped into [0, feed]',
                 w.And(w.Implies(w.lt(m0[i], 0.), w.eq(mol[i], 0.)),
                       w.Implies(w.gt(m0[i], x0[i]), w.eq(mol[i], x0[i])),
                       w.Implies(w.And(w.ge(m0[i], 0.), w.le(m0[i], x0[i])), w.eq(mol[i], m0[i]))))
        w.ensure(f'0 <= mol[{i}] <= feed[{i}]', w.And(w.ge(mol[i], 0.), w.le(mol[i], x0[i])))
    w.ensure('feed array unchanged', w.all_eq(list(maxmol), x0))
    w.canary('canary: mol[0] = original + 1', w.eq(mol[0], m0[0] + 1))


# --------------------------------------------------------------------------- partition / phase_fraction

def _part_fams(tier):
    quick = tier == 'quick'
    # (package, IDs in equilibrium, top_chemicals, bottom_chemicals)
    fams = [('P3', ['Water', 'Ethanol'], None, None),
            ('P4', ['Water', 'Ethanol'], ['Octane'], ['Methanol']),
            ('P3', ['Ethanol', 'Water'], None, 'Octane'),          # a plain string, as in the doctest
            ('P3', ['Water', 'Ethanol', 'Octane'], None, None)]
    if not quick:
        fams += [('P4', ['Methanol', 'Water'], ['Octane', 'Ethanol'], None),
                 ('P4', ['Water', 'Ethanol', 'Octane'], None, ['Methanol']),
                 ('Q4', ['Water', 'Ethanol'], ['Methanol'], 'Octane'),
                 ('P2', ['Water', 'Ethanol'], None, None),
                 ('P4', ['Octane', 'Ethanol'], None, None)]
    return fams


def part_configs(tier):
    out = []
    for pkg, IDs, tc, bc in _part_fams(tier):
        for prior in ['eq', 'other']:
            for strict in [False, True]:
                if strict and prior == 'other' and tier == 'quick': continue
                out.append({'name': f'pkg={pkg};IDs={"+".join(IDs)};top={tc};bottom={bc};prior={prior};strict={strict}',
                            'pkg': pkg, 'IDs': IDs, 'tc': tc, 'bc': bc, 'prior': prior, 'strict': strict})
    return out


def _as_list(x):
    return [] if not x else ([x] if isinstance(x, str) else list(x))


def _part_world(w, cfg):
    pkg = cfg['pkg']
    IDs = cfg['IDs']
    allIDs = PKG[pkg]
    p = {'default': 'maybe', ('l', IDs[0]): 'pos'}       # F_mol > 0: the feed holds some of the first chemical in equilibrium
    feed, _ = W.make_stream(w, 'feed', allIDs, 'l', present=p)
    others = [i for i in allIDs if i not in IDs]
    # prior contents of the outlets: something among the chemicals in equilibrium / among the others
    pid = IDs[-1] if (cfg.get('prior', 'eq') == 'eq' or not others) else others[0]
    top, _ = W.make_stream(w, 'top', allIDs, 'l', present={'default': 'zero', ('l', allIDs[0]): 'pos'})
    bottom, _ = W.make_stream(w, 'bot', allIDs, 'l', present={'default': 'zero', ('l', pid): 'pos'})
    K = [w.real(f'K.{i}', lo=1e-3, hi=1e3) for i in IDs]
    return feed, top, bottom, K


def _forced(cfg):
    tc, bc = cfg['tc'], cfg['bc']
    return (tuple(tc) if isinstance(tc, list) else tc), (tuple(bc) if isinstance(bc, list) else bc)


@group('C20/partition', configs=part_configs,
       functions=['thermosteam.separations:partition', 'thermosteam.separations:handle_infeasible_flow_rates',
                  'thermosteam.separations:check_partition_infeasibility'],
       assumptions=['A-phase-fraction-havoc'], l0=True)
def partition(w, cfg):
    """top + bottom = feed for every chemical whatever the outlets held before and whatever phi the solver returns;
    no negative flows; flow ratios top/bottom reproduce K up to one common factor; forced chemicals go where told."""
    W.reset_caches()
    feed, top, bottom, K = _part_world(w, cfg)
    IDs = tuple(cfg['IDs'])
    tc, bc = _forced(cfg)
    Karr = _arr(w, K)
    pre = _state(feed)
    f = _tot(feed)
    calls = []
    with _rebound(compute_phase_fraction=_phi_stub(w, calls)), _Reports() as rep:
        try:
            phi = sep.partition(feed, top, bottom, IDs, Karr, top_chemicals=tc, bottom_chemicals=bc, strict=cfg['strict'])
        except InfeasibleRegion:
            # K > 0 and 0 < phi < 1 give bottom flows inside [0, feed]: there is nothing infeasible to report
            w.ensure('InfeasibleRegion never raised for positive partition coefficients', False)
            return
    t, b = _tot(top), _tot(bottom)
    cas = {i: W.chemical(i).CAS for i in PKG[cfg['pkg']]}
    for ID, c in cas.items():
        w.ensure(f'top[{ID}] + bottom[{ID}] = feed', w.eq(t[c] + b[c], f[c]))
    w.ensure('no negative flows', _nonneg(w, top, bottom))
    w.ensure('no infeasibility reported', rep.n == 0)
    for n, i in enumerate(IDs):
        for m, j in enumerate(IDs):
            if m > n:
                w.ensure(f'K reproduced up to a common factor [{i},{j}]: top_i * bottom_j * K_j = top_j * bottom_i * K_i',
                         w.eq(t[cas[i]] * b[cas[j]] * K[m], t[cas[j]] * b[cas[i]] * K[n]))
    for ID in _as_list(tc):
        w.ensure(f'top chemical [{ID}] entirely in top', w.And(w.eq(t[cas[ID]], f[cas[ID]]), w.eq(b[cas[ID]], 0.)))
    for ID in _as_list(bc):
        w.ensure(f'bottom chemical [{ID}] entirely in bottom', w.And(w.eq(b[cas[ID]], f[cas[ID]]), w.eq(t[cas[ID]], 0.)))
    for ID in cas:
        if ID not in IDs and ID not in _as_list(tc) and ID not in _as_list(bc):
            w.ensure(f'chemical not in equilibrium [{ID}] ends up in top', w.And(w.eq(t[cas[ID]], f[cas[ID]]), w.eq(b[cas[ID]], 0.)))
    p0 = calls[0]['phi']
    w.ensure('returned phase fraction is the solved one clipped into [0, 1]',
             w.And(w.Implies(w.le(p0, 0.), w.eq(phi, 0.)), w.Implies(w.ge(p0, 1.), w.eq(phi, 1.)),
                   w.Implies(w.And(w.gt(p0, 0.), w.lt(p0, 1.)), w.eq(phi, p0))))
    w.ensure('feed unchanged (flows, phases, T, P)', _same_state(w, pre, feed))
    w.ensure('K array unchanged', w.all_eq(list(Karr), K))
    c0 = cas[IDs[0]]
    w.canary('canary: top + bottom = feed + 1', w.eq(t[c0] + b[c0], f[c0] + 1))
    w.canary('canary: everything in equilibrium goes to top', w.eq(b[c0], 0.))
    w.note(phi=phi, top=t, bottom=b, feed=f)


def pf_configs(tier):
    return [{'name': f'pkg={pkg};IDs={"+".join(IDs)};top={tc};bottom={bc};strict={strict}', 'pkg': pkg, 'IDs': IDs, 'tc': tc,
             'bc': bc, 'strict': strict} for pkg, IDs, tc, bc in _part_fams(tier) for strict in [False, True]]


@group('C20/phase_fraction', configs=pf_configs,
       functions=['thermosteam.separations:phase_fraction', 'thermosteam.separations:handle_infeasible_flow_rates'],
       assumptions=['A-phase-fraction-havoc'], l0=True)
def phase_fraction(w, cfg):
    """Returns the solved fraction clipped into [0, 1]; the feed is only read; same solver problem as `partition`."""
    W.reset_caches()
    feed, top, bottom, K = _part_world(w, cfg)
    IDs = tuple(cfg['IDs'])
    tc, bc = _forced(cfg)
    Karr = _arr(w, K)
    pre = _state(feed)
    calls = []
    with _rebound(compute_phase_fraction=_phi_stub(w, calls)), _Reports() as rep:
        try:
            phi = sep.phase_fraction(feed, IDs, Karr, top_chemicals=tc, bottom_chemicals=bc, strict=cfg['strict'])
        except InfeasibleRegion:
            w.ensure('InfeasibleRegion never raised for positive partition coefficients', False)
            return
    p0 = calls[0]['phi']
    w.ensure('returned phase fraction is the solved one clipped into [0, 1]',
             w.And(w.Implies(w.le(p0, 0.), w.eq(phi, 0.)), w.Implies(w.ge(p0, 1.), w.eq(phi, 1.)),
                   w.Implies(w.And(w.gt(p0, 0.), w.lt(p0, 1.)), w.eq(phi, p0))))
    # the Rachford-Rice problem handed to the solver: fractions of the feed over equilibrium + forced chemicals
    f = _tot(feed)
    cas = {i: W.chemical(i).CAS for i in PKG[cfg['pkg']]}
    Fa = w.total([f[cas[i]] for i in _as_list(tc)])
    Fb = w.total([f[cas[i]] for i in _as_list(bc)])
    F = w.total([f[cas[i]] for i in IDs]) + Fa + Fb
    a = calls[0]
    w.ensure('solver is given z = feed fractions, the K array, and the forced top/bottom fractions',
             w.And(len(calls) == 1, len(a['zs']) == len(IDs), *[w.eq(z * F, f[cas[i]]) for z, i in zip(a['zs'], IDs)],
                   w.all_eq(a['Ks'], K), w.eq(a['za'] * F, Fa), w.eq(a['zb'] * F, Fb)))
    w.ensure('feed unchanged (flows, phases, T, P)', _same_state(w, pre, feed))
    w.ensure('K array unchanged', w.all_eq(list(Karr), K))
    w.ensure('no infeasibility reported', rep.n == 0)
    w.canary('canary: phase fraction = solved + 1', w.eq(phi, p0 + 1))


# --------------------------------------------------------------------------- partition_coefficients

def pc_configs(tier):
    fams = [('P3', ['Water', 'Ethanol'], 'l', 'l'), ('P3', ['Ethanol', 'Octane', 'Water'], 'g', 'l')]
    if tier != 'quick':
        fams += [('Q4', ['Water', 'Ethanol'], 'g', 'l'), ('P4', ['Methanol', 'Water', 'Octane'], 'l', 'l'), ('P2', ['Water', 'Ethanol'], 'g', 'l')]
    return [{'name': f'pkg={p};IDs={"+".join(i)};top={t};bottom={b}', 'pkg': p, 'IDs': i, 't': t, 'b': b} for p, i, t, b in fams]


@group('C20/partition_coefficients', configs=pc_configs,
       functions=['thermosteam.separations:partition_coefficients', 'thermosteam._stream:Stream.get_normalized_mol'])
def partition_coefficients(w, cfg):
    """K_k * x_k = y_k with x, y the mole fractions over the given chemicals in bottom and top (x floored at 1e-24)."""
    W.reset_caches()
    pkg, IDs = cfg['pkg'], tuple(cfg['IDs'])
    p = {'default': 'maybe', (cfg['t'], IDs[0]): 'pos'}
    top, _ = W.make_stream(w, 'top', PKG[pkg], cfg['t'], present=p)
    p = {'default': 'maybe', (cfg['b'], IDs[0]): 'pos'}
    bottom, _ = W.make_stream(w, 'bot', PKG[pkg], cfg['b'], present=p)
    pre = _state(top), _state(bottom)
    K = sep.partition_coefficients(IDs, top, bottom)
    t, b = _tot(top), _tot(bottom)
    cas = [W.chemical(i).CAS for i in IDs]
    Ft, Fb = w.total([t[c] for c in cas]), w.total([b[c] for c in cas])
    w.ensure('one coefficient per chemical', len(K) == len(IDs))
    for k, ID, c in zip(K, IDs, cas):
        # y_k = t_k / Ft,  x_k = max(b_k / Fb, 1e-24);  K_k * x_k = y_k, cross-multiplied by the (positive) totals
        floored = w.lt(b[c], 1e-24 * Fb) if w.symbolic else bool(b[c] / Fb < 1e-24)    # exact guard natively (no tolerance)
        w.ensure(f'K[{ID}] * x = y',
                 w.And(w.Implies(w.Not(floored), w.eq(k * b[c] * Ft, t[c] * Fb)),
                       w.Implies(floored, w.eq(k * 1e-24 * Ft, t[c]))))
    w.ensure('streams unchanged', w.And(_same_state(w, pre[0], top), _same_state(w, pre[1], bottom)))
    w.canary('canary: K = 1', w.eq(K[0], 1.))


# --------------------------------------------------------------------------- chemical_splits

def cs_configs(tier):
    fams = [('ab', 'P3', 'l', 'g'), ('ab', 'P3', 'l', 'l'), ('mixed', 'P3', 'l', 'l'), ('mixed-multi', 'P3', 'g', 'gl')]
    if tier != 'quick':
        fams += [('ab', 'P4', 'g', 'l'), ('mixed', 'Q4', 'l', 'g'), ('mixed-multi', 'P2', 'l', 'gl'), ('mixed-multi', 'P3', 'L', 'Ll')]
    return [{'name': f'{how};pkg={p};a={a};other={o}', 'how': how, 'pkg': p, 'a': a, 'o': o} for how, p, a, o in fams]


@group('C20/chemical_splits', configs=cs_configs,
       functions=['thermosteam.separations:chemical_splits', 'thermosteam.indexer:ChemicalIndexer.from_data',
                  'thermosteam.base.sparse:SparseVector.__truediv__'])
def chemical_splits(w, cfg):
    """splits * mixed flow = flow of the first stream, chemical by chemical; the streams are only read."""
    W.reset_caches()
    pkg, how = cfg['pkg'], cfg['how']
    IDs = PKG[pkg]
    # the result is labelled with the chemicals of the *default* package (settings), as in the doctest
    tmo.settings.set_thermo(W.thermo(IDs))
    if how == 'ab':
        a, _ = W.make_stream(w, 'a', IDs, cfg['a'], present=None)
        b, _ = W.make_stream(w, 'b', IDs, cfg['o'], present=None)
        args, kw, streams = (a, b), {}, [a, b]
        mixed_t = {c: _tot(a)[c] + _tot(b)[c] for c in _tot(a)}
    elif how == 'mixed':
        a, _ = W.make_stream(w, 'a', IDs, cfg['a'], present=None)
        m, _ = W.make_stream(w, 'm', IDs, cfg['o'], present=None)
        ta, tm = _tot(a), _tot(m)
        for c in ta:                              # requires: `a` is part of the mixed stream
            w.assume(w.le(ta[c], tm[c]))
        args, kw, streams = (a,), {'mixed': m}, [a, m]
        mixed_t = tm
    else:
        m, _ = W.make_stream(w, 'm', IDs, KINDS[cfg['o']], present=_present(pkg, cfg['o'], 'two-maybe'))
        a = m[cfg['a']]                           # one phase of the mixed stream, as in the doctest
        args, kw, streams = (a,), {'mixed': m}, [m]
        mixed_t = _tot(m)
    pre = [_state(s) for s in streams]
    a_t = _row(m, cfg['a']) if how == 'mixed-multi' else _tot(a)
    splits = sep.chemical_splits(*args, **kw)
    w.ensure('result is a ChemicalIndexer over the same chemicals',
             isinstance(splits, tmo.indexer.ChemicalIndexer) and splits.chemicals is a.chemicals)
    got = dict(zip(a.chemicals.CASs, _dense(splits.data)))
    for c in got:
        w.ensure(f'split[{c}] * mixed = a', w.eq(got[c] * mixed_t[c], a_t[c]))
        w.ensure(f'0 <= split[{c}] <= 1, 0 where nothing flows', w.And(w.ge(got[c], 0.), w.le(got[c], 1.),
                                                                      w.Implies(w.eq(mixed_t[c], 0.), w.eq(got[c], 0.))))
    w.ensure('streams unchanged', w.And(*[_same_state(w, st, s) for st, s in zip(pre, streams)]))
    c0 = a.chemicals.CASs[0]
    w.canary('canary: split * mixed = a + 1', w.eq(got[c0] * mixed_t[c0], a_t[c0] + 1))


# --------------------------------------------------------------------------- material_balance (A-linsolve)

class _NPProxy:
    """`np` of thermosteam.separations with `linalg.solve` replaced by its assumed contract; all else forwarded."""
    class _Linalg:
        def __init__(self, base, solve): self._base = base; self.solve = solve
        def __getattr__(self, name): return getattr(self._base, name)
    def __init__(self, base, solve):
        self._base = base
        self.linalg = _NPProxy._Linalg(base.linalg, solve)
    def __getattr__(self, name): return getattr(self._base, name)


def _linsolve_stub(w, calls):
    """A-linsolve: np.linalg.solve(A, b) returns x with A x = b (fresh leaves, equation assumed)."""
    def solve(A, b):
        n = len(b)
        x = [w.real(f'x{len(calls)}.{i}') for i in range(n)]
        for i in range(n):
            w.assume(w.eq(w.total([A[i][j] * x[j] for j in range(n)]), b[i]))
        calls.append({'A': [list(r) for r in A], 'b': list(b), 'x': x})
        return _arr(w, x)
    return solve


def _det(M):
    n = len(M)
    if n == 1: return M[0][0]
    if n == 2: return M[0][0] * M[1][1] - M[0][1] * M[1][0]
    return (M[0][0] * (M[1][1] * M[2][2] - M[1][2] * M[2][1]) - M[0][1] * (M[1][0] * M[2][2] - M[1][2] * M[2][0])
            + M[0][2] * (M[1][0] * M[2][1] - M[1][1] * M[2][0]))


def mb_configs(tier):
    quick = tier == 'quick'
    fams = [  # (chemical_IDs, variable inlets, constant inlets, constant outlets) as (kind, package, presence) triples
        (['Water'], [('l', 'P3', 'all-pos')], [], [('l', 'P3', 'two-maybe')]),
        (['Water', 'Ethanol'], [('l', 'P3', 'two-maybe'), ('l', 'P3', 'all-pos')], [('l', 'P3', 'two-maybe')],
         [('l', 'P3', 'two-maybe'), ('g', 'P3', 'maybe')]),
        (['Octane', 'Water'], [('l', 'P3', 'pos+maybe'), ('g', 'P3', 'pos+maybe')], [], [('l', 'P3', 'all-pos')]),
        (['Water', 'Octane'], [('l', 'P3', 'pos+maybe'), ('l', 'P3', 'pos+maybe')], [('l', 'P3', 'pos')], []),   # no outlet: defaults
    ]
    if not quick:
        fams += [
            (['Water', 'Ethanol', 'Octane'], [('l', 'P3', 'pos+maybe'), ('l', 'P3', 'two-maybe'), ('g', 'P3', 'all-pos')],
             [('l', 'P3', 'maybe')], [('l', 'P3', 'all-pos')]),
            (['Ethanol', 'Water'], [('l', 'Q4', 'all-pos'), ('l', 'Q4', 'two-maybe')], [('l', 'Q4', 'pos'), ('g', 'Q4', 'maybe')],
             [('l', 'Q4', 'two-maybe')]),
            (['Water', 'Ethanol'], [('l', 'P2', 'all-pos'), ('l', 'P2', 'all-pos')], [('gl', 'P2', 'pos')], [('gl', 'P2', 'all-pos')]),
            (['Water'], [('l', 'P2', 'all-pos')], [], []),
        ]
    out = []
    for IDs, var, cin, cout in fams:
        f = lambda xs: '+'.join(f'{k}{p}:{m}' for k, p, m in xs)
        out.append({'name': f'IDs={"+".join(IDs)};var={f(var)};in={f(cin)};out={f(cout)}', 'IDs': IDs, 'var': var, 'cin': cin, 'cout': cout})
    return out


@group('C20/material_balance', configs=mb_configs,
       functions=['thermosteam.separations:material_balance'], assumptions=['A-linsolve'])
def material_balance(w, cfg):
    """balance='flow': every variable inlet is scaled by its own factor and afterwards inlets - outlets = 0 on the chosen
    chemicals; constant streams are unchanged."""
    W.reset_caches()
    IDs = tuple(cfg['IDs'])
    mk = lambda nm, k, p, m: W.make_stream(w, nm, PKG[p], KINDS[k], present=_present(p, k, m))[0]
    var = [mk(f'v{n}', *t) for n, t in enumerate(cfg['var'])]
    cin = [mk(f'ci{n}', *t) for n, t in enumerate(cfg['cin'])]
    cout = [mk(f'co{n}', *t) for n, t in enumerate(cfg['cout'])]
    cas = [W.chemical(i).CAS for i in IDs]
    v0 = [_tot(s) for s in var]
    # quantifier: invertible inlet-composition matrix (rows = chosen chemicals, columns = variable inlets)
    w.assume(w.ne(_det([[v0[j][c] for j in range(len(var))] for c in cas]), 0.))
    pre_rows = [[[x for x in _dense(sv)] for _, sv in W.rows_of(s)] for s in var]
    pre_const = [_state(s) for s in cin + cout]
    calls = []
    base_np = sep.__dict__['np']
    with _rebound(np=_NPProxy(base_np, _linsolve_stub(w, calls))):
        sep.material_balance(IDs, var, cin, cout)
    w.ensure('one linear solve', len(calls) == 1)
    x = calls[0]['x']
    for c, ID in zip(cas, IDs):
        inn = w.total([_tot(s)[c] for s in var + cin])
        out = w.total([_tot(s)[c] for s in cout])
        w.ensure(f'inlets - outlets = 0 for [{ID}]', w.eq(inn - out, 0.))
    for n, s in enumerate(var):
        rows = [[v for v in _dense(sv)] for _, sv in W.rows_of(s)]
        w.ensure(f'variable inlet {n} is scaled by its factor (every chemical, every phase)',
                 w.And(len(rows) == len(pre_rows[n]),
                       *[w.eq(a, x[n] * b) for r, r0 in zip(rows, pre_rows[n]) for a, b in zip(r, r0)]))
    w.ensure('constant inlets and outlets unchanged', w.And(*[_same_state(w, st, s) for st, s in zip(pre_const, cin + cout)]))
    w.canary('canary: variable inlet 0 unchanged', w.eq(_tot(var[0])[cas[0]], v0[0][cas[0]] + 1))
    w.note(x=x, A=calls[0]['A'], b=calls[0]['b'])


# --------------------------------------------------------------------------- lle / vle wrappers (equilibrium by its C03 contract)

def _write_dense(sv, values):
    """Store a dense image in a sparse row (engine side of the equilibrium stub)."""
    dct = sv.dct
    if hasattr(dct, 'put'):                      # contract level of the kernels: presence stays undecided
        for k, v in enumerate(values): dct.put(k, v)
    else:
        for k, v in enumerate(values):
            if v: dct[k] = v
            else: dct.pop(k, None)


class _EquilibriumStub:
    """
    What `ms.vle` / `ms.lle` return: a callable obeying the C03 contract of the equilibrium objects -- afterwards the
    two phase rows hold ARBITRARY non-negative flows whose per-chemical sum is the material the stream held before
    (all phases); other rows are empty; T (and P) are the given ones or arbitrary positive values.
    """
    def __init__(self, w, ms, a, b, log):
        self.w, self.ms, self.a, self.b, self.log = w, ms, a, b, log

    def __call__(self, T=None, P=None, **kw):
        w, ms = self.w, self.ms
        n = len(self.log)
        rows = dict(W.rows_of(ms))
        size = rows[self.a].size
        tot = [0.] * size
        for ph, sv in rows.items():
            for k, v in enumerate(_dense(sv)): tot[k] = tot[k] + v
        ya = []
        for k in range(size):
            if tot[k].__class__ in (int, float) and tot[k] == 0:
                ya.append(0.); continue
            y = w.real(f'eq{n}.{self.a}.{k}', lo=0.)
            w.assume(w.le(y, tot[k]))
            ya.append(y)
        for ph, sv in rows.items():
            if ph == self.a: _write_dense(sv, ya)
            elif ph == self.b: _write_dense(sv, [t - y for t, y in zip(tot, ya)])
            else: _write_dense(sv, [0.] * size)
        ms.T = T if T is not None else w.real(f'eq{n}.T', lo=0., lo_strict=True)
        if P is not None: ms.P = P
        self.log.append({'T': T, 'P': P, 'kw': kw, self.a: ya, self.b: [t - y for t, y in zip(tot, ya)], 'total': tot})


class _equilibrium_stubbed:
    """Rebinds the MultiStream.vle / .lle properties (phase expansion kept as in the real property)."""
    def __init__(self, w, log): self.w, self.log = w, log
    def __enter__(self):
        self.saved = (tmo.MultiStream.__dict__['vle'], tmo.MultiStream.__dict__['lle'])
        w, log = self.w, self.log

        def vle(ms):
            phases = ms.phases
            if 'l' not in phases or 'g' not in phases: ms.phases = [*phases, 'l', 'g']
            return _EquilibriumStub(w, ms, 'g', 'l', log)

        def lle(ms):
            phases = ms.phases
            if 'l' not in phases or 'L' not in phases: ms.phases = [*phases, 'l', 'L']
            return _EquilibriumStub(w, ms, 'L', 'l', log)
        tmo.MultiStream.vle = property(vle)
        tmo.MultiStream.lle = property(lle)
        return self
    def __exit__(self, *exc):
        tmo.MultiStream.vle, tmo.MultiStream.lle = self.saved
        return False


def eqw_configs(tier):
    quick = tier == 'quick'
    out = []
    lle = [('P3', 'Octane', 'one', None), ('P3', 'Octane', 'leaf', None), ('P3', None, 'one', None), ('P3', 'Octane', 'leaf', 'Ll')]
    vle = [('P3', 'V', None), ('P3', 'TP', None), ('P3', 'Q', None), ('P3', 'V', 'gl')]
    if not quick:
        lle += [('P3', None, 'leaf', None), ('Q4', 'Water', 'leaf', 'Ll'), ('P2', None, 'leaf', 'Ll'), ('P3', 'Octane', 'one', 'Ll')]
        vle += [('Q4', 'TP', 'gl'), ('P2', 'Q', 'gl'), ('P3', 'Q', 'gl')]
    for pkg, tc, eff, ms in lle:
        out.append({'name': f'lle;pkg={pkg};top_chemical={tc};efficiency={eff};multi_stream={ms}', 'what': 'lle', 'pkg': pkg,
                    'tc': tc, 'eff': eff, 'ms': ms})
    for pkg, spec, ms in vle:
        out.append({'name': f'vle;pkg={pkg};spec={spec};multi_stream={ms}', 'what': 'vle', 'pkg': pkg, 'spec': spec, 'ms': ms})
    return out


@group('C20/equilibrium_wrappers', configs=eqw_configs,
       functions=['thermosteam.separations:lle', 'thermosteam.separations:vle'],
       assumptions=['A-equilibrium-C03 (stream.vle / stream.lle conserve every chemical, give non-negative flows)',
                    'A-models'], l0=True)
def equilibrium_wrappers(w, cfg):
    """The wrappers hand the phases of the equilibrated copy to the outlets: outlets sum to the feed, are non-negative,
    replace whatever the outlets held, and leave the feed alone (lle: plus the efficiency mixing rule)."""
    W.reset_caches()
    th = _Stubs(w)
    pkg = cfg['pkg']
    IDs = PKG[pkg]
    feed, _ = W.stream_on(w, 'feed', th(pkg), 'l', present={'default': 'maybe', ('l', IDs[0]): 'pos'})
    o1, _ = W.stream_on(w, 'o1', th(pkg), 'l', present={'default': 'zero', ('l', IDs[-1]): 'pos'})
    o2, _ = W.stream_on(w, 'o2', th(pkg), 'g', present={'default': 'zero', ('g', IDs[0]): 'pos'})
    ms = None
    if cfg['ms']:
        ms, _ = W.stream_on(w, 'ms', th(pkg), KINDS[cfg['ms']], present={'default': 'zero', (KINDS[cfg['ms']][0], IDs[1]): 'pos'})
    pre = _state(feed)
    f = _tot(feed)
    CASs = feed.chemicals.CASs
    log = []
    with _equilibrium_stubbed(w, log):
        if cfg['what'] == 'lle':
            eff = 1.0 if cfg['eff'] == 'one' else w.real('efficiency', lo=0, hi=1)
            kw = {} if cfg['eff'] == 'one' else {'efficiency': eff}
            sep.lle(feed, o1, o2, top_chemical=cfg['tc'], multi_stream=ms, **kw)
        else:
            kw = {'P': w.real('P', lo=0, lo_strict=True)}
            if cfg['spec'] == 'V': kw['V'] = w.real('V', lo=0, hi=1)
            elif cfg['spec'] == 'TP': kw['T'] = w.real('T', lo=0, lo_strict=True)
            else: kw['Q'] = w.real('Q')
            sep.vle(feed, o1, o2, multi_stream=ms, **kw)
    t1, t2 = _tot(o1), _tot(o2)
    for c in CASs:
        w.ensure(f'outlet 1[{c}] + outlet 2[{c}] = feed', w.eq(t1[c] + t2[c], f[c]))
    w.ensure('no negative flows', _nonneg(w, o1, o2))
    w.ensure('feed unchanged (flows, phases, T, P)', _same_state(w, pre, feed))
    w.ensure('equilibrium ran exactly once', len(log) == 1)
    e = log[0]
    if cfg['what'] == 'lle':
        L, l = e['L'], e['l']
        half = [(1. - eff) / 2. * f[c] for c in CASs]
        asL = lambda t: w.And(*[w.eq(t[c], eff * L[k] + half[k]) for k, c in enumerate(CASs)])
        asl = lambda t: w.And(*[w.eq(t[c], eff * l[k] + half[k]) for k, c in enumerate(CASs)])
        if cfg['tc']:
            w.ensure('top = efficiency * extract phase (L) + half of the rest of the feed; bottom likewise with l',
                     w.And(asL(t1), asl(t2)))
        else:
            w.ensure('outlets = efficiency * one liquid phase each + half of the rest of the feed',
                     w.Or(w.And(asL(t1), asl(t2)), w.And(asl(t1), asL(t2))))
        w.ensure('equilibrium at the temperature of the feed; outlets at T, P of the feed',
                 w.And(w.eq(e['T'], pre[1]), w.eq(o1.T, pre[1]), w.eq(o2.T, pre[1]), w.eq(o1.P, pre[2]), w.eq(o2.P, pre[2])))
    else:
        w.ensure('vapor outlet = g phase, liquid outlet = l phase of the equilibrated stream',
                 w.And(*[w.eq(t1[c], e['g'][k]) for k, c in enumerate(CASs)], *[w.eq(t2[c], e['l'][k]) for k, c in enumerate(CASs)]))
        w.ensure("outlets are single-phase 'g' and 'l'", (not isinstance(o1, tmo.MultiStream)) and o1.phase == 'g'
                 and (not isinstance(o2, tmo.MultiStream)) and o2.phase == 'l')
        w.ensure('specification passed on to the equilibrium',
                 w.And(e['P'] is not None and bool(w.eq(e['P'], kw['P'])) if not w.symbolic else w.eq(e['P'], kw['P']),
                       *([w.eq(e['kw'].get('V'), kw['V'])] if 'V' in kw else []),
                       *([w.eq(e['T'], kw['T'])] if 'T' in kw else []),
                       (e['kw'].get('H') is not None) == ('Q' in kw)))
        w.ensure('outlets at the same T and P', w.And(w.eq(o1.T, o2.T), w.eq(o1.P, o2.P), w.eq(o1.P, kw['P'])))
    if ms is not None:
        m = _tot(ms)
        w.ensure('multi_stream holds the material of the feed', w.And(*[w.eq(m[c], f[c]) for c in CASs]))
    w.canary('canary: outlet 1 + outlet 2 = feed + 1', w.eq(t1[CASs[0]] + t2[CASs[0]], f[CASs[0]] + 1))
    w.canary('canary: everything ends in outlet 1', w.eq(t2[CASs[0]], 0.))


# --------------------------------------------------------------------------- mode B: the same helpers on the REAL solvers (bounded, not counted as proved)

def real_configs(tier):
    out = []
    Ks = [[0.629, 1.59], [5., 9.], [0.2, 0.5], [1e-3, 1e3], [0.9, 1.1]] + ([] if tier == 'quick' else [[1e3, 1e-3], [1., 1.], [0.5, 2.]])
    feeds = [[20., 20., 0.1], [1., 30., 0.], [5., 0., 2.]] + ([] if tier == 'quick' else [[1e-6, 3., 1.], [40., 1., 10.]])
    for K in Ks:
        for f in feeds:
            for forced in [None, 'top', 'bottom']:
                if forced and tier == 'quick' and f != feeds[0]: continue
                out.append({'name': f'partition;K={K};feed={f};forced={forced}', 'what': 'partition', 'K': K, 'feed': f, 'forced': forced})
    quick = tier == 'quick'     # the first vle / lle call of a process pays ~5 s of numba compilation: two each in the quick tier
    for spec in [{'V': 0.5, 'P': 101325.}, {'T': 355., 'P': 101325.}, {'V': 0., 'P': 101325.}, {'V': 1., 'P': 50000.}, {'Q': 1e5, 'P': 101325.}][:2 if quick else None]:
        for f in feeds[:1 if quick else 2]:
            out.append({'name': f'vle;spec={spec};feed={f}', 'what': 'vle', 'spec': spec, 'feed': f})
    for eff in [0.99, 1.0, 0.5, 0.][:1 if quick else None]:
        for tc in ['Octane', None]:
            out.append({'name': f'lle;efficiency={eff};top_chemical={tc}', 'what': 'lle', 'eff': eff, 'tc': tc, 'feed': [20., 1., 20.]})
    return out


@group('C20/real_solvers', configs=real_configs, mode='B',
       functions=['thermosteam.separations:partition', 'thermosteam.separations:vle', 'thermosteam.separations:lle',
                  'thermosteam.equilibrium.binary_phase_fraction:phase_fraction'],
       notes='real Rachford-Rice / VLE / LLE solvers on Water-Ethanol-Octane, the listed K, feeds, specifications and '
             'efficiencies; outlets start with prior contents (10 kmol/hr of every chemical)')
def real_solvers(w, cfg):
    W.reset_caches()
    th = W.thermo(P3)
    mk = lambda flows, phase='l': tmo.Stream(None, thermo=th, phase=phase, **{i: v for i, v in zip(P3, flows) if v})
    feed = mk(cfg['feed'])
    o1, o2 = mk([10., 10., 10.]), mk([10., 10., 10.], 'g')
    f = _tot(feed)
    pre = _state(feed)
    try:
        if cfg['what'] == 'partition':
            kw = {'top': {'top_chemicals': ('Octane',)}, 'bottom': {'bottom_chemicals': 'Octane'}, None: {}}[cfg['forced']]
            K = np.array(cfg['K'])
            sep.partition(feed, o1, o2, ('Water', 'Ethanol'), K, **kw)
        elif cfg['what'] == 'vle':
            sep.vle(feed, o1, o2, **cfg['spec'])
        else:
            sep.lle(feed, o1, o2, top_chemical=cfg['tc'], efficiency=cfg['eff'])
    except Exception as e:
        # the property speaks about calls that return normally (what may be raised is the business of the S groups;
        # forked numba workers also raise spurious ReferenceErrors inside flexsolve now and then)
        w.note(skipped=repr(e)[:200])
        return
    t1, t2 = _tot(o1), _tot(o2)
    for c in f:
        w.ensure(f'outlet 1[{c}] + outlet 2[{c}] = feed', w.eq(t1[c] + t2[c], f[c]))
    w.ensure('no negative flows', _nonneg(w, o1, o2))
    w.ensure('feed unchanged (flows, phases, T, P)', _same_state(w, pre, feed))
    if cfg['what'] == 'partition':
        cw, ce = W.chemical('Water').CAS, W.chemical('Ethanol').CAS
        w.ensure('K reproduced up to a common factor', w.eq(t1[cw] * t2[ce] * cfg['K'][1], t1[ce] * t2[cw] * cfg['K'][0]))
    w.note(o1=t1, o2=t2)
