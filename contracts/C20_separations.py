# -*- coding: utf-8 -*-
"""
C20 -- separation helper functions close the material balance and meet their targets.

Contracts (sidecar) on the real functions of thermosteam/separations.py (imported from the tree under check and
executed).  Every `ensures` is a sentence of the property:

  * material balance: per chemical (matched by CAS over the whole dense image, all phases) the sum of the outlet
    streams after the call equals the sum of the inlet streams read before the call -- outlets start with ARBITRARY
    PRIOR CONTENTS (symbolic), so a helper that accumulates instead of overwriting, or leaves an outlet stale, fails;
  * no negative flow on normal return; InfeasibleRegion is the allowed alternative, and only when the request is
    infeasible (strict);
  * targets: split * mixed feed = top; requested moisture fraction reached; outlet i = phase i; top/bottom flow
    ratios reproduce K up to one common factor; chemical_splits * mixed = a; material_balance: inlets - outlets = 0
    on the chosen chemicals, variable inlets are *scaled* (composition kept);
  * frame: inlets, constant streams, the feed and every argument array are unchanged.

Dependencies replaced by their assumed contracts (DESIGN 2.6), by assignment into the namespace of
`thermosteam.separations` for the duration of one body (never by editing a file):

  * `compute_phase_fraction` (Rachford-Rice solver, flexsolve) -> an arbitrary real phi (fresh leaf): the balance
    and the K-ratio clause are proved for ANY solver output, in all three regimes phi<=0, 0<phi<1, phi>=1;
  * `np.linalg.solve` -> A-linsolve: fresh leaves x with A x = b assumed;
  * `stream.vle` / `stream.lle` (the equilibrium objects) -> their C03 contract: the phase rows of the work stream
    are replaced by arbitrary non-negative flows with the same per-chemical totals (and arbitrary T for vle);
  * pure-component models -> A-models, temperature solves -> A-root (`W.stub_thermo`) where an energy balance runs.
"""
import os
import sys
import warnings
import numpy as np
import thermosteam as tmo
from thermosteam.exceptions import InfeasibleRegion
from engine.api import group
from engine.sx import tmo_world as W

# nonlinear VCs (rational functions of phi and K): a fresh one-shot solver per clause first (engine opt-in, see sym.Ctx.prove)
os.environ.setdefault('VERIF_PROVE_FRESH_MS', '5000')

sep = sys.modules['thermosteam.separations']

WATER = '7732-18-5'
P2 = ('Water', 'Ethanol')
P3 = ('Water', 'Ethanol', 'Octane')
Q3 = ('Octane', 'Water', 'Ethanol')            # same chemicals, other order (another package object)
Q2 = ('Ethanol', 'Water')                       # subset of P3, other order
P4 = ('Water', 'Ethanol', 'Octane', 'Methanol')
Q4 = ('Methanol', 'Octane', 'Water', 'Ethanol')  # reordered superset of P3
PKG = {'P2': P2, 'P3': P3, 'Q3': Q3, 'Q2': Q2, 'P4': P4, 'Q4': Q4}
W.preload(list(PKG.values()))

KINDS = {'l': 'l', 'g': 'g', 's': 's', 'gl': ('g', 'l'), 'ls': ('l', 's'), 'Ll': ('L', 'l'), 'gls': ('g', 'l', 's')}


def _rows(kind):
    ph = KINDS[kind]
    return (ph,) if isinstance(ph, str) else ph


def _present(pkg, kind, mode):
    """Presence pattern of planted flows (each 'maybe' entry is one 2-way fork)."""
    IDs = PKG[pkg]
    if mode == 'all-maybe':
        return None
    p = {'default': 'zero'}
    for n, ph in enumerate(_rows(kind)):
        if mode == 'all-pos':
            for ID in IDs: p[ph, ID] = 'pos'
        elif mode == 'pos+maybe':
            p[ph, IDs[0]] = 'pos'
            p[ph, IDs[-1]] = 'maybe'
        elif mode == 'two-maybe':
            p[ph, IDs[0]] = 'maybe'
            p[ph, IDs[-1]] = 'maybe'
        elif mode == 'pos':
            p[ph, IDs[n % len(IDs)]] = 'pos'
        elif mode == 'maybe':
            p[ph, IDs[n % len(IDs)]] = 'maybe'
        elif mode == 'empty':
            pass
        else:
            raise ValueError(mode)
    return p


# Readers of the dense image.  They go through `dct.get(i, 0.)` for every position, which observes the value without
# asking "is it stored" -- no presence fork on the contract level of the kernels (l0 groups), same values on the real ones.

def _dense(sv):
    return [sv.dct.get(i, 0.) for i in range(sv.size)]


def _tot(s):
    """{CAS: total molar flow over the phases}."""
    CASs = s.chemicals.CASs
    out = {c: 0. for c in CASs}
    for ph, sv in W.rows_of(s):
        for c, v in zip(CASs, _dense(sv)):
            out[c] = out[c] + v
    return out


def _row(s, phase):
    CASs = s.chemicals.CASs
    out = {c: 0. for c in CASs}
    for ph, sv in W.rows_of(s):
        if ph == phase:
            for c, v in zip(CASs, _dense(sv)):
                out[c] = out[c] + v
    return out


def _nonneg(w, *streams):
    cs = []
    for s in streams:
        for ph, sv in W.rows_of(s):
            for v in _dense(sv):
                if not (v.__class__ in (int, float) and v == 0): cs.append(w.ge(v, 0.))
    return w.And(*cs)


def _state(s):
    """Material state (class, phases, every entry of every row) plus T and P."""
    rows = W.rows_of(s)
    return (type(s).__name__, tuple(ph for ph, _ in rows), [_dense(sv) for _, sv in rows]), s.T, s.P


def _same_state(w, st, s):
    (cls, phases, rows), T, P = st
    (cls2, phases2, rows2), T2, P2 = _state(s)
    if cls != cls2 or phases != phases2:
        return w.And(False)
    return w.And(w.eq(T2, T), w.eq(P2, P), *[w.eq(a, b) for r, r2 in zip(rows, rows2) for a, b in zip(r, r2)])


def _arr(w, vals):
    return np.array(list(vals), dtype=object if w.symbolic else float)


class _Stubs:
    """
    Stub packages per path, one per package name.  The material clauses of C20 must hold whatever the energy side
    does, so the energy models are *havoc'ed* (a superset of A-models + A-root, and much cheaper for the solver than
    uninterpreted models with a root assumption): every evaluation of the molar enthalpy of a mixture returns a fresh
    real, every temperature solve returns a fresh positive real.  The enthalpy balance itself is C02's business.
    """
    def __init__(self, w): self.w = w; self.d = {}; self.n = 0

    def __call__(self, pkg):
        if pkg not in self.d:
            th = W.stub_thermo(self.w, PKG[pkg])
            stubs, w = self, self.w
            base = type(th.mixture)

            def fresh(kind, **kw):
                stubs.n += 1
                return w.real(f'havoc{stubs.n}.{kind}', **kw)

            def H(self, phase, mol, T, P):
                return fresh('h')

            def xH(self, phase_mol, T, P):
                tuple(phase_mol)
                return fresh('xh')

            def solve_T_at_HP(self, phase, mol, H, T_guess, P):
                return fresh('T_at_HP', lo=0., lo_strict=True)

            def xsolve_T_at_HP(self, phase_mol, H, T_guess, P):
                tuple(phase_mol)
                return fresh('xT_at_HP', lo=0., lo_strict=True)

            th.mixture.__class__ = type('HavocEnergyMixture', (base,), {
                '__slots__': (), 'H': H, 'xH': xH, 'solve_T_at_HP': solve_T_at_HP, 'xsolve_T_at_HP': xsolve_T_at_HP})
            self.d[pkg] = th
        return self.d[pkg]


# --------------------------------------------------------------------------- mix_and_split

def mas_configs(tier):
    quick = tier == 'quick'
    I = lambda kind, pkg='P3', mode='two-maybe': [kind, pkg, mode]
    fams = [  # (inlets, top kind, bottom package)
        ([I('l')], 'l', 'P3'),
        ([I('l'), I('g', 'Q2')], 'l', 'P3'),
        ([I('l'), I('l', 'Q3', 'pos+maybe')], 'l', 'Q4'),
        ([I('TOP'), I('l', 'Q2')], 'l', 'P3'),
        ([I('l', mode='empty'), I('g', 'Q2', 'maybe')], 'l', 'P3'),
        ([I('gl', mode='maybe'), I('l', 'Q2', 'pos')], 'l', 'P3'),
        ([], 'l', 'P3'),
    ]
    if not quick:
        fams += [
            ([I('l'), I('g', 'Q2'), I('s', 'Q3')], 'l', 'P3'),
            ([I('l', mode='all-maybe')], 'l', 'Q4'),
            ([I('TOP'), I('TOP')], 'l', 'P3'),
            ([I('l'), I('l', 'Q3')], 'gl', 'P3'),
            ([I('gl'), I('g', 'Q2')], 'gl', 'P3'),
            ([I('TOP'), I('l', 'Q2', 'pos')], 'gl', 'P3'),
            ([I('l', mode='maybe'), I('g', 'Q2', 'maybe'), I('l', 'Q3', 'maybe')], 'g', 'Q4'),
        ]
    out = []
    for inlets, top, bpkg in fams:
        for split in ['scalar', 'vector']:
            nm = 'in=' + '+'.join(f'{k}{p}:{m}' for k, p, m in inlets) + f';top={top};bottom={bpkg};split={split}'
            out.append({'name': nm, 'inlets': inlets, 'top': top, 'bpkg': bpkg, 'split': split})
    return out


def _split_leaves(w, cfg, top):
    """Split as the user passes it (scalar or array in the order of top's package) and {CAS: fraction}."""
    if cfg['split'] == 'scalar':
        x = w.real('split', lo=0, hi=1)
        return x, {cas: x for cas in top.chemicals.CASs}
    vals = [w.real(f'split.{ID}', lo=0, hi=1) for ID in top.chemicals.IDs]
    return _arr(w, vals), dict(zip(top.chemicals.CASs, vals))


def _inlet_world(w, cfg, th, top_pkg='P3'):
    """top (prior contents), bottom (prior contents), inlets [(stream, frame state or None)]."""
    tk = cfg['top']
    top, _ = W.stream_on(w, 'top', th(top_pkg), KINDS[tk], present=_present(top_pkg, tk, 'pos+maybe' if any(
        i[0] == 'TOP' for i in cfg['inlets']) else 'pos'))
    bottom, _ = W.stream_on(w, 'bot', th(cfg['bpkg']), 'l', present=_present(cfg['bpkg'], 'l', 'pos'))
    inlets = []
    for n, (k, p, m) in enumerate(cfg['inlets']):
        if k == 'TOP':
            inlets.append((top, None))
        else:
            s, _ = W.stream_on(w, f'i{n}', th(p), KINDS[k], present=_present(p, k, m))
            inlets.append((s, _state(s)))
    return top, bottom, inlets


def _sum_inlets(top, inlets):
    expected = {c: 0. for c in top.chemicals.CASs}
    for s, _ in inlets:
        for cas, v in _tot(s).items():
            expected[cas] = expected[cas] + v
    return expected


@group('C20/mix_and_split', configs=mas_configs,
       functions=['thermosteam.separations:mix_and_split', 'thermosteam._stream:Stream.mix_from',
                  'thermosteam._stream:Stream.split_to', 'thermosteam._multi_stream:MultiStream.split_to'],
       assumptions=['A-models', 'A-root'])
def mix_and_split(w, cfg):
    """top = split * (sum of inlets), bottom = the rest; prior contents of both outlets are overwritten."""
    W.reset_caches()
    th = _Stubs(w)
    top, bottom, inlets = _inlet_world(w, cfg, th)
    split, xs = _split_leaves(w, cfg, top)
    split0 = split.copy() if cfg['split'] == 'vector' else split
    expected = _sum_inlets(top, inlets)
    sep.mix_and_split([s for s, _ in inlets], top, bottom, split)
    t, b = _tot(top), _tot(bottom)
    for cas in top.chemicals.CASs:
        w.ensure(f'top[{cas}] + bottom[{cas}] = sum of inlets', w.eq(t[cas] + b.get(cas, 0.), expected[cas]))
        w.ensure(f'top[{cas}] = split * mixed feed', w.eq(t[cas], xs[cas] * expected[cas]))
    for cas in b:
        if cas not in t:
            w.ensure(f'bottom[{cas}] = 0 (chemical not in the feed)', w.eq(b[cas], 0.))
    w.ensure('no negative flows', _nonneg(w, top, bottom))
    w.ensure('outlets rep_ok', w.And(W.rep_ok(w, top), W.rep_ok(w, bottom)))
    for n, (s, st) in enumerate(inlets):
        if st is not None:
            w.ensure(f'inlet {n} unchanged (flows, phases, T, P)', _same_state(w, st, s))
    if cfg['split'] == 'vector':
        w.ensure('split array unchanged', w.all_eq(list(split), list(split0)))
    c0 = top.chemicals.CASs[0]
    w.canary('canary: top + bottom = sum of inlets + 1', w.eq(t[c0] + b.get(c0, 0.), expected[c0] + 1))
    w.note(expected=expected, top=t, bottom=b)


# --------------------------------------------------------------------------- adjust_moisture_content

def amc_configs(tier):
    quick = tier == 'quick'
    out = []
    fams = [('l', 'P2', None), ('l', 'P3', None), ('l', 'P2', 'Water'), ('l', 'P3', 'Ethanol'), ('ls', 'P2', None)]
    if not quick:
        fams += [('l', 'Q3', None), ('l', 'Q3', 'Octane'), ('ls', 'P3', None), ('ls', 'P2', 'Water'), ('gl', 'P2', None)]
    for kind, pkg, ID in fams:
        for strict in [None, False] + ([] if quick else [True]):
            out.append({'name': f'streams={kind};pkg={pkg};ID={ID};strict={strict}', 'kind': kind, 'pkg': pkg, 'ID': ID,
                        'strict': strict})
    return out


def _moisture_present(pkg, kind, ID, who):
    """Moisture only in the liquid phase (the phase the helper writes); other chemicals anywhere."""
    IDs = PKG[pkg]
    mID = ID or 'Water'
    p = {'default': 'zero'}
    rows = _rows(kind)
    for ph in rows:
        for k in IDs:
            if k == mID:
                if ph == 'l': p[ph, k] = 'maybe'
            elif k == [i for i in IDs if i != mID][0]:
                p[ph, k] = 'pos' if (who == 'ret' and ph == rows[-1]) else ('maybe' if ph == rows[-1] else 'zero')
            elif who == 'ret' and ph == 'l':
                p[ph, k] = 'maybe'
    return p


def _mass(s):
    """{CAS: mass flow} and the total, from the raw molar rows and the package's molecular weights."""
    MW = dict(zip(s.chemicals.CASs, [float(i) for i in s.chemicals.MW]))
    t = _tot(s)
    m = {c: MW[c] * t[c] for c in t}
    tot = 0.
    for c in m: tot = tot + m[c]
    return m, tot


def _moisture_clauses(w, cfg, ret, perm, pre, call, prefix=''):
    """
    Shared by adjust_moisture_content and mix_and_split_with_moisture_content.
    pre = {CAS: total of retentate + permeate before the adjustment}, call() runs the helper.
    """
    mc = cfg['_mc']
    mcas = W.chemical(cfg['ID'] or 'Water').CAS
    strict = cfg['strict']
    pre_ret, pre_perm = cfg['_pre_ret'], cfg['_pre_perm']
    MWm = float(ret.chemicals[cfg['ID'] or 'Water'].MW)
    dry = 0.
    for c, v in pre_ret.items():
        if c != mcas: dry = dry + float(dict(zip(ret.chemicals.CASs, ret.chemicals.MW))[c]) * v
    # moisture (mol) the retentate needs for the requested fraction, and what is available in both streams
    need = dry * mc / (1 - mc) / MWm
    avail = pre_ret[mcas] + pre_perm.get(mcas, 0.)
    try:
        call()
    except InfeasibleRegion:
        w.ensure(prefix + 'InfeasibleRegion only when strict and the moisture available is insufficient',
                 w.And(strict is not False, w.lt(avail, need)))
        w.canary(prefix + 'canary: InfeasibleRegion with sufficient moisture', w.ge(avail, need))
        return
    r, p = _tot(ret), _tot(perm)
    for cas in r:
        w.ensure(prefix + f'retentate[{cas}] + permeate[{cas}] conserved', w.eq(r[cas] + p.get(cas, 0.), pre[cas]))
        if cas != mcas:
            w.ensure(prefix + f'other chemical [{cas}] stays where it was',
                     w.And(w.eq(r[cas], pre_ret[cas]), w.eq(p.get(cas, 0.), pre_perm.get(cas, 0.))))
    w.ensure(prefix + 'no negative flows on normal return', _nonneg(w, ret, perm))
    m, tot = _mass(ret)
    w.ensure(prefix + 'requested moisture fraction reached when enough moisture is available',
             w.Implies(w.ge(avail, need), w.eq(m[mcas], mc * tot)))
    w.ensure(prefix + 'normal return with insufficient moisture only when not strict',
             w.Implies(w.lt(avail, need), strict is False))
    w.ensure(prefix + 'rep_ok', w.And(W.rep_ok(w, ret), W.rep_ok(w, perm)))
    w.canary(prefix + 'canary: moisture fraction = requested + 0.01', w.eq(m[mcas], (mc + 0.01) * tot))
    w.note(need=need, avail=avail, ret=r, perm=p)


@group('C20/adjust_moisture_content', configs=amc_configs,
       functions=['thermosteam.separations:adjust_moisture_content'])
def adjust_moisture_content(w, cfg):
    """Moves moisture between permeate and retentate: balance closed, requested fraction reached, rest untouched."""
    W.reset_caches()
    cfg = dict(cfg)
    kind, pkg, ID = cfg['kind'], cfg['pkg'], cfg['ID']
    ret, _ = W.make_stream(w, 'ret', PKG[pkg], KINDS[kind], present=_moisture_present(pkg, kind, ID, 'ret'))
    perm, _ = W.make_stream(w, 'perm', PKG[pkg], KINDS[kind], present=_moisture_present(pkg, kind, ID, 'perm'))
    cfg['_mc'] = mc = w.real('moisture_content', lo=0, hi=0.95, lo_strict=True, hi_strict=True)
    cfg['_pre_ret'], cfg['_pre_perm'] = _tot(ret), _tot(perm)
    pre = {c: cfg['_pre_ret'][c] + cfg['_pre_perm'][c] for c in cfg['_pre_ret']}
    kw = {} if cfg['strict'] is None else {'strict': cfg['strict']}
    _moisture_clauses(w, cfg, ret, perm, pre,
                      lambda: sep.adjust_moisture_content(ret, perm, mc, ID, **kw))


# --------------------------------------------------------------------------- mix_and_split_with_moisture_content

def masm_configs(tier):
    quick = tier == 'quick'
    I = lambda kind, pkg='P2', mode='two-maybe': [kind, pkg, mode]
    fams = [([I('l', mode='all-pos')], 'P2', None), ([I('l'), I('l', 'Q2', 'pos')], 'P2', None)]
    if not quick:
        fams += [([I('l', 'P3', 'all-maybe')], 'P3', None), ([I('l', mode='all-pos'), I('l', 'Q2', 'maybe')], 'P2', 'Water'),
                 ([I('l', 'P3', 'all-pos')], 'P3', 'Ethanol')]
    out = []
    for inlets, pkg, ID in fams:
        for split in ['scalar', 'vector']:
            for strict in [None, False]:
                nm = 'in=' + '+'.join(f'{k}{p}:{m}' for k, p, m in inlets) + f';pkg={pkg};ID={ID};split={split};strict={strict}'
                out.append({'name': nm, 'inlets': inlets, 'pkg': pkg, 'ID': ID, 'split': split, 'strict': strict,
                            'top': 'l', 'bpkg': pkg})
    return out


@group('C20/mix_and_split_with_moisture_content', configs=masm_configs,
       functions=['thermosteam.separations:mix_and_split_with_moisture_content', 'thermosteam.separations:mix_and_split',
                  'thermosteam.separations:adjust_moisture_content'],
       assumptions=['A-models', 'A-root'])
def mix_and_split_with_moisture_content(w, cfg):
    """Retentate + permeate = sum of inlets, other chemicals follow the split, moisture fraction as requested."""
    W.reset_caches()
    cfg = dict(cfg)
    th = _Stubs(w)
    ret, perm, inlets = _inlet_world(w, cfg, th, top_pkg=cfg['pkg'])
    split, xs = _split_leaves(w, cfg, ret)
    expected = _sum_inlets(ret, inlets)
    cfg['_mc'] = mc = w.real('moisture_content', lo=0, hi=0.95, lo_strict=True, hi_strict=True)
    # state between the two steps, by the statement of mix_and_split (checked in its own group)
    cfg['_pre_ret'] = {c: xs[c] * expected[c] for c in expected}
    cfg['_pre_perm'] = {c: expected[c] - xs[c] * expected[c] for c in expected}
    kw = {} if cfg['strict'] is None else {'strict': cfg['strict']}
    _moisture_clauses(w, cfg, ret, perm, expected,
                      lambda: sep.mix_and_split_with_moisture_content([s for s, _ in inlets], ret, perm, split, mc,
                                                                      cfg['ID'], **kw))
    for n, (s, st) in enumerate(inlets):
        w.ensure(f'inlet {n} unchanged (flows, phases, T, P)', _same_state(w, st, s))


# --------------------------------------------------------------------------- phase_split

def ps_configs(tier):
    quick = tier == 'quick'
    fams = [('gl', 'P3', ['P3', 'P3'], 'two-maybe'), ('gl', 'P3', ['Q4', 'P3'], 'two-maybe'), ('Ll', 'P3', ['P3', 'Q4'], 'pos+maybe'),
            ('gls', 'P2', ['P2', 'P2', 'P2'], 'maybe'), ('l', 'P3', ['P3'], 'two-maybe'),
            ('gl', 'P3', ['P3'], 'pos'), ('gl', 'P3', ['P3', 'P3', 'P3'], 'pos'), ('l', 'P3', ['P3', 'P3'], 'pos')]
    if not quick:
        fams += [('gl', 'P3', ['P3', 'P3'], 'all-maybe'), ('gls', 'P3', ['P3', 'Q4', 'Q3'], 'two-maybe'), ('ls', 'Q3', ['Q4', 'Q4'], 'two-maybe'),
                 ('g', 'Q3', ['Q4'], 'all-maybe'), ('gls', 'P2', ['P2', 'P2'], 'pos')]
    return [{'name': f'feed={k}{p}:{m};outlets=' + '+'.join(o), 'feed': k, 'pkg': p, 'outs': o, 'mode': m}
            for k, p, o, m in fams]


@group('C20/phase_split', configs=ps_configs,
       functions=['thermosteam.separations:phase_split', 'thermosteam._stream:Stream.copy_like',
                  'thermosteam._multi_stream:MultiStream.__getitem__', 'thermosteam._multi_stream:MultiStream.__iter__'])
def phase_split(w, cfg):
    """Outlet i receives phase i of the feed (and nothing else); the feed is unchanged."""
    W.reset_caches()
    kind = cfg['feed']
    feed, _ = W.make_stream(w, 'feed', PKG[cfg['pkg']], KINDS[kind], present=_present(cfg['pkg'], kind, cfg['mode']))
    feed.T = w.real('feed.T', lo=0, lo_strict=True)
    outs = []
    for n, p in enumerate(cfg['outs']):
        o, _ = W.make_stream(w, f'o{n}', PKG[p], 'l' if n % 2 else 'g', present=_present(p, 'l' if n % 2 else 'g', 'pos'))
        outs.append(o)
    pre = _state(feed)
    pre_outs = [_state(o) for o in outs]
    phases = _rows(kind)
    rows = {ph: _row(feed, ph) for ph in phases}
    try:
        sep.phase_split(feed, outs)
    except RuntimeError:
        w.ensure('RuntimeError only when the number of outlets differs from the number of phases', len(outs) != len(phases))
        w.ensure('nothing changed when the call is refused',
                 w.And(_same_state(w, pre, feed), *[_same_state(w, st, o) for st, o in zip(pre_outs, outs)]))
        w.canary('canary: refused call emptied outlet 0', w.eq(_tot(outs[0])[WATER], 0.))
        return
    w.ensure('normal return only with one outlet per phase', len(outs) == len(phases))
    w.ensure('feed unchanged (flows, phases, T, P)', _same_state(w, pre, feed))
    total = {c: 0. for c in feed.chemicals.CASs}
    for n, (ph, o) in enumerate(zip(phases, outs)):
        got = _tot(o)
        for cas, v in got.items():
            w.ensure(f'outlet {n}[{cas}] = feed[{ph},{cas}]', w.eq(v, rows[ph].get(cas, 0.)))
            if cas in total: total[cas] = total[cas] + v
        w.ensure(f'outlet {n} is a single-phase stream in phase {ph}', (not isinstance(o, tmo.MultiStream)) and o.phase == ph)
        w.ensure(f'outlet {n} rep_ok, no negative flows', w.And(W.rep_ok(w, o), _nonneg(w, o)))
    ft = _tot(feed)
    for cas in total:
        w.ensure(f'sum of outlets[{cas}] = feed', w.eq(total[cas], ft[cas]))
    c0 = feed.chemicals.CASs[0]
    w.canary('canary: outlet 0 = feed phase 0 + 1', w.eq(_tot(outs[0])[c0], rows[phases[0]][c0] + 1))


# --------------------------------------------------------------------------- dependency stubs (assumed contracts)

class _rebound:
    """Assign names in the namespace of thermosteam.separations for the duration of a body; always restored."""
    def __init__(self, **names): self.names = names; self.saved = {}
    def __enter__(self):
        for k, v in self.names.items():
            self.saved[k] = sep.__dict__[k]
            sep.__dict__[k] = v
        return self
    def __exit__(self, *exc):
        for k, v in self.saved.items(): sep.__dict__[k] = v
        return False


def _phi_stub(w, calls):
    """`compute_phase_fraction` -> any real number (fresh leaf); its array arguments are recorded for the frame."""
    def compute_phase_fraction(zs, Ks, guess=None, za=0., zb=0.):
        phi = w.real(f'phi{len(calls)}')
        calls.append({'zs': list(zs), 'Ks': list(Ks), 'guess': guess, 'za': za, 'zb': zb, 'phi': phi})
        return phi
    return compute_phase_fraction


class _Reports:
    """Collects the RuntimeWarnings a helper issues (the non-strict way of reporting infeasibility)."""
    def __enter__(self):
        self.cm = warnings.catch_warnings(record=True)
        self.log = self.cm.__enter__()
        warnings.simplefilter('always')
        return self
    def __exit__(self, *exc):
        self.cm.__exit__(*exc)
        return False
    @property
    def n(self): return sum(1 for i in self.log if issubclass(i.category, RuntimeWarning))


# --------------------------------------------------------------------------- handle_infeasible_flow_rates / check_partition_infeasibility

def hif_configs(tier):
    out = []
    for n in ([1, 2, 3] if tier == 'quick' else [1, 2, 3, 4]):
        for strict in [False, True]:
            out.append({'name': f'handle;N={n};strict={strict}', 'what': 'handle', 'N': n, 'strict': strict})
    for idx in [[], [0], [1], [0, 2], [2, 3]]:
        for strict in [False, True]:
            out.append({'name': f'check;index={idx};strict={strict}', 'what': 'check', 'index': idx, 'strict': strict})
    return out


@group('C20/handle_infeasible_flow_rates', configs=hif_configs,
       functions=['thermosteam.separations:handle_infeasible_flow_rates',
                  'thermosteam.separations:check_partition_infeasibility'])
def handle_infeasible_flow_rates(w, cfg):
    """Flows are clipped into [0, feed]; infeasibility is reported (InfeasibleRegion when strict, else a warning)
    exactly when some flow was outside -- whichever position it has."""
    strict = cfg['strict']
    if cfg['what'] == 'check':
        index = np.array(cfg['index'], dtype=int)
        anchor = w.real('anchor')     # the structure is the input here; one leaf keeps the canary refutable by a model
        raised = False
        with _Reports() as rep:
            try:
                sep.check_partition_infeasibility(index, strict)
            except InfeasibleRegion:
                raised = True
        infeasible = len(cfg['index']) > 0
        w.ensure('InfeasibleRegion iff strict and some index is infeasible', raised == (strict and infeasible))
        w.ensure('warning iff not strict and some index is infeasible', (rep.n > 0) == ((not strict) and infeasible))
        w.ensure('index array unchanged', list(index) == cfg['index'])
        w.canary('canary: anchor = anchor + 1', w.eq(anchor, anchor + 1))
        return
    N = cfg['N']
    m0 = [w.real(f'mol{i}') for i in range(N)]
    x0 = [w.real(f'maxmol{i}', lo=0) for i in range(N)]
    mol, maxmol = _arr(w, m0), _arr(w, x0)
    outside = w.Or(*[w.Or(w.lt(m, 0.), w.gt(m, x)) for m, x in zip(m0, x0)])
    with _Reports() as rep:
        try:
            sep.handle_infeasible_flow_rates(mol, maxmol, strict)
        except InfeasibleRegion:
            w.ensure('InfeasibleRegion only when strict and some flow is outside [0, feed]', w.And(strict, outside))
            w.ensure('feed array unchanged', w.all_eq(list(maxmol), x0))
            w.canary('canary: InfeasibleRegion although every flow is inside', w.Not(outside))
            return
    w.ensure('normal return when strict only if every flow is inside [0, feed]', w.Implies(outside, not strict))
    w.ensure('infeasibility reported by a warning iff some flow is outside [0, feed]',
             w.And(w.Implies(outside, rep.n > 0), w.Implies(w.Not(outside), rep.n == 0)))
    for i in range(N):
        w.ensure(f'mol[{i}] clipped into [0, feed]',
                 w.And(w.Implies(w.lt(m0[i], 0.), w.eq(mol[i], 0.)),
                       w.Implies(w.gt(m0[i], x0[i]), w.eq(mol[i], x0[i])),
                       w.Implies(w.And(w.ge(m0[i], 0.), w.le(m0[i], x0[i])), w.eq(mol[i], m0[i]))))
        w.ensure(f'0 <= mol[{i}] <= feed[{i}]', w.And(w.ge(mol[i], 0.), w.le(mol[i], x0[i])))
    w.ensure('feed array unchanged', w.all_eq(list(maxmol), x0))
    w.canary('canary: mol unchanged', w.all_eq(list(mol), m0))


# --------------------------------------------------------------------------- partition / phase_fraction

def _part_fams(tier):
    quick = tier == 'quick'
    # (package, IDs in equilibrium, top_chemicals, bottom_chemicals)
    fams = [('P3', ['Water', 'Ethanol'], None, None),
            ('P4', ['Water', 'Ethanol'], ['Octane'], ['Methanol']),
            ('P3', ['Ethanol', 'Water'], None, 'Octane'),          # a plain string, as in the doctest
            ('P3', ['Water', 'Ethanol', 'Octane'], None, None)]
    if not quick:
        fams += [('P4', ['Methanol', 'Water'], ['Octane', 'Ethanol'], None),
                 ('P4', ['Water', 'Ethanol', 'Octane'], None, ['Methanol']),
                 ('Q4', ['Water', 'Ethanol'], ['Methanol'], 'Octane'),
                 ('P2', ['Water', 'Ethanol'], None, None),
                 ('P4', ['Octane', 'Ethanol'], None, None)]
    return fams


def part_configs(tier):
    out = []
    for pkg, IDs, tc, bc in _part_fams(tier):
        for prior in ['eq', 'other']:
            for strict in [False, True]:
                if strict and prior == 'other' and tier == 'quick': continue
                out.append({'name': f'pkg={pkg};IDs={"+".join(IDs)};top={tc};bottom={bc};prior={prior};strict={strict}',
                            'pkg': pkg, 'IDs': IDs, 'tc': tc, 'bc': bc, 'prior': prior, 'strict': strict})
    return out


def _as_list(x):
    return [] if not x else ([x] if isinstance(x, str) else list(x))


def _part_world(w, cfg):
    pkg = cfg['pkg']
    IDs = cfg['IDs']
    allIDs = PKG[pkg]
    p = {'default': 'maybe', ('l', IDs[0]): 'pos'}       # F_mol > 0: the feed holds some of the first chemical in equilibrium
    feed, _ = W.make_stream(w, 'feed', allIDs, 'l', present=p)
    others = [i for i in allIDs if i not in IDs]
    # prior contents of the outlets: something among the chemicals in equilibrium / among the others
    pid = IDs[-1] if (cfg.get('prior', 'eq') == 'eq' or not others) else others[0]
    top, _ = W.make_stream(w, 'top', allIDs, 'l', present={'default': 'zero', ('l', allIDs[0]): 'pos'})
    bottom, _ = W.make_stream(w, 'bot', allIDs, 'l', present={'default': 'zero', ('l', pid): 'pos'})
    K = [w.real(f'K.{i}', lo=1e-3, hi=1e3) for i in IDs]
    return feed, top, bottom, K


def _forced(cfg):
    tc, bc = cfg['tc'], cfg['bc']
    return (tuple(tc) if isinstance(tc, list) else tc), (tuple(bc) if isinstance(bc, list) else bc)


@group('C20/partition', configs=part_configs,
       functions=['thermosteam.separations:partition', 'thermosteam.separations:handle_infeasible_flow_rates',
                  'thermosteam.separations:check_partition_infeasibility'],
       assumptions=['A-phase-fraction-havoc'], l0=True)
def partition(w, cfg):
    """top + bottom = feed for every chemical whatever the outlets held before and whatever phi the solver returns;
    no negative flows; flow ratios top/bottom reproduce K up to one common factor; forced chemicals go where told."""
    W.reset_caches()
    feed, top, bottom, K = _part_world(w, cfg)
    IDs = tuple(cfg['IDs'])
    tc, bc = _forced(cfg)
    Karr = _arr(w, K)
    pre = _state(feed)
    f = _tot(feed)
    calls = []
    with _rebound(compute_phase_fraction=_phi_stub(w, calls)), _Reports() as rep:
        try:
            phi = sep.partition(feed, top, bottom, IDs, Karr, top_chemicals=tc, bottom_chemicals=bc, strict=cfg['strict'])
        except InfeasibleRegion:
            # K > 0 and 0 < phi < 1 give bottom flows inside [0, feed]: there is nothing infeasible to report
            w.ensure('InfeasibleRegion never raised for positive partition coefficients', False)
            return
    t, b = _tot(top), _tot(bottom)
    cas = {i: W.chemical(i).CAS for i in PKG[cfg['pkg']]}
    for ID, c in cas.items():
        w.ensure(f'top[{ID}] + bottom[{ID}] = feed', w.eq(t[c] + b[c], f[c]))
    w.ensure('no negative flows', _nonneg(w, top, bottom))
    w.ensure('no infeasibility reported', rep.n == 0)
    for n, i in enumerate(IDs):
        for m, j in enumerate(IDs):
            if m > n:
                w.ensure(f'K reproduced up to a common factor [{i},{j}]: top_i/bottom_i : top_j/bottom_j = K_i : K_j',
                         w.eq(t[cas[i]] * b[cas[j]] * K[m], t[cas[j]] * b[cas[i]] * K[n]))
    for ID in _as_list(tc):
        w.ensure(f'top chemical [{ID}] entirely in top', w.And(w.eq(t[cas[ID]], f[cas[ID]]), w.eq(b[cas[ID]], 0.)))
    for ID in _as_list(bc):
        w.ensure(f'bottom chemical [{ID}] entirely in bottom', w.And(w.eq(b[cas[ID]], f[cas[ID]]), w.eq(t[cas[ID]], 0.)))
    for ID in cas:
        if ID not in IDs and ID not in _as_list(tc) and ID not in _as_list(bc):
            w.ensure(f'chemical not in equilibrium [{ID}] ends up in top', w.And(w.eq(t[cas[ID]], f[cas[ID]]), w.eq(b[cas[ID]], 0.)))
    p0 = calls[0]['phi']
    w.ensure('returned phase fraction is the solved one clipped into [0, 1]',
             w.And(w.Implies(w.le(p0, 0.), w.eq(phi, 0.)), w.Implies(w.ge(p0, 1.), w.eq(phi, 1.)),
                   w.Implies(w.And(w.gt(p0, 0.), w.lt(p0, 1.)), w.eq(phi, p0))))
    w.ensure('feed unchanged (flows, phases, T, P)', _same_state(w, pre, feed))
    w.ensure('K array unchanged', w.all_eq(list(Karr), K))
    c0 = cas[IDs[0]]
    w.canary('canary: top + bottom = feed + 1', w.eq(t[c0] + b[c0], f[c0] + 1))
    w.canary('canary: everything in equilibrium goes to top', w.eq(b[c0], 0.))
    w.note(phi=phi, top=t, bottom=b, feed=f)


def pf_configs(tier):
    return [{'name': f'pkg={pkg};IDs={"+".join(IDs)};top={tc};bottom={bc};strict={strict}', 'pkg': pkg, 'IDs': IDs, 'tc': tc,
             'bc': bc, 'strict': strict} for pkg, IDs, tc, bc in _part_fams(tier) for strict in [False, True]]


@group('C20/phase_fraction', configs=pf_configs,
       functions=['thermosteam.separations:phase_fraction', 'thermosteam.separations:handle_infeasible_flow_rates'],
       assumptions=['A-phase-fraction-havoc'], l0=True)
def phase_fraction(w, cfg):
    """Returns the solved fraction clipped into [0, 1]; the feed is only read; same solver problem as `partition`."""
    W.reset_caches()
    feed, top, bottom, K = _part_world(w, cfg)
    IDs = tuple(cfg['IDs'])
    tc, bc = _forced(cfg)
    Karr = _arr(w, K)
    pre = _state(feed)
    calls = []
    with _rebound(compute_phase_fraction=_phi_stub(w, calls)), _Reports() as rep:
        try:
            phi = sep.phase_fraction(feed, IDs, Karr, top_chemicals=tc, bottom_chemicals=bc, strict=cfg['strict'])
        except InfeasibleRegion:
            w.ensure('InfeasibleRegion never raised for positive partition coefficients', False)
            return
    p0 = calls[0]['phi']
    w.ensure('returned phase fraction is the solved one clipped into [0, 1]',
             w.And(w.Implies(w.le(p0, 0.), w.eq(phi, 0.)), w.Implies(w.ge(p0, 1.), w.eq(phi, 1.)),
                   w.Implies(w.And(w.gt(p0, 0.), w.lt(p0, 1.)), w.eq(phi, p0))))
    # the Rachford-Rice problem handed to the solver: fractions of the feed over equilibrium + forced chemicals
    f = _tot(feed)
    cas = {i: W.chemical(i).CAS for i in PKG[cfg['pkg']]}
    Fa = w.total([f[cas[i]] for i in _as_list(tc)])
    Fb = w.total([f[cas[i]] for i in _as_list(bc)])
    F = w.total([f[cas[i]] for i in IDs]) + Fa + Fb
    a = calls[0]
    w.ensure('solver is given z = feed fractions, the K array, and the forced top/bottom fractions',
             w.And(len(calls) == 1, len(a['zs']) == len(IDs), *[w.eq(z * F, f[cas[i]]) for z, i in zip(a['zs'], IDs)],
                   w.all_eq(a['Ks'], K), w.eq(a['za'] * F, Fa), w.eq(a['zb'] * F, Fb)))
    w.ensure('feed unchanged (flows, phases, T, P)', _same_state(w, pre, feed))
    w.ensure('K array unchanged', w.all_eq(list(Karr), K))
    w.ensure('no infeasibility reported', rep.n == 0)
    w.canary('canary: phase fraction = solved + 1', w.eq(phi, p0 + 1))


def _phi_stub_named(w, calls, name):
    def compute_phase_fraction(zs, Ks, guess=None, za=0., zb=0.):
        phi = w.real(f'{name}{len(calls)}')
        calls.append({'zs': list(zs), 'Ks': list(Ks), 'guess': guess, 'za': za, 'zb': zb, 'phi': phi})
        return phi
    return compute_phase_fraction
