# -*- coding: utf-8 -*-
"""
C09, mode U: the SparseVector kernels against their contracts for vectors of ARBITRARY size.
Source is read from the imported /repo module on every run.  These contracts are exactly what
the L0 contract level (engine/sx/l0.py) substitutes for the kernels in the other checks.
"""
import os
import sys
import json
import time
import traceback
import multiprocessing as mp
import numpy as np

VERIF = os.path.dirname(os.path.dirname(os.path.abspath(__file__)))
PROP = 'C09'


def _lemma_status():
    try:
        return open(os.path.join(VERIF, '.venv', 'lemmas_checked')).read().strip()
    except OSError:
        return 'not checked in this set-up'


def kernel_table():
    t = []
    for op in ('add', 'sub', 'mul', 'truediv'):
        for kind in ('scalar', 'sparse', 'array'):
            for inplace in (False, True):
                t.append((f"_{'i' if inplace else ''}{op}_{kind}", ('binary', op, kind, inplace)))
    for op in ('eq', 'ne', 'gt', 'lt', 'ge', 'le'):
        for kind in ('scalar', 'sparse', 'array'):
            t.append((f'_{op}_{kind}', ('binary', op, kind, False)))
    from engine.vcg import kernels_more
    t.extend(kernels_more.TABLE)
    return t


def _spec(desc):
    from engine.vcg import kernels, kernels_more
    if desc[0] == 'binary':
        return kernels.spec_binary(*desc[1:])
    return kernels_more.spec(desc)


def _task(item):
    name, desc = item
    name = name.split('.')[-1]
    import thermosteam  # noqa
    sp = sys.modules['thermosteam.base.sparse']
    from engine.vcg import kernels
    out = {'name': name, 'desc': list(desc)}
    try:
        owner = getattr(sp, desc[-1] if (desc[0] == 'more' and desc[1] == 'logical') else 'SparseVector')
        func = getattr(owner, name)
        r = kernels.verify(func, _spec(desc), f'thermosteam.base.sparse:{owner.__name__}.{name}')
        out['owner'] = owner.__name__
        if owner.__name__ != 'SparseVector': out['name'] = 'SLV.' + name
        out.update(paths=r['paths'], unsupported=r['unsupported'], obligations=r['obligations'],
                   solver_s=r['solver_s'], wall_s=r.get('wall_s', 0), second=r.get('second', {}), second_s=r.get('second_s', 0.0))
        cex = []
        for nm, m in r['cex'][:3]:
            try:
                cex.append((nm, kernels.concretise(r['pre'], m, desc)))
            except Exception as e:
                cex.append((nm, {'error': str(e)}))
        out['cex'] = cex
    except Exception as e:
        out['error'] = f'{type(e).__name__}: {e}\n{traceback.format_exc()[-800:]}'
    return out


def replay_native(name, desc, inputs):
    name = name.split('.')[-1]
    """Run the real kernel on concrete inputs and evaluate the contract at run time.  Returns list of failed clauses."""
    from engine.vcg import kernels
    return kernels.native_check(name, desc, inputs)


def sample_inputs(desc, count=400, seed=0):
    """Deterministic small inputs for one kernel (sizes 0..4, values with zeros, ties and exact cancellations against the
    other operand, length-1 operands for the broadcasting branches) in the format of replay_native."""
    import random
    rng = random.Random(1009 * seed + 7)
    pool = (0.0, 1.0, -1.0, 2.5, 0.5, -2.5, 3.0)
    fam = 'binary' if desc[0] == 'binary' else desc[1]
    kind = desc[2] if fam == 'binary' else (desc[3] if fam == 'logical' else None)

    def fvec(size, like=None):
        d = {}
        for i in range(size):
            v = rng.choice(pool)
            if like is not None and i in like and rng.random() < 0.5:
                v = rng.choice((-like[i], like[i]))          # exact cancellation / tie with the other operand
            if v != 0: d[i] = v
        return d
    out = []
    for _ in range(count):
        n = rng.choice((1, 2, 3, 4, 1, 3, 0))
        if fam == 'logical':
            me = {'size': n, 'set': sorted(i for i in range(n) if rng.random() < 0.5)}
            inp = {'self': me}
            if kind == 'sparse':
                m = rng.choice((n, n, n, 1, n + 1))
                inp['other'] = {'size': m, 'set': sorted(i for i in range(m) if rng.random() < 0.5)}
            elif kind == 'array':
                m = rng.choice((n, n, n, 1, n + 1))
                inp['other'] = {'array': [rng.choice((0.0, 1.0)) for _ in range(m)]}
            elif kind == 'scalar':
                inp['other'] = {'scalar': rng.random() < 0.5}
            out.append(inp); continue
        other = fvec(rng.choice((n, n, n, 1, n + 1)) if fam == 'binary' else n)
        m = max(other) + 1 if other else 0
        m = rng.choice((n, n, n, 1, n + 1)) if fam == 'binary' else n
        other = {k: v for k, v in fvec(m).items()}
        if fam == 'binary' and desc[1] == 'truediv':      # requires of the division contract: no zero divisor
            other = {i: (other.get(i) or rng.choice((1.0, -1.0, 2.5, 0.5))) for i in range(m)}
        me = {'size': n, 'dct': fvec(n, like=other), 'read_only': fam == 'unary' and rng.random() < 0.2}
        inp = {'self': me}
        if fam == 'binary':
            if kind == 'sparse': inp['other'] = {'size': m, 'dct': other}
            elif kind == 'array': inp['other'] = {'array': [other.get(i, 0.0) for i in range(m)]}
            else: inp['other'] = {'scalar': rng.choice(tuple(v for v in pool + tuple(-v for v in me['dct'].values()) if v != 0 or desc[1] != 'truediv'))}
        else:
            inp['other'] = {'size': n, 'dct': {k: v for k, v in other.items() if k < n}}
        out.append(inp)
    return out


def native_fallback(name, desc, seed=0):
    """A kernel that the VC generator can no longer translate (it was proved on the baseline tree) is run natively on
    sampled inputs against the same contract (NumPy as oracle).  Returns (failing inputs, failed clauses) or None."""
    for inp in sample_inputs(desc, seed=seed):
        try:
            failed = replay_native(name, list(desc), inp)
        except ZeroDivisionError:
            continue
        except Exception as e:
            failed = [f'exception {type(e).__name__}: {e}']
        if failed:
            return inp, failed
    return None


def run(prop, tier, jobs, seed):
    from engine import runner
    t0 = time.time()
    items = kernel_table()
    ctxm = mp.get_context('fork')
    with ctxm.Pool(min(jobs, len(items))) as pool:
        res = pool.map(_task, items, chunksize=1)
    known = runner.load_known()
    baseline = runner.load_baseline()
    n_ob = n_dis = 0
    status = 0
    functions = []
    unsupported = []
    samples = []
    viol = 0
    newbase = {}
    for r in res:
        fq = f"thermosteam.base.sparse:{r.get('owner', 'SparseVector')}.{r['name']}"
        if r.get('error'):
            print(f"ENGINE-ERROR C09/U/{r['name']}: {r['error']}"); status = max(status, 3); continue
        if r['unsupported']:
            unsupported.append(f"{r['name']}: {r['unsupported']}")
            if any(k.startswith(f"C09/U/{r['name']}/") for k in baseline):
                # proved on the baseline tree, outside the VCG subset on this tree: never a silent pass.  The same contract is
                # evaluated natively on sampled inputs; a failing input is a replayed violation, otherwise the kernel is
                # reported as undecided by the engine (exit 3)
                fb = None
                try:
                    fb = native_fallback(r['name'], r['desc'], seed)
                except Exception as e:
                    print(f"ENGINE-ERROR C09/U/{r['name']}: native fall-back failed: {type(e).__name__}: {e}")
                if fb is not None:
                    inputs, failed = fb
                    ob = f"C09/U/{r['name']}/{failed[0]}"
                    rdir = os.path.join(VERIF, 'replays', PROP); os.makedirs(rdir, exist_ok=True)
                    path = os.path.join(rdir, ('U__' + r['name'] + '__native_fallback').replace('/', '_') + '.json')
                    json.dump({'property': PROP, 'obligation': ob, 'function': fq, 'mode': 'U', 'solver_verdict': 'not translated: ' + r['unsupported'],
                               'inputs': inputs, 'native_failed_clauses': failed,
                               'replay_cmd': f'./check C09 --replay {os.path.relpath(path, VERIF)}'}, open(path, 'w'), indent=1, default=str)
                    print(f'VIOLATION property={PROP} replay={path}')
                    print(f"  kernel {r['name']} is no longer within the VC generator's subset ({r['unsupported']}); native run of the real kernel on a sampled input fails: {failed[:3]}")
                    status = 1; viol += 1; n_ob += 1
                else:
                    print(f"ENGINE-ERROR C09/U/{r['name']}: proved on the baseline tree but no longer within the VC generator's subset ({r['unsupported']}); 400 sampled native runs satisfy the contract")
                    if status == 0: status = 3
            continue
        functions.append({'name': fq, 'mode': 'U', 'paths': r['paths']})
        bad = [(n, v) for n, v in r['obligations'] if v != 'unsat']
        cexs = dict((n, c) for n, c in r.get('cex', []))
        for n, v in r['obligations']:
            ob = f"C09/U/{r['name']}/{n.split(': ', 1)[-1]}"
            k = runner.match_known(known, PROP, 'C09/U', r['name'], n.split(': ', 1)[-1])
            if v == 'unsat':
                n_ob += 1; n_dis += 1; newbase[ob] = 'unsat'
                continue
            if k is not None:
                print(f"KNOWN-FINDING: property={PROP} {k['what']} [{k['id']}; {ob}]")
                continue
            n_ob += 1
            if v == 'unknown':
                print(f'UNDECIDED {ob}'); status = max(status, 2) if status != 1 else 1
                continue
            # refuted: replay the counter-model on the real function
            inputs = cexs.get(n)
            failed = None
            if inputs and 'error' not in inputs:
                try:
                    failed = replay_native(r['name'], r['desc'], inputs)
                except Exception as e:
                    failed = [f'exception {type(e).__name__}: {e}']
            rdir = os.path.join(VERIF, 'replays', PROP); os.makedirs(rdir, exist_ok=True)
            path = os.path.join(rdir, ('U__' + r['name'] + '__' + n).replace('/', '_').replace(' ', '_').replace(':', '')[:150] + '.json')
            json.dump({'property': PROP, 'obligation': ob, 'function': fq, 'mode': 'U', 'solver_verdict': v,
                       'inputs': inputs, 'native_failed_clauses': failed,
                       'replay_cmd': f'./check C09 --replay {os.path.relpath(path, VERIF)}'}, open(path, 'w'), indent=1, default=str)
            if failed:
                print(f'VIOLATION property={PROP} replay={path}')
                print(f'  obligation {ob} refuted; native run of the real kernel fails: {failed[:3]}')
                status = 1; viol += 1
            elif baseline.get(ob) == 'unsat':
                print(f'VIOLATION property={PROP} replay={path} no-failing-input-found')
                status = 1; viol += 1
            else:
                print(f'UNDECIDED {ob} (refuted, not reproduced natively, not in baseline)')
                if status == 0: status = 2
        if len(samples) < 4:
            samples.append({'function': fq, 'paths': r['paths'], 'obligations': [f'{n} -> {v}' for n, v in r['obligations'][:6]]})
    sec = {}
    for r in res:
        for k_, v_ in (r.get('second') or {}).items(): sec[k_] = sec.get(k_, 0) + v_
    if sec.get('disagreed'):
        print(f"UNDECIDED C09/U: z3 and cvc5 disagree on {sec['disagreed']} verification condition(s) (z3 unsat, cvc5 sat)")
        if status == 0: status = 2
    cov = {'obligations': n_ob, 'discharged': n_dis, 'obligations_U': n_ob,
           'second_back_end': {'solver': 'cvc5 1.0.3 (/usr/bin/cvc5) on the SMT-LIB text of the same z3 terms (array lambdas hoisted into defining axioms)',
                               'queries': sec, 'solver_time_s': round(sum(r.get('second_s', 0) for r in res), 2),
                               'meaning': 'confirmed = VCs (obligations, path-infeasibility and internal queries) answered unsat by z3 AND by cvc5; z3_only = cvc5 gave no answer; decided_by_cvc5 = z3 unknown, cvc5 unsat'},
           'functions_under_contract': functions,
           'unsupported_by_mode_U': unsupported,
           'samples': samples,
           'solver_time_U_s': round(sum(r.get('solver_s', 0) for r in res), 2),
           'trusted_base': ['VCG engine (engine/vcg): AST->z3 encoding of dict/set/array/loops (pointwise summaries)',
                            'lemma schema: card monotone under inclusion; nonempty(dom) <=> exists k. dom[k] (Skolem + ground instances)',
                            'lemma schema F0-F2 (card of a key set inside range(size): <= size, = size -> full, < size -> a hole), lemmas/FinsetCard.lean: ' + _lemma_status()]}
    return {'status': status, 'coverage': cov, 'baseline': newbase, 'violations': viol, 'wall_s': time.time() - t0}
