# -*- coding: utf-8 -*-
"""
C09, mode U: the SparseVector kernels against their contracts for vectors of ARBITRARY size.
Source is read from the imported /repo module on every run.  These contracts are exactly what
the L0 contract level (engine/sx/l0.py) substitutes for the kernels in the other checks.
"""
import os
import sys
import json
import time
import traceback
import multiprocessing as mp
import numpy as np

VERIF = os.path.dirname(os.path.dirname(os.path.abspath(__file__)))
PROP = 'C09'


def kernel_table():
    t = []
    for op in ('add', 'sub', 'mul', 'truediv'):
        for kind in ('scalar', 'sparse', 'array'):
            for inplace in (False, True):
                t.append((f"_{'i' if inplace else ''}{op}_{kind}", ('binary', op, kind, inplace)))
    for op in ('eq', 'ne', 'gt', 'lt', 'ge', 'le'):
        for kind in ('scalar', 'sparse', 'array'):
            t.append((f'_{op}_{kind}', ('binary', op, kind, False)))
    from engine.vcg import kernels_more
    t.extend(kernels_more.TABLE)
    return t


def _spec(desc):
    from engine.vcg import kernels, kernels_more
    if desc[0] == 'binary':
        return kernels.spec_binary(*desc[1:])
    return kernels_more.spec(desc)


def _task(item):
    name, desc = item
    name = name.split('.')[-1]
    import thermosteam  # noqa
    sp = sys.modules['thermosteam.base.sparse']
    from engine.vcg import kernels
    out = {'name': name, 'desc': list(desc)}
    try:
        owner = getattr(sp, desc[-1] if (desc[0] == 'more' and desc[1] == 'logical') else 'SparseVector')
        func = getattr(owner, name)
        r = kernels.verify(func, _spec(desc), f'thermosteam.base.sparse:{owner.__name__}.{name}')
        out['owner'] = owner.__name__
        if owner.__name__ != 'SparseVector': out['name'] = 'SLV.' + name
        out.update(paths=r['paths'], unsupported=r['unsupported'], obligations=r['obligations'],
                   solver_s=r['solver_s'], wall_s=r.get('wall_s', 0))
        cex = []
        for nm, m in r['cex'][:3]:
            try:
                cex.append((nm, kernels.concretise(r['pre'], m, desc)))
            except Exception as e:
                cex.append((nm, {'error': str(e)}))
        out['cex'] = cex
    except Exception as e:
        out['error'] = f'{type(e).__name__}: {e}\n{traceback.format_exc()[-800:]}'
    return out


def replay_native(name, desc, inputs):
    name = name.split('.')[-1]
    """Run the real kernel on concrete inputs and evaluate the contract at run time.  Returns list of failed clauses."""
    from engine.vcg import kernels
    return kernels.native_check(name, desc, inputs)


def run(prop, tier, jobs, seed):
    from engine import runner
    t0 = time.time()
    items = kernel_table()
    ctxm = mp.get_context('fork')
    with ctxm.Pool(min(jobs, len(items))) as pool:
        res = pool.map(_task, items, chunksize=1)
    known = runner.load_known()
    baseline = runner.load_baseline()
    n_ob = n_dis = 0
    status = 0
    functions = []
    unsupported = []
    samples = []
    viol = 0
    newbase = {}
    for r in res:
        fq = f"thermosteam.base.sparse:{r.get('owner', 'SparseVector')}.{r['name']}"
        if r.get('error'):
            print(f"ENGINE-ERROR C09/U/{r['name']}: {r['error']}"); status = max(status, 3); continue
        if r['unsupported']:
            unsupported.append(f"{r['name']}: {r['unsupported']}")
            continue
        functions.append({'name': fq, 'mode': 'U', 'paths': r['paths']})
        bad = [(n, v) for n, v in r['obligations'] if v != 'unsat']
        cexs = dict((n, c) for n, c in r.get('cex', []))
        for n, v in r['obligations']:
            ob = f"C09/U/{r['name']}/{n.split(': ', 1)[-1]}"
            k = runner.match_known(known, PROP, 'C09/U', r['name'], n.split(': ', 1)[-1])
            if v == 'unsat':
                n_ob += 1; n_dis += 1; newbase[ob] = 'unsat'
                continue
            if k is not None:
                print(f"KNOWN-FINDING: property={PROP} {k['what']} [{k['id']}; {ob}]")
                continue
            n_ob += 1
            if v == 'unknown':
                print(f'UNDECIDED {ob}'); status = max(status, 2) if status != 1 else 1
                continue
            # refuted: replay the counter-model on the real function
            inputs = cexs.get(n)
            failed = None
            if inputs and 'error' not in inputs:
                try:
                    failed = replay_native(r['name'], r['desc'], inputs)
                except Exception as e:
                    failed = [f'exception {type(e).__name__}: {e}']
            rdir = os.path.join(VERIF, 'replays', PROP); os.makedirs(rdir, exist_ok=True)
            path = os.path.join(rdir, ('U__' + r['name'] + '__' + n).replace('/', '_').replace(' ', '_').replace(':', '')[:150] + '.json')
            json.dump({'property': PROP, 'obligation': ob, 'function': fq, 'mode': 'U', 'solver_verdict': v,
                       'inputs': inputs, 'native_failed_clauses': failed,
                       'replay_cmd': f'./check C09 --replay {os.path.relpath(path, VERIF)}'}, open(path, 'w'), indent=1, default=str)
            if failed:
                print(f'VIOLATION property={PROP} replay={path}')
                print(f'  obligation {ob} refuted; native run of the real kernel fails: {failed[:3]}')
                status = 1; viol += 1
            elif baseline.get(ob) == 'unsat':
                print(f'VIOLATION property={PROP} replay={path} no-failing-input-found')
                status = 1; viol += 1
            else:
                print(f'UNDECIDED {ob} (refuted, not reproduced natively, not in baseline)')
                if status == 0: status = 2
        if len(samples) < 4:
            samples.append({'function': fq, 'paths': r['paths'], 'obligations': [f'{n} -> {v}' for n, v in r['obligations'][:6]]})
    cov = {'obligations': n_ob, 'discharged': n_dis, 'obligations_U': n_ob,
           'functions_under_contract': functions,
           'unsupported_by_mode_U': unsupported,
           'samples': samples,
           'solver_time_U_s': round(sum(r.get('solver_s', 0) for r in res), 2),
           'trusted_base': ['VCG engine (engine/vcg): AST->z3 encoding of dict/set/array/loops (pointwise summaries)',
                            'lemma schema: card monotone under inclusion; nonempty(dom) <=> exists k. dom[k] (Skolem + ground instances)']}
    return {'status': status, 'coverage': cov, 'baseline': newbase, 'violations': viol, 'wall_s': time.time() - t0}
